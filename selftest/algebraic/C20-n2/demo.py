"""C20 / n2 equivalence demo: trap_grad / min_trap_grad (and their consumers
spokes_grad and dz_pins) on a spread of areas, limits, rasters and scalar types.

Prints a SHA256 digest of every result (waveform values to 10 significant
digits, dtype, shape, the returned ramp count and its type), of the exception
type for invalid inputs, and of array-valued arguments after each call.  The
digest must be identical on the pristine tree and on the tree with
n2/patch.diff applied.
"""
import hashlib
import sys
import warnings

import numpy as np

import sigpy.mri.rf as rf

H = hashlib.sha256()
NREC = [0]
COUNT = {"ok": 0, "exc": {}}


def put(*items):
    for it in items:
        H.update(repr(it).encode())
        H.update(b"|")
    NREC[0] += 1


def arr_digest(a):
    a = np.asarray(a)
    flat = a.ravel()
    if np.iscomplexobj(flat):
        vals = ["%.9e%+.9ej" % (v.real, v.imag) for v in flat.tolist()]
    elif flat.dtype.kind in "iub":
        vals = [repr(int(v)) for v in flat.tolist()]
    elif flat.dtype.kind not in "f":
        vals = [repr(v) for v in flat.tolist()]
    else:
        vals = ["%.9e" % float(v) for v in flat.tolist()]
    return (str(a.dtype), a.shape, hashlib.sha256(
        ",".join(vals).encode()).hexdigest())


def describe(x):
    if isinstance(x, np.ndarray):
        return ("ndarray",) + arr_digest(x)
    if isinstance(x, np.generic):
        return (type(x).__name__, "%.9e" % float(x)
                if np.isrealobj(x) else repr(x))
    if isinstance(x, (tuple, list)):
        return (type(x).__name__, tuple(describe(v) for v in x))
    return (type(x).__name__, repr(x))


def call(tag, fn, *args, **kw):
    try:
        with warnings.catch_warnings():
            warnings.simplefilter("ignore")
            out = fn(*args, **kw)
        put(tag, "ok", describe(out))
        COUNT["ok"] += 1
    except Exception as e:  # noqa: BLE001 - exception TYPE is recorded
        name = type(e).__name__
        put(tag, "exc", name)
        COUNT["exc"][name] = COUNT["exc"].get(name, 0) + 1
    # arguments after the call (array-valued ones could be modified in place)
    put(tag, "args", tuple(describe(a) for a in args))


def main():
    designers = (("trap", rf.trap_grad), ("mintrap", rf.min_trap_grad))

    # 1. dense deterministic grid over the quantifier of the property
    for dt in (1e-6, 4e-6, 1e-5, 1e-4):
        for dgdt in (1e2, 1e3, 1.8e4, 1e5):
            for gmax in (0.1, 0.104, 0.5, 1.0, 2.0, 4.0, 10.0):
                tri = np.ceil(gmax / dgdt / dt) * dt * gmax
                areas = [1e-6, 3.3e-5, 8e-4, 2.5e-2, 1.0]
                areas += [m * tri for m in (0.25, 0.999, 1.0, 1.001, 2.5)
                          if 1e-7 <= m * tri <= 2]
                for area in areas:
                    if area / gmax / dt > 1e5:
                        continue  # keep the waveforms (and the run) short
                    for nm, fn in designers:
                        call("grid-" + nm, fn, area, gmax, dgdt, dt)

    # 2. scalar types: python int / float, numpy float32 / float64 / int64,
    #    0-d and 1-element arrays; the unit-test parameters; repeated calls
    casts = {
        "pyfloat": float,
        "f64": np.float64,
        "f32": np.float32,
        "f16": np.float16,
        "zerod": lambda v: np.array(float(v)),
        "onearr": lambda v: np.array([float(v)]),
        "frac": lambda v: __import__("fractions").Fraction(v),
    }
    params = [(200 * 4e-6, 2, 18000, 4e-6), (1e-4, 2, 18000, 4e-6),
              (1, 10, 100, 1e-4), (1, 1, 100, 1e-4), (2, 4, 1000, 1e-4),
              (0.5, 2.5, 1e4, 1e-5)]
    for p in params:
        for nm, fn in designers:
            call("pyint-" + nm, fn, *p)
            call("pyint-again-" + nm, fn, *p)
            for cname, cast in casts.items():
                for pos in range(4):
                    q = list(p)
                    q[pos] = cast(p[pos])
                    call("cast-%s-%d-%s" % (cname, pos, nm), fn, *q)
                call("castall-%s-%s" % (cname, nm), fn, *[cast(v) for v in p])
    for nm, fn in designers:
        call("npint-" + nm, fn, np.int64(1), np.int64(10), np.int64(100),
             1e-4)
        call("extra-args-" + nm, fn, 8e-4, 2, 18000, 4e-6, 0)
        call("extra-args6-" + nm, fn, 8e-4, 2, 18000, 4e-6, 0, 0, 0, 0, 0, 0)
        call("kw-" + nm, fn, area=8e-4, gmax=2, dgdt=18000, dt=4e-6)

    # 3. invalid / degenerate inputs: the exception types must not change
    specials = (0, 0.0, -0.0, -1e-4, -8e-4, -1.0, np.nan, np.inf, -np.inf,
                1e-300, 1e300, None, "1", 1j, True)
    base = [8e-4, 2, 18000, 4e-6]
    base_tri = [1e-5, 2, 18000, 4e-6]
    for b_name, b in (("trapz", base), ("tri", base_tri)):
        for pos in range(4):
            for sp in specials:
                q = list(b)
                q[pos] = sp
                for nm, fn in designers:
                    call("bad-%s-%d-%r-%s" % (b_name, pos, sp, nm), fn, *q)
    for nm, fn in designers:
        call("noargs-" + nm, fn)
        call("threeargs-" + nm, fn, 8e-4, 2, 18000)
        call("vec-area-" + nm, fn, np.array([8e-4, 4e-4]), 2, 18000, 4e-6)
        call("vec-gmax-" + nm, fn, 8e-4, np.array([2.0, 3.0]), 18000, 4e-6)

    # 4. consumers: spokes_grad (blips + refocusing lobe) and dz_pins
    rng = np.random.RandomState(7)
    for n in (1, 2, 5):
        k = rng.uniform(-0.5, 0.5, size=(n, 2))
        for cfg in ((4, 5, 2, 18000, 4e-6), (4, 5, 4, 20000, 1e-5),
                    (2, 10, 1, 5000, 1e-5), (4, 5, 2, 100, 1e-4),
                    (0, 5, 2, 18000, 4e-6), (4, 5, -2, 18000, 4e-6)):
            call("spokes-%d" % n, rf.spokes_grad, k, *cfg)
    call("pins", rf.dz_pins, tb=4, sl_sep=3, sl_thick=0.3, g_max=4,
         g_slew=18000, dt=4e-6, b1_max=0.18)
    call("pins2", rf.dz_pins, tb=4, sl_sep=1, sl_thick=0.2, g_max=1,
         g_slew=5000, dt=1e-5, b1_max=0.18)

    print("records:", NREC[0], "ok calls:", COUNT["ok"], "exceptions:",
          sorted(COUNT["exc"].items()))
    print("DIGEST", H.hexdigest())
    return 0


if __name__ == "__main__":
    sys.exit(main())
