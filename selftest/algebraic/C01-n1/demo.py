"""C01 / round 5 / n1 - equivalence demonstration (digest must not change).

Exercises everything that depends on the rewritten code:
  * _get_multiply_adjoint_sum_axes / _get_matmul_adjoint_sum_axes directly,
  * Multiply / MatMul / RightMatMul adjoints, double adjoints and normal
    operators for many broadcasting patterns, dtypes, real and complex data,
  * Tile / Sum (constructor state, forward, adjoint) for many axes incl.
    negative, repeated, empty and out-of-range ones,
  * invalid shapes (exception types), repeated calls, and the caller's input
    arrays after every call.

Prints one SHA256 digest of all results (values rounded to 10 significant
digits, dtypes, shapes, exception types, reprs, constructor state).

Run as:  cd <tree> && PYTHONPATH=<tree> /venv/bin/python demo.py
"""
import hashlib
import itertools

import numpy as np

import sigpy as sp
import sigpy.mri  # noqa: F401
from sigpy import linop

H = hashlib.sha256()
NREC = [0]


def rec(*items):
    for it in items:
        H.update(repr(it).encode())
        H.update(b"\x00")
        NREC[0] += 1


def fmt(v):
    v = float(v) + 0.0
    if v == 0:
        return "0"
    return np.format_float_scientific(v, precision=9, unique=False)


def arr(a):
    a = np.asarray(a)
    flat = a.ravel()
    if np.iscomplexobj(flat):
        vals = [fmt(z.real) + "," + fmt(z.imag) for z in flat]
    else:
        vals = [fmt(z) for z in flat]
    return (str(a.dtype), tuple(a.shape), tuple(vals))


def exc(e):
    names = [type(e).__name__]
    while e.__cause__ is not None:
        e = e.__cause__
        names.append(type(e).__name__)
    return tuple(names)


def attempt(tag, f):
    try:
        out = f()
    except Exception as e:  # noqa
        rec(tag, "EXC", exc(e))
        return None
    rec(tag, "OK", out)
    return out


def data(rng, shape, dtype):
    shape = tuple(int(s) for s in shape)
    # dyadic rationals: sums and products are exact in every dtype used
    re = rng.integers(-8, 9, size=shape) / 4.0
    if np.issubdtype(dtype, np.complexfloating):
        im = rng.integers(-8, 9, size=shape) / 4.0
        return (re + 1j * im).astype(dtype)
    if np.issubdtype(dtype, np.integer):
        return rng.integers(-8, 9, size=shape).astype(dtype)
    return re.astype(dtype)


def probe(tag, make, rng, xdtypes):
    """Build a linop and record everything observable about it and its .H"""
    try:
        A = make()
    except Exception as e:  # noqa
        rec(tag, "CONSTRUCT-EXC", exc(e))
        return
    rec(tag, "shapes", list(A.ishape), list(A.oshape), repr(A))

    def adj():
        AH = A.H
        return (list(AH.ishape), list(AH.oshape), repr(AH), type(AH).__name__)

    if attempt(tag + " H", adj) is None:
        return
    AH = A.H
    attempt(tag + " HH", lambda: (repr(AH.H), list(AH.H.ishape)))
    if isinstance(AH, linop.Compose):
        rec(tag, "H factors", [repr(L) for L in AH.linops])
        for L in AH.linops:
            if isinstance(L, linop.Sum):
                rec(tag, "Sum axes", L.axes)
    for dt in xdtypes:
        x = data(rng, A.ishape, dt)
        y = data(rng, A.oshape, dt)
        x0, y0 = x.copy(), y.copy()
        for rep in range(2):
            attempt(tag + " A x %s #%d" % (dt.__name__, rep), lambda: arr(A(x)))
            attempt(
                tag + " AH y %s #%d" % (dt.__name__, rep), lambda: arr(AH(y))
            )
        attempt(tag + " AHH x " + dt.__name__, lambda: arr(AH.H(x)))
        attempt(tag + " N x " + dt.__name__, lambda: arr(A.N(x)))
        attempt(
            tag + " vdot " + dt.__name__,
            lambda: (
                arr(np.vdot(A(x), y)),
                arr(np.vdot(x, AH(y))),
            ),
        )
        rec(tag, "inputs after", arr(x), arr(y), bool((x == x0).all()),
            bool((y == y0).all()))


def main():
    rng = np.random.default_rng(31415)
    dts = [np.float32, np.float64, np.complex64, np.complex128]

    # ---- helpers, called directly on every valid broadcasting pattern ----
    sizes = [1, 2, 3]
    for ni in range(0, 4):
        for nm in range(0, 4):
            for ish in itertools.product(sizes, repeat=ni):
                for msh in itertools.product(sizes, repeat=nm):
                    tag = "mulaxes %s %s" % (ish, msh)
                    try:
                        osh = linop._get_multiply_oshape(list(ish), list(msh))
                    except Exception as e:  # noqa
                        rec(tag, "EXC", exc(e))
                        continue
                    rec(
                        tag,
                        osh,
                        linop._get_multiply_adjoint_sum_axes(
                            osh, list(ish), list(msh)
                        ),
                    )
    for ni in range(2, 5):
        for nm in range(2, 5):
            for ish in itertools.product([1, 2], repeat=ni):
                for msh in itertools.product([1, 2], repeat=nm):
                    for adjoint in [False, True]:
                        tag = "mmaxes %s %s %s" % (ish, msh, adjoint)
                        try:
                            osh = linop._get_matmul_oshape(
                                list(ish), list(msh), adjoint
                            )
                        except Exception as e:  # noqa
                            rec(tag, "EXC", exc(e))
                            continue
                        rec(
                            tag,
                            osh,
                            linop._get_matmul_adjoint_sum_axes(
                                osh, list(ish), list(msh)
                            ),
                        )
                    try:
                        osh = linop._get_right_matmul_oshape(
                            list(ish), list(msh), False
                        )
                    except Exception as e:  # noqa
                        rec("rmmaxes", ish, msh, "EXC", exc(e))
                        continue
                    rec(
                        "rmmaxes",
                        ish,
                        msh,
                        osh,
                        linop._get_matmul_adjoint_sum_axes(
                            osh, list(ish), list(msh)
                        ),
                    )

    # ---- Multiply ----
    mul_cfg = [
        ([2], 1.5), ([2], 1), ([3, 2], 2 - 1j), ([2], np.float32(0.5)),
        ([2], [2]), ([2], [2, 2]), ([2], [1, 2]), ([1], [3]), ([1, 1], [3, 1]),
        ([3, 1, 4], [3, 5, 4]), ([3, 1], [1, 3]), ([3, 1], [2, 3, 3]),
        ([2, 1, 3], [4, 2, 3, 3]), ([1, 4], [3, 2, 4]), ([5, 1], [2, 1, 1]),
        ([4, 5], [3, 4, 5]), ([2, 3, 4], [4]), ([2, 3, 4], [3, 1]),
        ([1, 1, 1], [1]), ([2, 3], [3, 2]), ([2, 3], [4, 3]), ((3, 1), (3, 2)),
    ]
    for ishape, m in mul_cfg:
        for mdt in [np.float64, np.complex128, np.complex64]:
            if isinstance(m, (list, tuple)):
                mult = data(rng, m, mdt)
                mtag = "%s %s" % (m, mdt.__name__)
            else:
                if mdt is not np.float64:
                    continue
                mult = m
                mtag = repr(m)
            for conj in [False, True]:
                probe(
                    "Multiply %s %s conj=%s" % (ishape, mtag, conj),
                    lambda: linop.Multiply(ishape, mult, conj=conj),
                    rng,
                    dts,
                )

    # ---- MatMul / RightMatMul ----
    mm_cfg = [
        ((5, 2, 3), (5, 4, 2)), ((2, 3), (4, 2)), ((2, 3), (5, 4, 2)),
        ((1, 2, 3), (5, 4, 2)), ((5, 2, 3), (4, 2)), ((5, 2, 3), (1, 4, 2)),
        ((3, 1, 2, 2), (1, 4, 3, 2)), ((2, 1), (3, 2)), ((1, 1, 2, 1), (3, 2)),
        ((2, 3), (4, 3)), ((4, 2, 3), (5, 4, 2)), ((2,), (3, 2)),
    ]
    for ishape, mshape in mm_cfg:
        for mdt in [np.float64, np.complex128]:
            for adjoint in [False, True]:
                msh = mshape
                if adjoint:
                    msh = mshape[:-2] + (mshape[-1], mshape[-2])
                mat = data(rng, msh, mdt)
                probe(
                    "MatMul %s %s %s adj=%s"
                    % (ishape, msh, mdt.__name__, adjoint),
                    lambda: linop.MatMul(ishape, mat, adjoint=adjoint),
                    rng,
                    dts,
                )
    rmm_cfg = [
        ((5, 4, 2), (5, 2, 3)), ((4, 2), (2, 3)), ((4, 2), (5, 2, 3)),
        ((1, 4, 2), (5, 2, 3)), ((5, 4, 2), (2, 3)), ((5, 4, 2), (1, 2, 3)),
        ((3, 1, 2, 2), (1, 4, 2, 3)), ((4, 2), (3, 3)), ((2,), (2, 3)),
    ]
    for ishape, mshape in rmm_cfg:
        for mdt in [np.float64, np.complex128]:
            for adjoint in [False, True]:
                msh = mshape
                if adjoint:
                    msh = mshape[:-2] + (mshape[-1], mshape[-2])
                mat = data(rng, msh, mdt)
                probe(
                    "RightMatMul %s %s %s adj=%s"
                    % (ishape, msh, mdt.__name__, adjoint),
                    lambda: linop.RightMatMul(ishape, mat, adjoint=adjoint),
                    rng,
                    dts,
                )

    # ---- Tile / Sum ----
    ts_cfg = [
        ([2, 3, 4, 2], [1, 3]), ([2, 3, 4, 2], [3, 1]), ([2, 3, 4], [-1]),
        ([2, 3, 4], [0, -1]), ([2, 3, 4], []), ([2, 3, 4], [0, 1, 2]),
        ([2, 3, 4], [1, 1]), ([2, 3, 4], [1, -2]), ([2, 3, 4], [5]),
        ([2, 3, 4], (2,)), ((2, 3, 4), (0,)), ([1, 3, 1], [0, 2]),
        ([1, 3, 1], [1]), ([4], [0]), ([4], [-1]), ([1], [0]),
        (np.array([2, 3]), [0]), ([2, 3], [0.0]), ([], []), ([], [0]),
    ]
    for shape, axes in ts_cfg:
        tag = "Tile %s %s" % (list(shape), list(axes))

        def tile_state():
            T = linop.Tile(shape, axes)
            return (
                T.axes,
                list(T.ishape),
                list(T.oshape),
                T.expanded_ishape,
                T.reps,
                [type(v).__name__ for v in T.expanded_ishape],
                [type(v).__name__ for v in T.reps],
                sorted(T.__dict__),
            )

        attempt(tag + " state", tile_state)
        probe(tag, lambda: linop.Tile(shape, axes), rng,
              dts + [np.int64])
        probe("Sum %s %s" % (list(shape), list(axes)),
              lambda: linop.Sum(shape, axes), rng, dts + [np.int64])

    # wrongly shaped inputs
    T = linop.Tile([2, 3, 4], [1])
    for shp in [(2, 4), (2, 3), (8,), (2, 4, 1), (3, 4)]:
        x = data(rng, shp, np.float64)
        attempt("Tile bad input %s" % (shp,), lambda: arr(T(x)))
        attempt("Tile.H bad input %s" % (shp,), lambda: arr(T.H(x)))
    A = linop.Multiply([3, 1], data(rng, [2, 3, 3], np.complex128))
    for shp in [(3,), (3, 3), (2, 3, 3), (2, 3, 1), (9,)]:
        x = data(rng, shp, np.complex128)
        attempt("Multiply bad input %s" % (shp,), lambda: arr(A(x)))
        attempt("Multiply.H bad input %s" % (shp,), lambda: arr(A.H(x)))

    # factories that are built on Multiply / MatMul
    mps = data(rng, [3, 4, 5], np.complex128)
    probe("Sense", lambda: sp.mri.linop.Sense(mps), rng,
          [np.complex64, np.complex128])
    probe(
        "Sense weights",
        lambda: sp.mri.linop.Sense(
            mps, weights=np.abs(data(rng, [1, 4, 5], np.float64)) + 1.0
        ),
        rng,
        [np.complex128],
    )
    G = linop.FiniteDifference([3, 4])
    probe("scalar combos", lambda: (2 - 3j) * G - G * 0.5 + (-G), rng, dts)

    print("records:", NREC[0])
    print("DIGEST", H.hexdigest())


if __name__ == "__main__":
    main()
