"""Equivalence demo for the behaviour-preserving rewrites n1 / n2 of
sigpy.alg.ConjugateGradient.  Prints a SHA256 digest of everything observable:
per-update state (x, r, p, resid, rzold, alpha, iter, flags, done()), dtypes,
shapes, object identities that matter (x is the caller's array, p aliases r for
max_iter == 1), exception types for invalid inputs, and the caller's input
arrays after the call.  Values are rounded to 10 significant digits.
"""
import hashlib
import sys
import warnings

import numpy as np

from sigpy import alg, app, linop

warnings.simplefilter("ignore")

LOG = []


def fmt_val(v):
    v = complex(v)
    out = []
    for c in (v.real, v.imag):
        c = float(c) + 0.0  # -0.0 -> 0.0
        if c == 0:
            c = 0.0
        out.append("%.9e" % c)
    return "/".join(out)


def desc(a):
    if isinstance(a, np.ndarray):
        flat = np.asarray(a).ravel()
        return "nd[%s|%s|%s]" % (a.dtype, a.shape,
                                 ",".join(fmt_val(v) for v in flat))
    if isinstance(a, np.generic):
        return "sc[%s|%s]" % (type(a).__name__, fmt_val(a))
    if isinstance(a, (bool, int)):
        return "py[%s|%r]" % (type(a).__name__, a)
    if isinstance(a, (float, complex)):
        return "py[%s|%s]" % (type(a).__name__, fmt_val(a))
    return "obj[%s]" % type(a).__name__


def log(*items):
    LOG.append(" ".join(str(i) for i in items))


def rand_mat(rng, n, kind, cplx, dtype):
    M = rng.standard_normal((n, n))
    if cplx:
        M = M + 1j * rng.standard_normal((n, n))
    Q, _ = np.linalg.qr(M)
    if kind == "pd":
        ev = np.linspace(1.0, 20.0, n) if n > 1 else np.array([2.0])
    elif kind == "indef":
        ev = np.linspace(-3.0, 5.0, n) if n > 1 else np.array([-2.0])
    elif kind == "negdef":
        ev = -np.linspace(1.0, 4.0, n)
    elif kind == "semi":
        ev = np.linspace(0.0, 4.0, n)
    A = (Q * ev) @ Q.conj().T
    A = (A + A.conj().T) / 2
    return A.astype(dtype)


def snapshot(tag, cg, x_caller):
    items = [tag, "iter", desc(cg.iter), "maxit", desc(cg.max_iter)]
    for name in ["x", "r", "p", "resid", "rzold", "alpha",
                 "not_positive_definite", "tol"]:
        items += [name, desc(getattr(cg, name)) if hasattr(cg, name)
                  else "absent"]
    items += ["x_is_caller", cg.x is x_caller, "p_is_r", cg.p is cg.r]
    d = cg.done()
    items += ["done", desc(d)]
    log(*items)


def run(tag, make, n_extra=0):
    """make() -> (A, b, x, kwargs, watched arrays)."""
    try:
        A, b, x, kw, watched = make()
        cg = alg.ConjugateGradient(A, b, x, **kw)
        snapshot(tag + ":init", cg, x)
        k = 0
        while not cg.done() and k < 60:
            cg.update()
            k += 1
            snapshot(tag + ":u%d" % k, cg, x)
        for j in range(n_extra):  # keep calling update() after done()
            cg.update()
            snapshot(tag + ":extra%d" % j, cg, x)
        for i, w in enumerate(watched):
            log(tag, "watched", i, desc(w))
    except Exception as e:  # noqa
        log(tag, "EXC", type(e).__name__)
        try:
            for i, w in enumerate(watched):
                log(tag, "watched-after-exc", i, desc(w))
        except Exception:
            pass


def main():
    rng = np.random.default_rng(20251212)

    # ---- main sweep ------------------------------------------------------
    for dtype in [np.float64, np.float32, np.complex128, np.complex64]:
        cplx = np.issubdtype(dtype, np.complexfloating)
        for n in [1, 2, 5, 12]:
            for kind in ["pd", "indef"]:
                for pmode in ["none", "func", "linop", "ident"]:
                    for amode in ["func", "linop"]:
                        for max_iter, tol in [(1, 0), (2, 0), (n, 0),
                                              (n + 4, 0), (30, 1e-3),
                                              (5, 1e3)]:
                            for x0mode in ["zero", "rand"]:
                                Am = rand_mat(rng, n, kind, cplx, dtype)
                                Pm = np.linalg.inv(
                                    rand_mat(rng, n, "pd", cplx, dtype)
                                ).astype(dtype)
                                b = rng.standard_normal(n)
                                xr = rng.standard_normal(n)
                                if cplx:
                                    b = b + 1j * rng.standard_normal(n)
                                    xr = xr + 1j * rng.standard_normal(n)
                                b = b.astype(dtype)
                                x0 = (xr if x0mode == "rand"
                                      else np.zeros(n)).astype(dtype)
                                shape = [n, 1] if amode == "linop" else [n]

                                def make(Am=Am, Pm=Pm, b=b, x0=x0,
                                         shape=shape, amode=amode,
                                         pmode=pmode, max_iter=max_iter,
                                         tol=tol):
                                    bb = b.reshape(shape).copy()
                                    x = x0.reshape(shape).copy()
                                    if amode == "linop":
                                        A = linop.MatMul(shape, Am)
                                    else:
                                        A = lambda v: Am @ v
                                    if pmode == "none":
                                        P = None
                                    elif pmode == "func":
                                        P = lambda v: Pm @ v
                                    elif pmode == "linop":
                                        P = linop.MatMul([len(Pm), 1], Pm)
                                        if len(shape) == 1:
                                            n_ = len(Pm)
                                            P = (linop.Reshape([n_], [n_, 1])
                                                 * P
                                                 * linop.Reshape([n_, 1],
                                                                 [n_]))
                                    else:
                                        P = lambda v: v  # returns its input
                                    return (A, bb, x,
                                            dict(P=P, max_iter=max_iter,
                                                 tol=tol),
                                            [bb, x, Am, Pm])

                                tag = "sweep|%s|n%d|%s|P=%s|A=%s|mi%d|tol%g|%s" % (
                                    np.dtype(dtype).name, n, kind, pmode,
                                    amode, max_iter, tol, x0mode)
                                run(tag, make, n_extra=1)

    # ---- other shapes, strides, dtype mixes -------------------------------
    A6 = rand_mat(rng, 6, "pd", False, np.float64)
    A6c = rand_mat(rng, 6, "pd", True, np.complex128)

    def mk_multidim():
        b = rng.standard_normal((2, 3))
        x = np.zeros((2, 3))
        return (lambda v: (A6 @ v.ravel()).reshape(2, 3), b, x,
                dict(max_iter=8), [b, x])
    run("multidim", mk_multidim)

    def mk_strided():
        big = np.zeros((6, 4))
        bigb = rng.standard_normal((6, 3))
        x = big[:, 1]            # non-contiguous view: must be filled
        b = bigb[:, 2]
        return (lambda v: A6 @ v, b, x, dict(max_iter=7), [big, bigb, x])
    run("strided", mk_strided)

    def mk_neg_stride():
        buf = np.zeros(12, dtype=complex)
        x = buf[::-2]
        b = (rng.standard_normal(6) + 1j * rng.standard_normal(6))
        return (lambda v: A6c @ v, b, x, dict(max_iter=7, tol=1e-9),
                [buf, b])
    run("negstride", mk_neg_stride)

    def mk_zero_d():
        b = np.array(3.0)
        x = np.array(0.5)
        return (lambda v: 2.0 * v, b, x, dict(max_iter=3), [b, x])
    run("zero_d", mk_zero_d, n_extra=1)

    def mk_zero_d_P():
        b = np.array(3.0 + 1j)
        x = np.array(0.5 + 0j)
        return (lambda v: 2.0 * v, b, x,
                dict(max_iter=3, P=lambda r: 0.5 * r), [b, x])
    run("zero_d_P", mk_zero_d_P, n_extra=1)

    def mk_empty():
        b = np.zeros(0)
        x = np.zeros(0)
        return (lambda v: v, b, x, dict(max_iter=3), [b, x])
    run("empty", mk_empty, n_extra=1)

    for bd, xd, Ad in [(np.float32, np.float64, np.float64),
                       (np.float64, np.float32, np.float64),
                       (np.float64, np.float64, np.float32),
                       (np.float64, np.complex128, np.complex128),
                       (np.complex64, np.complex128, np.float64),
                       (np.int64, np.float64, np.float64),
                       (np.float64, np.int64, np.float64),
                       (np.complex128, np.float64, np.complex128),
                       (np.float16, np.float16, np.float16),
                       (np.longdouble, np.longdouble, np.longdouble)]:
        for x0mode in ["zero", "rand"]:
            def mk(bd=bd, xd=xd, Ad=Ad, x0mode=x0mode):
                Am = (A6c if np.issubdtype(Ad, np.complexfloating)
                      else A6).astype(Ad)
                b = (3 * rng.standard_normal(6)).astype(bd)
                x = ((2 * rng.standard_normal(6)) if x0mode == "rand"
                     else np.zeros(6)).astype(xd)
                return (lambda v: Am @ v, b, x, dict(max_iter=7), [b, x, Am])
            run("mix|%s|%s|%s|%s" % (np.dtype(bd).name, np.dtype(xd).name,
                                      np.dtype(Ad).name, x0mode), mk)

    # ---- special situations -----------------------------------------------
    def mk_exact():
        xs = rng.standard_normal(6)
        b = A6 @ xs
        x = xs.copy()
        return (lambda v: A6 @ v, b, x, dict(max_iter=5), [b, x])
    run("exact_guess", mk_exact, n_extra=2)

    def mk_zero_rhs():
        b = np.zeros(6)
        x = np.zeros(6)
        return (lambda v: A6 @ v, b, x, dict(max_iter=5), [b, x])
    run("zero_rhs", mk_zero_rhs, n_extra=2)

    def mk_identity():
        b = rng.standard_normal(6)
        x = np.zeros(6)
        return (linop.Identity([6]), b, x, dict(max_iter=4), [b, x])
    run("identity_linop", mk_identity, n_extra=1)

    for kind in ["negdef", "semi"]:
        def mk(kind=kind):
            Am = rand_mat(rng, 5, kind, False, np.float64)
            b = rng.standard_normal(5)
            x = np.zeros(5)
            return (lambda v: Am @ v, b, x, dict(max_iter=8), [b, x, Am])
        run("kind|" + kind, mk, n_extra=1)

    def mk_indef_P():
        b = rng.standard_normal(6)
        x = np.zeros(6)
        return (lambda v: A6 @ v, b, x,
                dict(max_iter=6, P=lambda r: -r), [b, x])
    run("negative_P", mk_indef_P)

    def mk_nan():
        b = rng.standard_normal(6)
        b[2] = np.nan
        x = np.zeros(6)
        return (lambda v: A6 @ v, b, x, dict(max_iter=3), [b, x])
    run("nan_rhs", mk_nan)

    def mk_inf_tol():
        b = rng.standard_normal(6)
        x = np.zeros(6)
        return (lambda v: A6 @ v, b, x,
                dict(max_iter=4, tol=np.float32(1e-2)), [b, x])
    run("np_tol", mk_inf_tol)

    for mi in [0, -1, 2.5, np.int64(3), True, float("inf")]:
        def mk(mi=mi):
            b = rng.standard_normal(6)
            x = np.zeros(6)
            return (lambda v: A6 @ v, b, x, dict(max_iter=mi, tol=1e-6),
                    [b, x])
        run("max_iter|%r" % (mi,), mk, n_extra=1)

    # A / P that reuse an internal output buffer
    def mk_buffered():
        bufA = np.zeros(6)
        bufP = np.zeros(6)
        d = 1.0 / np.diag(A6)

        def A(v):
            np.matmul(A6, v, out=bufA)
            return bufA

        def P(v):
            np.multiply(d, v, out=bufP)
            return bufP
        b = rng.standard_normal(6)
        x = rng.standard_normal(6)
        return (A, b, x, dict(max_iter=7, P=P), [b, x, bufA, bufP])
    run("buffered", mk_buffered)

    # warm restarts on the same array, two interleaved solvers
    b1 = rng.standard_normal(6)
    b2 = rng.standard_normal(6) + 1j * rng.standard_normal(6)
    x1 = np.zeros(6)
    b2 = b2.reshape(6, 1)
    x2 = np.zeros((6, 1), dtype=complex)
    for rep in range(3):
        c1 = alg.ConjugateGradient(lambda v: A6 @ v, b1, x1, max_iter=2)
        c2 = alg.ConjugateGradient(linop.MatMul([6, 1], A6c), b2, x2,
                                   P=lambda r: r / np.diag(A6c).real
                                   .reshape(6, 1),
                                   max_iter=3)
        while not (c1.done() and c2.done()):
            if not c1.done():
                c1.update()
            if not c2.done():
                c2.update()
            snapshot("interleave%d:c1" % rep, c1, x1)
            snapshot("interleave%d:c2" % rep, c2, x2)
    log("interleave watched", desc(b1), desc(b2), desc(x1), desc(x2))

    # through the App layer (LinearLeastSquares -> ConjugateGradient, ADMM)
    for lamda in [0, 0.3]:
        for solver in ["ConjugateGradient", "ADMM"]:
            for use_P in [False, True]:
                Am = np.eye(5) + 0.1 * rng.standard_normal((5, 5))
                Aop = linop.MatMul([5, 1], Am)
                y = rng.standard_normal((5, 1))
                z = rng.standard_normal((5, 1))
                P = (linop.Multiply([5, 1],
                                    1 / np.sum(abs(Am) ** 2, axis=0)
                                    .reshape(5, 1)) if use_P else None)
                try:
                    kw = dict(rho=1.0) if solver == "ADMM" else {}
                    xr = app.LinearLeastSquares(
                        Aop, y, lamda=lamda, z=z, P=P, solver=solver,
                        max_iter=7, show_pbar=False, **kw).run()
                    log("lls", lamda, solver, use_P, desc(xr), desc(y),
                        desc(z))
                except Exception as e:  # noqa
                    log("lls", lamda, solver, use_P, "EXC", type(e).__name__)

    # ---- invalid inputs -----------------------------------------------------
    def bad(tag, f):
        try:
            cg = f()
            st = []
            for name in ["x", "r", "p", "resid", "rzold", "iter"]:
                v = getattr(cg, name, None)
                st.append(name + "=" + (desc(np.asarray(v, dtype=complex))
                                        + type(v).__name__))
            log("bad", tag, "no-exception", *st)
        except Exception as e:  # noqa
            log("bad", tag, "EXC", type(e).__name__)

    def run_all(cg):
        while not cg.done():
            cg.update()
        return cg

    bad("shape-mismatch-linop", lambda: alg.ConjugateGradient(
        linop.MatMul([6, 1], A6), np.zeros([6, 1]), np.zeros([5, 1])))
    bad("shape-mismatch-b", lambda: run_all(alg.ConjugateGradient(
        lambda v: A6 @ v, np.ones(5), np.zeros(6), max_iter=3)))
    bad("max_iter-None", lambda: alg.ConjugateGradient(
        lambda v: A6 @ v, np.ones(6), np.zeros(6), max_iter=None))
    bad("max_iter-str", lambda: alg.ConjugateGradient(
        lambda v: A6 @ v, np.ones(6), np.zeros(6), max_iter="3"))
    bad("tol-None", lambda: run_all(alg.ConjugateGradient(
        lambda v: A6 @ v, np.ones(6), np.zeros(6), max_iter=3, tol=None)))
    bad("x-int", lambda: run_all(alg.ConjugateGradient(
        lambda v: A6 @ v, np.ones(6), np.zeros(6, dtype=int), max_iter=3)))
    bad("x-real-A-complex", lambda: run_all(alg.ConjugateGradient(
        lambda v: A6c @ v, np.ones(6, dtype=complex), np.zeros(6),
        max_iter=3)))
    bad("x-list", lambda: run_all(alg.ConjugateGradient(
        lambda v: A6 @ np.asarray(v), np.ones(6), [0.0] * 6, max_iter=3)))
    bad("x-pyfloat", lambda: run_all(alg.ConjugateGradient(
        lambda v: 2 * v, 3.0, 0.0, max_iter=3)))
    bad("x-npscalar", lambda: run_all(alg.ConjugateGradient(
        lambda v: 2 * v, np.float64(3.0), np.float64(0.0), max_iter=3)))
    bad("A-None", lambda: alg.ConjugateGradient(
        None, np.ones(6), np.zeros(6)))
    bad("P-not-callable", lambda: alg.ConjugateGradient(
        lambda v: A6 @ v, np.ones(6), np.zeros(6), P=3.0))
    bad("P-wrong-shape", lambda: run_all(alg.ConjugateGradient(
        lambda v: A6 @ v, np.ones(6), np.zeros(6), P=lambda r: r[:3],
        max_iter=3)))
    bad("A-raises-later", lambda: run_all(alg.ConjugateGradient(
        lambda v, c=[0]: (c.__setitem__(0, c[0] + 1),
                          A6 @ v if c[0] < 3 else 1 / 0)[1],
        np.ones(6), np.zeros(6), max_iter=6)))
    bad("b-None", lambda: alg.ConjugateGradient(
        lambda v: A6 @ v, None, np.zeros(6)))

    # state left behind when an update fails half-way
    xs_ = np.zeros(6)
    bs_ = rng.standard_normal(6)
    cnt = [0]

    def A_fail(v):
        cnt[0] += 1
        if cnt[0] == 3:
            raise RuntimeError("boom")
        return A6 @ v
    cgf = alg.ConjugateGradient(A_fail, bs_, xs_, max_iter=6)
    try:
        while not cgf.done():
            cgf.update()
    except RuntimeError:
        snapshot("after-failed-update", cgf, xs_)

    # x of a complex P with real data: casting error inside p update
    xp_ = np.zeros(6)
    cgp = alg.ConjugateGradient(lambda v: A6 @ v, rng.standard_normal(6), xp_,
                                P=lambda r: (1 + 0.5j) * r, max_iter=4)
    try:
        while not cgp.done():
            cgp.update()
        snapshot("complexP-finished", cgp, xp_)
    except Exception as e:  # noqa
        log("complexP", "EXC", type(e).__name__)
        snapshot("complexP-after-exc", cgp, xp_)

    h = hashlib.sha256("\n".join(LOG).encode()).hexdigest()
    print("records:", len(LOG))
    print("DIGEST", h)
    return 0


if __name__ == "__main__":
    sys.exit(main())
