"""Equivalence digest for the behaviour-preserving rewrites n1 / n2 of C06.

Exercises nufft / nufft_adjoint / interpolate / gridding / resize / fft on a
spread of inputs and prints one SHA256 over all results (values rounded to 10
significant digits, dtypes, shapes, exception types, and the caller's input
arrays after each call).  The digest must be identical on the pristine and on
the rewritten tree.
"""
import hashlib
import sys
import warnings

import numpy as np

import sigpy as sp
from sigpy import fourier, interp, linop, util

warnings.simplefilter("ignore")
H = hashlib.sha256()
NREC = [0]
NEXC = {}


def _fmt(a):
    a = np.asarray(a)
    head = "%s|%s|" % (a.dtype.str, a.shape)
    if a.dtype.kind == "c":
        flat = np.stack([a.real.ravel(), a.imag.ravel()], -1).ravel()
    else:
        flat = a.ravel()
    if a.dtype.kind in "iub":
        body = ",".join(str(int(v)) for v in flat)
    else:
        body = ",".join("%.9e" % float(v) for v in flat.astype(np.float64))
    return head + body


def rec(tag, val):
    NREC[0] += 1
    if isinstance(val, str):
        s = val
    elif isinstance(val, (list, tuple)):
        s = "[" + ";".join(
            _fmt(v) if isinstance(v, np.ndarray) else repr(v) for v in val
        ) + "]"
    elif isinstance(val, np.ndarray) or np.isscalar(val):
        s = _fmt(val)
    else:
        s = repr(val)
    H.update(("%s=%s\n" % (tag, s)).encode())


def call(tag, fn, *args, **kw):
    """Run fn, record result or exception type, then record array args."""
    try:
        out = fn(*args, **kw)
        rec(tag, out)
    except Exception as e:  # noqa
        out = None
        rec(tag, "EXC:" + type(e).__name__)
        NEXC[type(e).__name__] = NEXC.get(type(e).__name__, 0) + 1
    for k, a in enumerate(args):
        if isinstance(a, np.ndarray):
            rec(tag + ".arg%d" % k, a)
    return out


def cplx(rng, shape, dtype):
    x = rng.standard_normal(shape) + 1j * rng.standard_normal(shape)
    return x.astype(dtype)


def main():
    rng = np.random.default_rng(20240606)

    # ---- nufft / nufft_adjoint ------------------------------------------
    shapes = [
        ((7,), 1), ((8,), 1), ((1,), 1), ((2,), 1), ((3, 6), 1), ((2, 1, 5), 1),
        ((6, 5), 2), ((5, 1), 2), ((1, 4), 2), ((3, 8, 7), 2), ((2, 2, 4, 4), 2),
        ((4, 5, 6), 3), ((3, 3, 3), 3), ((2, 5, 4, 3), 3),
    ]
    params = [(1.25, 4), (2, 4), (1.5, 3), (1.3, 5), (2, 6), (1.25, 3.5),
              (1.7, 4.5), (1.25, 2), (1.1, 1)]
    for si, (shp, ndim) in enumerate(shapes):
        tshape = np.array(shp[-ndim:], dtype=float)
        kinds = {
            "rand": (rng.random((11, ndim)) - 0.5) * tshape,
            "grid": np.round((rng.random((9, ndim)) - 0.5) * tshape),
            "half": np.round((rng.random((9, ndim)) - 0.5) * tshape) + 0.5,
            "far": (rng.random((7, ndim)) - 0.5) * tshape * 7.3,
            "clus": np.repeat((rng.random((2, ndim)) - 0.5) * tshape, 4, 0)
            + 1e-3 * rng.standard_normal((8, ndim)),
            "edge": np.stack([-tshape / 2, tshape / 2, tshape // 2, 0 * tshape]),
            "md": ((rng.random((3, 4, ndim)) - 0.5) * tshape),
        }
        for ck, coord in kinds.items():
            for pi, (osf, w) in enumerate(params):
                if (si + pi + len(ck)) % 3:  # thin the grid a bit
                    continue
                for dt in (np.complex128, np.complex64, np.float64, np.float32):
                    if dt in (np.float64, np.float32) and (si + pi) % 2:
                        continue
                    x = (
                        cplx(rng, shp, dt)
                        if np.dtype(dt).kind == "c"
                        else rng.standard_normal(shp).astype(dt)
                    )
                    cdt = np.float32 if (si + pi) % 4 == 0 else np.float64
                    c = coord.astype(cdt)
                    tag = "nufft/%s/%s/%s/%s/%s" % (shp, ck, osf, w, np.dtype(dt))
                    y = call(tag, fourier.nufft, x, c, oversamp=osf, width=w)
                    if y is None:
                        continue
                    call(tag + "/rep", fourier.nufft, x, c, oversamp=osf, width=w)
                    yy = np.ascontiguousarray(y)
                    call(tag + "/adj", fourier.nufft_adjoint, yy, c, list(shp),
                         oversamp=osf, width=w)
                    call(tag + "/adjtuple", fourier.nufft_adjoint, yy, c,
                         tuple(shp), osf, w)
                    if ck == "far":
                        call(tag + "/adjnone", fourier.nufft_adjoint, yy, c,
                             None, osf, w)

    # non-contiguous inputs, np-int shapes, int oversamp
    x = cplx(rng, (6, 9), np.complex128)
    c = (rng.random((10, 2)) - 0.5) * np.array([9.0, 6.0])
    call("nufft/T", fourier.nufft, x.T, c)
    call("nufft/strided", fourier.nufft, x[::2, ::-1], c[::2])
    call("nufft/Fcoord", fourier.nufft, x, np.asfortranarray(c), 2, 5)
    y = fourier.nufft(x, c)
    call("adj/npshape", fourier.nufft_adjoint, y, c, np.array([6, 9]))
    call("adj/npint", fourier.nufft_adjoint, y, c,
         [np.int64(6), np.int32(9)], np.float32(1.5), np.int64(4))
    call("estimate_shape", fourier.estimate_shape, c)
    call("estimate_shape3", fourier.estimate_shape,
         rng.standard_normal((4, 5, 3)) * 9)
    for shp, nd, osf in [((5, 4), 2, 1.25), ((7,), 1, 2), ((3, 4, 5), 3, 1.5),
                         ((2, 5, 4), 2, 1.3)]:
        cc = (rng.random((13, nd)) - 0.5) * np.array(shp[-nd:])
        call("toeplitz/%s" % (shp,), fourier.toeplitz_psf, cc, shp, osf, 4)
        call("oshape/%s" % (shp,), fourier._get_oversamp_shape, shp, nd, osf)
        call("oshape-l/%s" % (shp,), fourier._get_oversamp_shape, list(shp), nd, osf)
        call("oshape-a/%s" % (shp,), fourier._get_oversamp_shape,
             np.array(shp), nd, osf)
        call("scale/%s" % (shp,), fourier._scale_coord, cc, shp, osf)
        call("scale32/%s" % (shp,), fourier._scale_coord,
             cc.astype(np.float32), shp, osf)
        A = linop.NUFFT(shp, cc, oversamp=osf, width=3, toeplitz=True)
        xx = cplx(rng, shp, np.complex128)
        call("linop/%s" % (shp,), A, xx)
        call("linopH/%s" % (shp,), A.H, A(xx))
        call("linopN/%s" % (shp,), A.N, xx)

    # invalid inputs
    x = cplx(rng, (6, 5), np.complex128)
    c = (rng.random((10, 2)) - 0.5) * 5
    call("bad/intcoord", fourier.nufft, x, np.round(c).astype(np.int64))
    call("bad/ndim", fourier.nufft, x[0, :1][0], c)
    call("bad/coord3", fourier.nufft, x, rng.random((4, 3)))
    call("bad/coord4", fourier.nufft, x, rng.random((4, 4)))
    call("bad/intinput", fourier.nufft, np.ones((6, 5), dtype=np.int64), c)
    call("bad/adjshape", fourier.nufft_adjoint, x, c, (6, 5))
    call("bad/width0", fourier.nufft, x, c, 1.25, 0)
    call("bad/os0", fourier.nufft, x, c, 0, 4)
    call("bad/smallwidth", fourier.nufft, x, c, 1.25, 1)
    call("bad/nancoord", fourier.nufft, x, c * np.nan)
    call("bad/list", fourier.nufft, x.tolist(), c)
    call("bad/adjbatch", fourier.nufft_adjoint, cplx(rng, (2, 10), np.complex128),
         c, (3, 6, 5))

    # ---- interpolate / gridding -----------------------------------------
    for ndim, shp in [(1, (9,)), (1, (3, 8)), (2, (6, 7)), (2, (2, 5, 4)),
                      (3, (4, 5, 6)), (3, (2, 3, 4, 3)), (2, (1, 2)), (1, (1,))]:
        tshape = np.array(shp[-ndim:], dtype=float)
        for ck, coord in {
            "rand": rng.random((12, ndim)) * tshape,
            "grid": np.round(rng.random((8, ndim)) * tshape),
            "half": np.round(rng.random((8, ndim)) * tshape) + 0.5,
            "far": (rng.random((8, ndim)) - 0.5) * tshape * 9,
            "md": rng.random((2, 3, ndim)) * tshape,
        }.items():
            for kern, w, p in [
                ("spline", 2, 1), ("spline", 3, 2), ("spline", 1, 0),
                ("spline", 2.5, 1), ("kaiser_bessel", 4, 6.9956),
                ("kaiser_bessel", 3, 4.2), ("kaiser_bessel", 5.5, 9.1),
                ("kaiser_bessel", 1, 2.34), ("kaiser_bessel", 6, 13.9),
                ("kaiser_bessel", tuple([3, 4, 5][:ndim]),
                 tuple([4.1, 6.2, 8.3][:ndim])),
                ("spline", [2, 3, 4][:ndim], [1, 2, 0][:ndim]),
            ]:
                for dt in (np.complex128, np.complex64, np.float64, np.float32):
                    x = (
                        cplx(rng, shp, dt)
                        if np.dtype(dt).kind == "c"
                        else rng.standard_normal(shp).astype(dt)
                    )
                    for cdt in (np.float64, np.float32):
                        if cdt == np.float32 and dt in (np.float64, np.complex64):
                            continue
                        c = coord.astype(cdt)
                        tag = "interp/%s/%s/%s/%s/%s/%s/%s" % (
                            shp, ck, kern, w, p, np.dtype(dt), np.dtype(cdt))
                        y = call(tag, interp.interpolate, x, c, kern, w, p)
                        if y is None:
                            continue
                        call(tag + "/rep", interp.interpolate, x, c, kernel=kern,
                             width=w, param=p)
                        call(tag + "/grid", interp.gridding,
                             np.ascontiguousarray(y), c, list(shp), kern, w, p)
    x = cplx(rng, (6, 7), np.complex128)
    c = rng.random((10, 2)) * 6
    call("interp/bad/kernel", interp.interpolate, x, c, "cubic")
    call("interp/bad/wlen", interp.interpolate, x, c, "spline", (2, 2, 2), 1)
    call("interp/bad/cparam", interp.interpolate, x, c, "kaiser_bessel", 4, 1 + 2j)
    call("interp/bad/intcoord", interp.interpolate, x, c.astype(np.int64))
    call("interp/bad/0d", interp.interpolate, x, c, "spline", np.array(2.0), 1)
    call("interp/bad/gridshape", interp.gridding, x, c, (6, 7))
    call("interp/strided", interp.interpolate, x[::2, ::-1], c[::2] / 2)

    # ---- resize / fft ------------------------------------------------------
    for ish, osh in [((5,), (8,)), ((8,), (5,)), ((4,), (7,)), ((7,), (4,)),
                     ((3, 4), (5, 5)), ((5, 5), (3, 4)), ((2, 6), (6, 2)),
                     ((4, 4), (4, 4)), ((3,), (2, 5)), ((2, 5), (4,)),
                     ((1, 1), (2, 3)), ((0,), (3,)), ((3,), (0,)),
                     ((2, 3, 4), (3, 2, 5)), ((6,), (1, 1, 9))]:
        for dt in (np.complex128, np.float32, np.int64):
            a = (rng.standard_normal(ish) * 10).astype(dt)
            call("resize/%s/%s/%s" % (ish, osh, np.dtype(dt)), util.resize, a, osh)
            call("resize-l/%s/%s/%s" % (ish, osh, np.dtype(dt)), util.resize, a,
                 list(osh))
    a = rng.standard_normal((5, 6))
    call("resize/ishift", util.resize, a, (3, 4), [1, 2])
    call("resize/oshift", util.resize, a, (8, 9), None, [2, 1])
    call("resize/both", util.resize, a, (4, 8), [1, 0], [0, 2])
    call("resize/badshift", util.resize, a, (4, 8), [4, 0], [0, 7])
    call("resize/neg", util.resize, a, (4, 8), [-1, 0], [0, -2])
    call("resize/shortshift", util.resize, a, (4, 8), [1])
    call("resize/badsize", util.resize, a, (4, 8, 2, 2, -1))
    for shp in [(5,), (6,), (4, 5), (3, 4, 6), (1, 7)]:
        for dt in (np.complex128, np.complex64, np.float64, np.float32, np.int32):
            a = (cplx(rng, shp, dt) if np.dtype(dt).kind == "c"
                 else (rng.standard_normal(shp) * 5).astype(dt))
            for kw in [dict(), dict(center=False), dict(norm=None),
                       dict(axes=[-1]), dict(axes=(0,), norm=None),
                       dict(axes=range(-len(shp), 0)),
                       dict(oshape=[s + 3 for s in shp]),
                       dict(oshape=[max(s - 2, 1) for s in shp], center=False),
                       dict(axes=[5])]:
                call("fft/%s/%s/%s" % (shp, np.dtype(dt), sorted(kw.items())),
                     fourier.fft, a, **kw)
                call("ifft/%s/%s/%s" % (shp, np.dtype(dt), sorted(kw.items())),
                     fourier.ifft, a, **kw)

    print("records:", NREC[0], "exceptions:", sorted(NEXC.items()))
    print("DIGEST", H.hexdigest())
    return 0


if __name__ == "__main__":
    sys.exit(main())
