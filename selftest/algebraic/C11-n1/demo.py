"""C11 / round 5 / n1 - equivalence demo (Prox._check_shape vectorised,
Stack._prox comprehension -> indexed loop).

Prints a SHA256 digest of: every result (values rounded to 10 significant
digits, dtype, shape), exception type / cause type / cause message for invalid
inputs, and a digest of the caller's arrays after each call.
"""
import hashlib
import warnings

import numpy as np

warnings.simplefilter("ignore")

from sigpy import linop, prox  # noqa: E402

H = hashlib.sha256()
NREC = [0]


def put(s):
    H.update((s + "\n").encode())
    NREC[0] += 1


def fmt(a):
    a = np.asarray(a)
    if a.dtype == object:
        return repr(a.tolist())
    flat = a.ravel()
    if np.iscomplexobj(flat):
        vals = np.stack([flat.real, flat.imag], -1).ravel()
    else:
        vals = flat
    vals = np.asarray(vals, dtype=np.float64) + 0.0  # -0.0 -> 0.0
    body = ",".join("%.9e" % v for v in vals)
    return "%s|%s|%s" % (a.dtype, a.shape, body)


def call(tag, P, alpha, x):
    x_before = fmt(x) if isinstance(x, np.ndarray) else repr(x)
    a_before = fmt(alpha) if isinstance(alpha, np.ndarray) else repr(alpha)
    for rep in range(2):  # repeated calls
        try:
            y = P(alpha, x)
            put("%s#%d OK %s %s" % (tag, rep, repr(P), fmt(y)))
        except Exception as e:  # noqa
            c = e.__cause__
            put("%s#%d EXC %s|%s|%s|%s" % (tag, rep, type(e).__name__, str(e),
                                          type(c).__name__, str(c)))
    x_after = fmt(x) if isinstance(x, np.ndarray) else repr(x)
    a_after = fmt(alpha) if isinstance(alpha, np.ndarray) else repr(alpha)
    put("%s inputs-unchanged %s %s" % (tag, x_before == x_after, a_before == a_after))
    put("%s input-digest %s" % (tag, x_after))


rng = np.random.RandomState(5)


def data(shape, dtype):
    x = np.asarray(rng.randn(*shape))
    if np.issubdtype(dtype, np.complexfloating):
        x = x + 1j * np.asarray(rng.randn(*shape))
    elif np.issubdtype(dtype, np.integer):
        x = np.round(3 * x)
    return x.astype(dtype)


def make_all(shape):
    n = int(np.prod([abs(s) for s in shape]))
    out = [
        ("NoOp", prox.NoOp(shape)),
        ("L1Reg", prox.L1Reg(shape, 0.3)),
        ("L2Reg", prox.L2Reg(shape, 0.7)),
        ("L2RegY", prox.L2Reg(shape, 0.7, y=0.25)),
        ("L2RegH", prox.L2Reg(shape, 0.7, proxh=prox.L1Reg(shape, 0.2))),
        ("L2Proj", prox.L2Proj(shape, 0.9)),
        ("L2ProjY", prox.L2Proj(shape, 0.9, y=0.1)),
        ("LInfProj", prox.LInfProj(shape, 0.4)),
        ("LInfProjB", prox.LInfProj(shape, 0.4, bias=0.2)),
        ("L1Proj", prox.L1Proj(shape, 1.1)),
        ("Box", prox.BoxConstraint(shape, -0.5, 0.75)),
        ("Conj(L1Reg)", prox.Conj(prox.L1Reg(shape, 0.3))),
        ("Conj(L2Proj)", prox.Conj(prox.L2Proj(shape, 0.9))),
        ("Conj(Conj(L1Proj))", prox.Conj(prox.Conj(prox.L1Proj(shape, 1.1)))),
    ]
    return out


dtypes = [np.float64, np.float32, np.complex128, np.complex64]
shapes = [[5], [1], [3, 4], [2, 1, 3], [4, 1], [0], [2, 0]]

# 1. every prox on matching shapes, several dtypes, scalar alphas
for shape in shapes:
    for dt in dtypes:
        x = data(shape, dt)
        for name, P in make_all(shape):
            if np.issubdtype(dt, np.complexfloating) and name == "Box":
                continue
            for alpha in (1.0, 0.37, np.float32(2.5), 3):
                call("A/%s/%s/%s/%r" % (name, shape, np.dtype(dt).name, alpha), P, alpha, x)

# integer data where the class supports it
for shape in ([5], [3, 4]):
    x = data(shape, np.int64)
    for name, P in make_all(shape):
        call("Aint/%s/%s" % (name, shape), P, 1.0, x)

# PSD projection
for m in (1, 2, 3, 5):
    for dt in (np.float64, np.complex128, np.int64):
        x = data([m, m], dt)
        call("PSD/%d/%s" % (m, np.dtype(dt).name), prox.PsdProj([m, m]), 1.0, x)
        call("PSD-None/%d/%s" % (m, np.dtype(dt).name), prox.PsdProj([m, m]), None, x)

# 2. shape checking: wildcards, mismatches, rank mismatches, non-arrays
checks = [
    ([5], [5]), ([5], [6]), ([5], [4]), ([-1], [7]), ([-1], [0]),
    ([3, 4], [3, 4]), ([3, 4], [4, 3]), ([3, 4], [3, 5]), ([3, 4], [2, 4]),
    ([-1, 4], [9, 4]), ([-1, 4], [9, 5]), ([3, -1], [3, 8]), ([3, -1], [2, 8]),
    ([-1, -1], [2, 6]), ([-1, -1, 3], [2, 6, 3]), ([-1, -1, 3], [2, 6, 4]),
    # rank mismatches: only the leading common dims are compared
    ([3, 4], [3]), ([3, 4], [4]), ([3], [3, 2]), ([3], [2, 3]), ([3, 4], [3, 4, 2]),
    ([3, 4], [3, 5, 2]), ([3, 4, 2], [3, 4]), ([], [3]), ([3], []), ([], []),
    ([1], [1, 1]), ([1, 1], [1]), ([2, 3], [6]), ([6], [2, 3]),
]
for pshape, xshape in checks:
    for cls_name, mk in (
        ("NoOp", lambda s: prox.NoOp(s)),
        ("L1Reg", lambda s: prox.L1Reg(s, 0.3)),
        ("L2Reg", lambda s: prox.L2Reg(s, 0.5)),
        ("LInfProj", lambda s: prox.LInfProj(s, 0.4)),
        ("Conj(L1Reg)", lambda s: prox.Conj(prox.L1Reg(s, 0.3))),
    ):
        x = data(xshape, np.float64)
        call("B/%s/%s<-%s" % (cls_name, pshape, xshape), mk(pshape), 0.8, x)

# tuple / numpy-int shapes given to the constructor
call("B/tuple", prox.L1Reg((3, 4), 0.3), 1.0, data([3, 4], np.float64))
call("B/npint", prox.L1Reg(np.array([3, 4]), 0.3), 1.0, data([3, 4], np.float64))
call("B/npint-bad", prox.L1Reg(np.array([3, 4]), 0.3), 1.0, data([3, 5], np.float64))
call("B/npint-shape-attr", prox.L1Reg(data([3, 4], np.float64).shape, 0.3), 1.0,
     data([3, 4], np.float64))

# invalid inputs: no .shape attribute, None, scalars
for bad in ([1.0, 2.0, 3.0], None, 2.5, (1.0, 2.0), "abc"):
    call("C/L1Reg/%r" % (bad,), prox.L1Reg([3], 0.3), 1.0, bad)
    call("C/Stack/%r" % (bad,), prox.Stack([prox.L1Reg([3], 0.3)]), 1.0, bad)
call("C/0d", prox.L1Reg([3], 0.3), 1.0, np.float64(2.0))
call("C/0d-arr", prox.L1Reg([], 0.3), 1.0, np.array(2.0))

# a prox whose _prox returns a wrong shape -> output check must fire identically


class Bad(prox.Prox):
    def __init__(self, shape, oshape):
        self.oshape = oshape
        super().__init__(shape)

    def _prox(self, alpha, input):
        return np.ones(self.oshape)


for pshape, oshape in (([3], [3]), ([3], [4]), ([3, 2], [3]), ([3, 2], [3, 3]), ([-1], [9]),
                       ([3], [3, 7]), ([3], [2, 7])):
    call("D/Bad/%s->%s" % (pshape, oshape), Bad(pshape, oshape), 1.0, np.zeros(pshape if -1 not in pshape else [4]))

# 3. Stack: scalar / array alpha, nestings, multi-dim blocks, mismatching sizes
blocks = [
    [("L1Reg", [4])],
    [("L1Reg", [2, 3]), ("L2Reg", [5])],
    [("L2Proj", [3]), ("LInfProj", [2, 2]), ("L1Proj", [4]), ("NoOp", [1])],
    [("Box", [3]), ("L2RegH", [2, 2])],
    [("Conj(L1Reg)", [3, 1]), ("L1Reg", [1, 3])],
]
for bi, spec in enumerate(blocks):
    proxs = []
    for name, shp in spec:
        proxs.append(dict(make_all(shp))[name])
    S = prox.Stack(proxs)
    n = S.shape[0]
    for container in (list, tuple):
        S2 = prox.Stack(container(proxs))
        for dt in (np.float64, np.complex128, np.float32):
            if np.issubdtype(dt, np.complexfloating) and any(nm == "Box" for nm, _ in spec):
                continue
            x = data([n], dt)
            call("E/%d/%s/%s/scalar" % (bi, container.__name__, np.dtype(dt).name), S2, 0.6, x)
            a = np.abs(rng.randn(n)) + 0.1
            call("E/%d/%s/%s/array" % (bi, container.__name__, np.dtype(dt).name), S2, a, x)
            call("E/%d/%s/%s/npscalar" % (bi, container.__name__, np.dtype(dt).name), S2,
                 np.float64(0.6), x)
    # wrong lengths
    for bad_n in (n - 1, n + 1, 0):
        if bad_n >= 0:
            call("E/%d/badlen%d" % (bi, bad_n), S, 0.6, data([bad_n], np.float64))
    call("E/%d/2d" % bi, S, 0.6, data([n, 1], np.float64))
    call("E/%d/badalpha" % bi, S, np.ones(max(n - 1, 0)), data([n], np.float64))
    call("E/%d/0dalpha" % bi, S, np.array(0.6), data([n], np.float64))
    # nestings
    C = prox.Conj(S)
    call("E/%d/Conj(Stack)" % bi, C, 0.8, data([n], np.float64))
    SS = prox.Stack([S, prox.L1Reg([2], 0.1), prox.Conj(S)])
    call("E/%d/Stack(Stack)" % bi, SS, 0.8, data([2 * n + 2], np.complex128)
         if not any(nm == "Box" for nm, _ in spec) else data([2 * n + 2], np.float64))
    call("E/%d/Stack(Stack)/arr" % bi, SS, np.abs(rng.randn(2 * n + 2)) + 0.2,
         data([2 * n + 2], np.float64))
    U = prox.UnitaryTransform(S, linop.FFT([n]))
    call("E/%d/Unitary(Stack)" % bi, U, 0.5, data([n], np.complex128)
         if not any(nm == "Box" for nm, _ in spec) else data([n], np.float64))
    L = prox.L2Reg([n], 0.4, y=data([n], np.float64), proxh=S)
    call("E/%d/L2Reg(proxh=Stack)" % bi, L, 0.5, data([n], np.float64))

# a Stack whose inner prox rejects its block
S = prox.Stack([prox.L1Reg([3], 0.1), Bad([2], [5])])
call("F/Stack(Bad)", S, 1.0, data([5], np.float64))

print("records:", NREC[0])
print("DIGEST", H.hexdigest())
