"""Equivalence demo for rewrite n1 (Hstack / Vstack / Diag block bounds).

Exercises the stacked operators (forward, adjoint, normal operator, the
LinearLeastSquares consumer) over a spread of block counts, block sizes,
axes (None, 0, 1, -1), dtypes and real/complex data, repeated calls and
invalid inputs, and prints one SHA256 digest over
  * every result (values rounded to 10 significant digits, dtype, shape),
  * the exception type of every invalid call,
  * the caller's input arrays after each call,
  * the operators' stored index lists.
The digest must be identical on the pristine and on the rewritten tree.
"""
import hashlib
import sys

import numpy as np

import sigpy as sp
from sigpy import linop

H = hashlib.sha256()


def put(tag, obj):
    H.update(tag.encode())
    if isinstance(obj, np.ndarray):
        H.update(str(obj.dtype).encode())
        H.update(str(obj.shape).encode())
        a = np.ascontiguousarray(obj)
        if np.iscomplexobj(a):
            a = np.stack([a.real, a.imag], axis=-1)
        if a.dtype.kind in "fc":
            txt = ",".join("%.9e" % v for v in a.ravel().astype(np.float64))
        else:
            txt = ",".join(str(v) for v in a.ravel())
        H.update(txt.encode())
    else:
        H.update(repr(obj).encode())


def attempt(tag, fn):
    try:
        out = fn()
    except Exception as e:  # noqa
        cause = e.__cause__
        put(tag, ("EXC", type(e).__name__, type(cause).__name__))
        return None
    if isinstance(out, np.ndarray):
        put(tag, out)
    else:
        put(tag, out)
    return out


def randn(rng, shape, dtype):
    dtype = np.dtype(dtype)
    if dtype.kind == "c":
        x = rng.standard_normal(shape) + 1j * rng.standard_normal(shape)
    else:
        x = rng.standard_normal(shape)
    return x.astype(dtype)


def blocks(rng, oshapes, ishape, dtype):
    """Dense-matrix blocks mapping ishape -> oshape_k (via reshape)."""
    ops = []
    n = int(np.prod(ishape))
    for osh in oshapes:
        m = int(np.prod(osh))
        mat = randn(rng, (m, n), dtype)
        R1 = linop.Reshape([n, 1], ishape)
        M = linop.MatMul([n, 1], mat)
        R2 = linop.Reshape(osh, [m, 1])
        ops.append(R2 * M * R1)
    return ops


def exercise(tag, A, rng, dtypes):
    put(tag + ".ishape", list(A.ishape))
    put(tag + ".oshape", list(A.oshape))
    for attr in ["indices", "iindices", "oindices", "nops", "axis"]:
        if hasattr(A, attr):
            put(tag + "." + attr, getattr(A, attr))
            v = getattr(A, attr)
            if isinstance(v, list):
                put(tag + "." + attr + ".types", [type(i).__name__ for i in v])
    for dt in dtypes:
        x = randn(rng, A.ishape, dt)
        y = randn(rng, A.oshape, dt)
        x0, y0 = x.copy(), y.copy()
        for rep in range(2):
            attempt("%s.fwd.%s.%d" % (tag, dt, rep), lambda: A(x))
            attempt("%s.adj.%s.%d" % (tag, dt, rep), lambda: A.H(y))
            attempt("%s.nrm.%s.%d" % (tag, dt, rep), lambda: A.N(x))
            attempt("%s.HA.%s.%d" % (tag, dt, rep), lambda: A.H(A(x)))
            attempt("%s.AAH.%s.%d" % (tag, dt, rep), lambda: A.H.N(y))
        put(tag + ".x_after", x)
        put(tag + ".y_after", y)
        put(tag + ".x_same", bool(np.array_equal(x, x0)))
        put(tag + ".y_same", bool(np.array_equal(y, y0)))
    # invalid inputs
    bad = np.zeros([s + 1 for s in A.ishape])
    attempt(tag + ".badshape", lambda: A(bad))
    attempt(tag + ".badtype", lambda: A("x"))


def main():
    np.random.seed(0)  # MaxEig (GradientMethod step size) draws from the global RNG
    rng = np.random.RandomState(20240)
    dtypes = ["float32", "float64", "complex64", "complex128"]

    # ---- Vstack / Hstack, axis=None (vectorised) ----
    for nblk in [1, 2, 3, 4]:
        osh = [[2, 3], [1, 4], [5], [3, 1, 2]][:nblk]
        for dt in ["float64", "complex128"]:
            ops = blocks(rng, osh, [3, 2], dt)
            V = linop.Vstack(ops)
            exercise("V.none.%d.%s" % (nblk, dt), V, rng, dtypes)
            exercise("V.none.H.%d.%s" % (nblk, dt), V.H, rng, dtypes)
            Hs = linop.Hstack([op.H for op in ops])
            exercise("H.none.%d.%s" % (nblk, dt), Hs, rng, dtypes)

    # ---- Vstack / Hstack along an axis ----
    for axis in [0, 1, -1, -2, 2]:
        for sizes in [[1], [2, 1], [1, 3, 2], [2, 2, 1, 4]]:
            base = [3, 2, 2]
            osh = []
            for s in sizes:
                o = list(base)
                o[axis % 3] = s
                osh.append(o)
            ops = blocks(rng, osh, [2, 2], "complex128")
            tag = "ax%d.%s" % (axis, "-".join(map(str, sizes)))
            V = attempt("V." + tag + ".ctor", lambda: linop.Vstack(ops, axis=axis))
            if V is not None:
                exercise("V." + tag, V, rng, dtypes)
                exercise("VH." + tag, V.H, rng, dtypes)
            Hs = attempt(
                "H." + tag + ".ctor",
                lambda: linop.Hstack([op.H for op in ops], axis=axis),
            )
            if Hs is not None:
                exercise("H." + tag, Hs, rng, dtypes)

    # ---- Diag with every combination of iaxis / oaxis ----
    for iaxis in [None, 0, 1, -1]:
        for oaxis in [None, 0, 1, -1]:
            for nblk in [1, 2, 3]:
                ish, osh = [], []
                for k in range(nblk):
                    i = [2, 3]
                    o = [3, 2]
                    if iaxis is not None:
                        i[iaxis] = k + 1
                    if oaxis is not None:
                        o[oaxis] = 2 * k + 1
                    ish.append(i)
                    osh.append(o)
                ops = []
                for i, o in zip(ish, osh):
                    ops += blocks(rng, [o], i, "complex64")
                tag = "D.%s.%s.%d" % (iaxis, oaxis, nblk)
                D = attempt(
                    tag + ".ctor",
                    lambda: linop.Diag(ops, oaxis=oaxis, iaxis=iaxis),
                )
                if D is not None:
                    exercise(tag, D, rng, dtypes)
                    exercise(tag + ".H", D.H, rng, ["complex128"])

    # ---- operators that matter to C04 inside the stacks ----
    coord = rng.uniform(-3, 3, (12, 2))
    F1 = linop.NUFFT([6, 6], coord, toeplitz=True)
    F2 = linop.FFT([6, 6])
    F3 = linop.Reshape([6, 6], [6, 6]) * linop.Circshift([6, 6], [1, -2])
    V = linop.Vstack([F1, F2, F3])
    exercise("V.mixed", V, rng, ["complex64", "complex128"])
    D = linop.Diag([F1, F2, F3], iaxis=0, oaxis=None)
    exercise("D.mixed", D, rng, ["complex128"])
    G = linop.FiniteDifference([4, 5])
    exercise("G", G, rng, dtypes)

    # ---- consumer: LinearLeastSquares works through A.N ----
    ops = blocks(rng, [[4], [3], [5]], [4], "complex128")
    V = linop.Vstack(ops)
    y = randn(rng, V.oshape, "complex128")
    for solver, kw in [
        ("ConjugateGradient", {}),
        ("GradientMethod", {}),
        ("ADMM", {"rho": 0.7}),
    ]:
        y0 = y.copy()
        x = sp.app.LinearLeastSquares(
            V, y, lamda=0.1, solver=solver, max_iter=30, show_pbar=False, **kw
        ).run()
        put("LLS." + solver, np.asarray(x))
        put("LLS.y_same." + solver, bool(np.array_equal(y, y0)))

    # ---- invalid constructions ----
    A23 = linop.Identity([2, 3])
    A32 = linop.Identity([3, 2])
    A4 = linop.Identity([4])
    attempt("bad.V.ishape", lambda: linop.Vstack([A23, A32]))
    attempt("bad.V.axis", lambda: linop.Vstack([A23, A23], axis=5)(np.zeros([2, 3])))
    attempt("bad.V.ndim", lambda: linop.Vstack([A23, linop.Reshape([6], [2, 3])], axis=0))
    attempt("bad.H.oshape", lambda: linop.Hstack([A23, A32]))
    attempt("bad.H.ndim", lambda: linop.Hstack([A4, linop.Reshape([4], [2, 2])], axis=0))
    attempt("bad.H.other", lambda: linop.Hstack([linop.Reshape([6], [2, 3]), linop.Reshape([6], [3, 2])], axis=0))
    attempt("bad.D.other", lambda: linop.Diag([A23, A32], iaxis=0, oaxis=0))
    attempt("bad.V.empty", lambda: linop.Vstack([]))
    attempt("bad.H.empty", lambda: linop.Hstack([]))
    attempt("bad.D.empty", lambda: linop.Diag([]))

    print("DIGEST", H.hexdigest())
    return 0


if __name__ == "__main__":
    sys.exit(main())
