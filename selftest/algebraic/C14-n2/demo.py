"""C14 / n2: equivalence demonstration for the loop -> builtin-reduction rewrite of
Prox._check_shape, Stack.__init__ and Stack._prox (sigpy/prox.py).  Prints a SHA256
digest of everything observable; it must be identical on the pristine and on the
changed tree."""
import hashlib
import itertools
import re
import warnings

import numpy as np

import sigpy as sp
from sigpy import app, linop, prox

warnings.simplefilter("ignore")
H = hashlib.sha256()
N_REC = [0]
STATS = {}


def fmt_num(v):
    v = complex(v)
    return "%.9e%+.9ej" % (v.real, v.imag)


def rec(tag, obj):
    N_REC[0] += 1
    H.update(("|" + tag + "=").encode())
    if obj is None or isinstance(obj, (str, bool, int)):
        H.update(repr(obj).encode())
    elif isinstance(obj, (float, complex, np.number)):
        H.update((type(obj).__name__ + ":" + fmt_num(obj)).encode())
    elif isinstance(obj, np.ndarray):
        H.update(("%s%s[" % (obj.dtype.str, obj.shape)).encode())
        H.update(",".join(fmt_num(v) for v in obj.ravel()).encode())
    elif isinstance(obj, (list, tuple)):
        for i, o in enumerate(obj):
            rec("%s.%d" % (tag, i), o)
    else:
        H.update(re.sub(r" at 0x[0-9a-f]+", "", repr(obj)).encode())


def attempt(tag, fn, watched=()):
    try:
        out = fn()
        rec(tag + ".out", out)
        STATS["ok"] = STATS.get("ok", 0) + 1
    except Exception as e:  # noqa
        chain, msgs = [type(e).__name__], [str(e)]
        c = e.__cause__
        while c is not None:
            chain.append(type(c).__name__)
            msgs.append(str(c))
            c = c.__cause__
        key = ">".join(chain)
        rec(tag + ".exc", key)
        rec(tag + ".msg", re.sub(r" at 0x[0-9a-f]+", "", " // ".join(msgs)))
        STATS[key] = STATS.get(key, 0) + 1
    for k, w in enumerate(watched):
        rec(tag + ".in%d" % k, w)


class BadOut(prox.Prox):
    """Prox whose output has another shape than announced."""

    def __init__(self, shape, oshape):
        self.oshape_ = oshape
        super().__init__(shape)

    def _prox(self, alpha, input):
        return np.zeros(self.oshape_, dtype=input.dtype)


def arr(rng, shape, dtype):
    v = rng.standard_normal(shape)
    if np.issubdtype(dtype, np.complexfloating):
        v = v + 1j * rng.standard_normal(shape)
    return np.asarray(v).astype(dtype)


def main():
    rng = np.random.RandomState(2024)
    dtypes = [np.float64, np.float32, np.complex128, np.complex64]

    # ---- 1. every Prox class: matching / mismatching / wildcard / rank games
    shapes = [[4], [3, 2], [1, 5], [2, 1, 3], [], [0], [-1, 3], [3, -1], [-1]]
    inshapes = [(4,), (3, 2), (1, 5), (2, 1, 3), (), (0,), (5, 3), (3, 7), (6,),
                (3,), (2, 3), (3, 2, 2), (4, 1), (2, 1)]
    for shape, ishape, dtype in itertools.product(shapes, inshapes, dtypes):
        makers = [
            ("noop", lambda: prox.NoOp(shape)),
            ("l1", lambda: prox.L1Reg(shape, 0.3)),
            ("l2", lambda: prox.L2Reg(shape, 0.7)),
            ("l2y", lambda: prox.L2Reg(shape, 0.7, y=0.25,
                                       proxh=prox.L1Reg(shape, 0.1))),
            ("conj", lambda: prox.Conj(prox.L1Reg(shape, 0.3))),
            ("linf", lambda: prox.LInfProj(shape, 0.4)),
            ("l2proj", lambda: prox.L2Proj(shape, 0.9)),
            ("bad", lambda: BadOut(shape, (2, 2))),
        ]
        if not np.issubdtype(dtype, np.complexfloating):
            makers.append(("box", lambda: prox.BoxConstraint(shape, -0.3, 0.2)))
        for name, mk in makers:
            tag = "p.%s.%s.%s.%s" % (name, shape, ishape, np.dtype(dtype).str)
            v = arr(rng, ishape, dtype)
            w = v.copy()
            for alpha in [0.5, np.float32(2.0)]:
                for rep in range(2):
                    attempt(tag + ".%s.%d" % (alpha, rep), lambda: mk()(alpha, w),
                            [w])
            rec(tag + ".repr", repr(mk()) if name != "bad" else "bad")

    # non-array inputs
    for bad_in in [[1.0, 2.0, 3.0, 4.0], 3.0, None, "abcd"]:
        attempt("nonarr.%r" % (bad_in,), lambda: prox.L1Reg([4], 0.1)(1.0, bad_in))

    # ---- 2. Stack
    for dtype in dtypes:
        rdt = np.zeros(1, dtype).real.dtype
        combos = [
            [prox.L1Reg([3], 0.2), prox.L2Reg([2, 2], 0.5)],
            [prox.L2Reg([4, 1], 1, y=-arr(rng, (4, 1), dtype)),
             prox.Conj(prox.L1Reg([2, 3], 0.3))],
            [prox.NoOp([2]), prox.Conj(prox.NoOp([3])), prox.L1Reg([1], 0.1)],
            [prox.L1Reg([5], 0.2)],
            [prox.L1Reg([], 0.2), prox.L2Reg([2], 0.2)],
            [prox.L1Reg([0], 0.2), prox.L2Reg([2], 0.2)],
            [prox.Stack([prox.L1Reg([2], 0.2), prox.NoOp([1, 2])]),
             prox.L2Reg([3], 2.0)],
            (prox.L1Reg([2], 0.2), prox.L1Reg([2], 0.4)),  # tuple of proxs
            [prox.L1Reg([2], 0.2), BadOut([3], (2,))],
            [BadOut([3], (4,)), prox.L1Reg([2], 0.2)],
        ]
        same = prox.L1Reg([2], 0.3)
        combos.append([same, same, same])
        for ci, proxs in enumerate(combos):
            tag = "s.%d.%s" % (ci, np.dtype(dtype).str)
            try:
                S = prox.Stack(proxs)
            except Exception as e:  # noqa
                rec(tag + ".ctor_exc", type(e).__name__)
                continue
            rec(tag + ".shape", [int(s) for s in S.shape])
            rec(tag + ".shape_type", type(S.shape[0]).__name__)
            rec(tag + ".shapes", repr(S.shapes))
            rec(tag + ".nops", S.nops)
            rec(tag + ".repr", repr(S))
            rec(tag + ".same_list", S.proxs is proxs)
            size = int(S.shape[0])
            for dn in [0, -1, 1, 3]:  # exact, too short, too long
                if size + dn < 0:
                    continue
                v = arr(rng, (size + dn,), dtype)
                w = v.copy()
                alphas = {
                    "py": 0.6,
                    "int": 2,
                    "np64": np.float64(0.4),
                    "np32": np.float32(0.4),
                    "0d": np.array(0.4),
                    "vec": (0.2 + 0.1 * np.arange(size + dn)).astype(rdt),
                    "short": (0.2 + 0.1 * np.arange(max(size - 1, 0))).astype(rdt),
                    "list": [0.5] * size,
                }
                for an, al in alphas.items():
                    al_w = al.copy() if isinstance(al, np.ndarray) else al
                    watched = [w] + ([al_w] if isinstance(al_w, np.ndarray) else [])
                    for rep in range(2):
                        attempt("%s.dn%d.%s.%d" % (tag, dn, an, rep),
                                lambda: S(al_w, w), watched)
                    attempt("%s.dn%d.%s.conj" % (tag, dn, an),
                            lambda: prox.Conj(S)(al_w, w), watched)
            # 2-D input of the right total size
            attempt(tag + ".2d", lambda: S(0.5, arr(rng, (size, 1), dtype)))

    for bad in [[], None, 3]:
        attempt("s.ctor.%r" % (bad,), lambda: repr(prox.Stack(bad)))
    try:
        prox.Stack([])
    except BaseException as e:  # AssertionError
        rec("s.ctor.empty", type(e).__name__)

    # ---- 3. through LinearLeastSquares (primal-dual with G uses Stack + Conj)
    for dtype, (m, n) in itertools.product(dtypes, [(6, 4), (3, 5), (1, 1)]):
        _A = (np.eye(m, n) + 0.2 * arr(rng, (m, n), dtype)).astype(dtype)
        y, z = arr(rng, (m, 1), dtype), arr(rng, (n, 1), dtype)
        A = linop.MatMul([n, 1], _A)
        Gs = [linop.MatMul([n, 1], arr(rng, (n + 1, n), dtype)),
              linop.FiniteDifference([n, 1], axes=[0]), None]
        for gi, G in enumerate(Gs):
            gshape = [n, 1] if G is None else G.oshape
            for pn, P in [("none", None), ("l1", prox.L1Reg(gshape, 0.05)),
                          ("l2", prox.L2Reg(gshape, 0.3)),
                          ("wrong", prox.L1Reg([n + 7, 2], 0.05))]:
                for solver, lamda, sig in itertools.product(
                    ["PrimalDualHybridGradient", "ADMM", None], [0, 0.2],
                    ["default", "scalar", "array"],
                ):
                    if solver != "PrimalDualHybridGradient" and sig != "default":
                        continue
                    kw = dict(G=G, proxg=P, solver=solver, lamda=lamda, z=z.copy(),
                              max_iter=10, show_pbar=False)
                    yy = y.copy()
                    watched = [yy, kw["z"]]
                    osz = m if G is None else m + int(np.prod(G.oshape))
                    if sig == "scalar":
                        kw["sigma"] = 0.8
                    elif sig == "array":
                        kw["sigma"] = (0.5 + 0.03 * np.arange(osz)).reshape(
                            [osz] if G is not None else [m, 1])
                        watched.append(kw["sigma"])
                    tag = "lls.%s.%d.%d.g%d.%s.%s.%s.%s" % (
                        np.dtype(dtype).str, m, n, gi, pn, solver, lamda, sig)

                    def go():
                        np.random.seed(99)
                        a = app.LinearLeastSquares(A, yy, **kw)
                        x = a.run()
                        extra = []
                        if hasattr(a.alg, "u"):
                            extra = [a.alg.u]
                        if hasattr(a.alg, "tau"):
                            extra += [a.alg.tau, a.alg.sigma]
                        return [x] + extra

                    attempt(tag, go, watched)

    for k in sorted(STATS):
        print("  %-50s %d" % (k, STATS[k]))
    print("records:", N_REC[0])
    print("digest:", H.hexdigest())


if __name__ == "__main__":
    main()
