"""C17 / round 5 / n2 -- equivalence demo for the EspiritCalib rewrite.

Runs EspiritCalib over a spread of data (random / synthesised, complex64 /
complex128, 2-D / 3-D, square / non-square, contiguous / strided), parameter
settings (calib_width <, =, > matrix size, odd / even kernel_width, thresh and
crop incl. 0, negative and >= 1, max_iter, output_eigenvalue), repeated run()
calls and invalid inputs, and prints a SHA256 digest of everything returned
(values to 10 significant digits, dtypes, shapes, memory-layout flags,
exception types, and the caller's input arrays after the call).
The digest must be identical on the pristine and on the rewritten tree.
"""
import hashlib
import sys
import warnings

import numpy as np

import sigpy as sp
import sigpy.mri as mr

H = hashlib.sha256()


def _fmt(v):
    if np.isnan(v):
        return "nan"
    if v == 0:
        return "0"
    return "%.9e" % v  # 10 significant digits


def put(tag, obj):
    """Feed a result into the digest."""
    if isinstance(obj, BaseException):
        s = "EXC:" + type(obj).__name__
    elif isinstance(obj, (tuple, list)):
        H.update(("%s:seq%d;" % (tag, len(obj))).encode())
        for i, o in enumerate(obj):
            put("%s[%d]" % (tag, i), o)
        return
    else:
        a = np.asarray(obj)
        vals = a.ravel()
        if np.iscomplexobj(vals):
            body = ",".join(_fmt(v.real) + "|" + _fmt(v.imag) for v in vals)
        else:
            body = ",".join(_fmt(float(v)) for v in vals)
        s = "%s;%s;%s" % (a.dtype.str, a.shape, body)
    H.update(("%s=%s;" % (tag, s)).encode())


def call(tag, f, *args):
    try:
        with np.errstate(all="ignore"), warnings.catch_warnings():
            warnings.simplefilter("ignore")
            out = f(*args)
    except Exception as e:  # noqa
        out = e
    put(tag, out)
    return out


def rand(rng, shape, dtype):
    if np.issubdtype(dtype, np.integer):
        return rng.randint(-50, 50, size=shape).astype(dtype)
    x = rng.standard_normal(shape)
    if np.issubdtype(dtype, np.complexfloating):
        x = x + 1j * rng.standard_normal(shape)
    return x.astype(dtype)


def smooth_ksp(rng, nc, shape, dtype):
    grids = np.meshgrid(*[np.linspace(-1, 1, n) for n in shape], indexing="ij")
    maps = []
    for c in range(nc):
        cen = rng.uniform(-1.2, 1.2, len(shape))
        r2 = sum((g - ce) ** 2 for g, ce in zip(grids, cen))
        ph = sum(k * g for k, g in zip(rng.uniform(-1, 1, len(shape)), grids))
        maps.append(np.exp(-r2 / 2) * np.exp(1j * ph))
    maps = np.array(maps)
    img = (sum(g**2 for g in grids) < 0.8) * (1 + 0.3 * grids[-1])
    axes = tuple(range(1, len(shape) + 1))
    x = np.fft.ifftshift(maps * img, axes=axes)
    x = np.fft.fftshift(np.fft.fftn(x, axes=axes, norm="ortho"), axes=axes)
    return x.astype(dtype)


def run_app(tag, ksp, **kw):
    """Construct, run twice, and digest outputs and internal state."""
    ksp0 = ksp.copy()

    def go():
        app = mr.app.EspiritCalib(ksp, show_pbar=False, **kw)
        out = []
        for rep in range(2):
            res = app.run()
            out.append(res)
            first = res[0] if isinstance(res, tuple) else res
            out.append(
                np.array(
                    [
                        first.flags.c_contiguous,
                        first.flags.f_contiguous,
                        first.flags.owndata,
                        np.shares_memory(first, app.mps),
                    ]
                )
            )
            if isinstance(res, tuple):
                out.append(
                    np.array(
                        [
                            res[1].flags.c_contiguous,
                            res[1].flags.owndata,
                            np.shares_memory(res[1], app.alg.max_eig),
                        ]
                    )
                )
        out.append(app.mps)
        out.append(app.alg.max_eig)
        out.append(np.array([app.alg.iter, app.alg.max_iter]))
        return out

    call(tag, go)
    put(tag + "/input", ksp)
    same = np.array_equal(ksp, ksp0, equal_nan=True)
    put(tag + "/input_unchanged", np.array(same))


def main():
    rng = np.random.RandomState(2024)

    # ---- parameter sweep on random and synthesised data ----------------
    data = [
        ("rand2d", rand(rng, (4, 12, 12), np.complex128)),
        ("rand2d_ns", rand(rng, (3, 10, 15), np.complex64)),
        ("rand2c", rand(rng, (2, 9, 8), np.complex128)),
        ("smooth2d", smooth_ksp(rng, 8, (16, 16), np.complex128)),
        ("smooth2d_ns", smooth_ksp(rng, 5, (18, 13), np.complex64)),
        ("rand3d", rand(rng, (3, 8, 7, 6), np.complex128)),
        ("smooth3d", smooth_ksp(rng, 4, (10, 9, 8), np.complex64)),
    ]
    params = [
        dict(),  # defaults (calib_width 24 > matrix size)
        dict(calib_width=8, kernel_width=4),
        dict(calib_width=7, kernel_width=3, thresh=0.1, crop=0.8),
        dict(calib_width=6, kernel_width=3, thresh=0.0, crop=0.0),
        dict(calib_width=6, kernel_width=2, thresh=0.3, crop=1.0),
        dict(calib_width=5, kernel_width=5, thresh=0.02, crop=0.5),
        dict(calib_width=6, kernel_width=1, thresh=0.5, crop=0.2),
        dict(calib_width=8, kernel_width=3, thresh=-1.0, crop=-1.0),
        dict(calib_width=8, kernel_width=3, thresh=1.0),  # no kernel kept
        dict(calib_width=8, kernel_width=3, thresh=2.0, crop=0.0),
        dict(calib_width=6, kernel_width=3, max_iter=1),
        dict(calib_width=6, kernel_width=3, max_iter=0),
        dict(calib_width=9, kernel_width=4, crop=np.float32(0.9),
             thresh=np.float64(0.05)),
    ]
    for name, ksp in data:
        for pi, kw in enumerate(params):
            kw = dict(kw)
            if ksp.ndim == 4 and "calib_width" not in kw:
                kw["calib_width"] = 10  # keep the 3-D default case small
                kw["kernel_width"] = 4
            kw.setdefault("max_iter", 12)
            for oe in (False, True):
                run_app(
                    "%s/p%d/oe%d" % (name, pi, oe), ksp,
                    output_eigenvalue=oe, **kw
                )

    # default max_iter (100) once, as in the test-suite
    run_app("smooth2d/full", data[3][1], output_eigenvalue=True)

    # calib_width equal to the matrix size (calibration region is a view)
    run_app("eqN", rand(rng, (3, 8, 8), np.complex128), calib_width=8,
            kernel_width=3, max_iter=10, output_eigenvalue=True)

    # ---- memory layouts --------------------------------------------------
    base = rand(rng, (9, 10, 4), np.complex128)
    run_app("layout/T", base.T, calib_width=9, kernel_width=3, max_iter=8)
    run_app("layout/T_eq", base[:9, :9].T, calib_width=9, kernel_width=3,
            max_iter=8, output_eigenvalue=True)
    vol = rand(rng, (3, 4, 8, 8), np.complex64)
    run_app("layout/slice", vol[:, 2], calib_width=8, kernel_width=3,
            max_iter=8, output_eigenvalue=True)
    run_app("layout/step", vol[:, :, ::2, ::2].copy()[:, 1:3, :, ::-1],
            calib_width=4, kernel_width=2, max_iter=8)
    run_app("layout/F", np.asfortranarray(vol[:, 0]), calib_width=6,
            kernel_width=3, max_iter=8, output_eigenvalue=True)

    # ---- special data ------------------------------------------------------
    z = np.zeros((3, 8, 8), np.complex128)
    run_app("zeros", z, calib_width=6, kernel_width=3, max_iter=5,
            output_eigenvalue=True)
    one = np.zeros((3, 8, 8), np.complex64)
    one[:, 4, 4] = [1, 1j, -2]
    run_app("delta", one, calib_width=6, kernel_width=3, max_iter=5,
            output_eigenvalue=True)
    dead = rand(rng, (3, 8, 8), np.complex128)
    dead[0] = 0  # dead reference coil
    run_app("deadcoil", dead, calib_width=6, kernel_width=3, max_iter=5,
            output_eigenvalue=True)
    tiny = rand(rng, (3, 8, 8), np.complex64) * np.float32(1e-20)
    run_app("tiny", tiny, calib_width=6, kernel_width=3, max_iter=5)
    huge = rand(rng, (3, 8, 8), np.complex64) * np.float32(1e15)
    run_app("huge", huge, calib_width=6, kernel_width=3, max_iter=5)

    # ---- invalid inputs ---------------------------------------------------
    good = rand(rng, (3, 8, 8), np.complex128)
    run_app("bad/calib<kernel", good, calib_width=3, kernel_width=5)
    run_app("bad/calib=kernel-1", good, calib_width=4, kernel_width=5)
    run_app("bad/kernel0", good, calib_width=4, kernel_width=0)
    run_app("bad/real", good.real.copy(), calib_width=6, kernel_width=3)
    run_app("bad/float32", good.real.astype(np.float32), calib_width=6,
            kernel_width=3)
    run_app("bad/int", np.ones((3, 8, 8), np.int64), calib_width=6,
            kernel_width=3)
    nan = good.copy()
    nan[1, 4, 4] = np.nan
    run_app("bad/nan", nan, calib_width=6, kernel_width=3, max_iter=3)
    inf = good.copy()
    inf[1, 4, 4] = np.inf
    run_app("bad/inf", inf, calib_width=6, kernel_width=3, max_iter=3)
    run_app("bad/1dimg", rand(rng, (3, 16), np.complex128), calib_width=8,
            kernel_width=3, max_iter=5, output_eigenvalue=True)
    run_app("bad/4dimg", rand(rng, (2, 4, 4, 4, 4), np.complex128),
            calib_width=4, kernel_width=2, max_iter=3)
    run_app("bad/nocoil", rand(rng, (8,), np.complex128), calib_width=4,
            kernel_width=2)
    run_app("bad/emptycoil", np.zeros((0, 8, 8), np.complex128),
            calib_width=4, kernel_width=2, max_iter=2)
    run_app("bad/floatwidth", good, calib_width=6.0, kernel_width=3)
    run_app("bad/threshNone", good, calib_width=6, kernel_width=3,
            thresh=None)
    run_app("bad/cropNone", good, calib_width=6, kernel_width=3, crop=None,
            max_iter=2)
    call("bad/list", lambda: mr.app.EspiritCalib(
        good.tolist(), calib_width=6, kernel_width=3, show_pbar=False).run())

    print("DIGEST", H.hexdigest())
    return 0


if __name__ == "__main__":
    sys.exit(main())
