"""Equivalence digest for util.resize / util._expand_shapes and everything in
the wavelet path that goes through them (fwt, iwt, get_wavelet_shape,
linop.Wavelet / InverseWavelet, linop.Resize, fourier oversampling).
Prints one SHA256 over all results (values to 10 significant digits, dtypes,
shapes, exception types, and the caller's inputs after each call)."""
import hashlib
import warnings

import numpy as np

import sigpy as sp
from sigpy import util, wavelet

warnings.simplefilter("ignore")
H = hashlib.sha256()
count = [0]


def put(*items):
    for it in items:
        H.update(repr(it).encode())
        H.update(b"|")
    count[0] += 1


def arr(a):
    """Canonical description of an array (or nested python object)."""
    if (isinstance(a, np.ndarray) and a.dtype.kind in "biufc") or (
        isinstance(a, (bool, int, float, complex, np.number, np.bool_))
    ):
        a = np.asarray(a)
        if a.dtype.kind == "c":
            v = np.stack([a.real, a.imag]).astype(np.float64).ravel()
        else:
            v = a.astype(np.float64).ravel()
        txt = ",".join("%.9e" % (x + 0.0) for x in v)  # 10 significant digits
        return ("A", str(a.dtype), tuple(a.shape), txt.replace("-0.000000000e+00", "0.000000000e+00"))
    if isinstance(a, (list, tuple)):
        return (type(a).__name__,) + tuple(arr(x) for x in a)
    if isinstance(a, dict):
        return ("dict",) + tuple((k, arr(a[k])) for k in sorted(a))
    if isinstance(a, slice):
        return ("slice", a.start, a.stop, a.step)
    return (type(a).__name__, repr(a))


def call(tag, f, *args, **kw):
    """Call f, record result or exception type, and the inputs afterwards."""
    try:
        r = f(*args, **kw)
        put(tag, "ok", arr(r))
        if isinstance(r, np.ndarray):
            put(tag, "flags", r.flags["C_CONTIGUOUS"], r.flags["OWNDATA"],
                any(isinstance(a, np.ndarray) and np.shares_memory(a, r) for a in args))
    except Exception as e:  # noqa
        r = None
        put(tag, "exc", type(e).__name__)
    put(tag, "inputs-after", tuple(arr(a) for a in args if isinstance(a, (np.ndarray, list, tuple))),
        tuple((k, arr(v)) for k, v in sorted(kw.items()) if isinstance(v, (np.ndarray, list, tuple))))
    return r


rng = np.random.RandomState(2024)


def data(shape, dt):
    dt = np.dtype(dt)
    if dt.kind == "c":
        return (rng.randn(*shape) + 1j * rng.randn(*shape)).astype(dt)
    if dt.kind in "iu":
        return rng.randint(0, 50, size=shape).astype(dt)
    if dt.kind == "b":
        return rng.rand(*shape) > 0.5
    return rng.randn(*shape).astype(dt)


dtypes = [np.float64, np.float32, np.float16, np.complex128, np.complex64,
          np.int32, np.uint8, bool]

# ---- _expand_shapes ------------------------------------------------------
for shapes in [((3,), (2, 3)), ([4, 5], (5,), [1, 1, 5]), ((), (2,)), ((7,),),
               ((2, 3), [2, 3]), (range(3), (1,)), ((np.int64(3),), (2, 2))]:
    call("expand", util._expand_shapes, *shapes)
call("expand-empty", util._expand_shapes)
call("expand-bad", util._expand_shapes, 3, (2,))
call("expand-bad2", util._expand_shapes, None)
r = util._expand_shapes((2,), (2,))
put("expand-fresh", r[0] is not r[1], type(r).__name__, [type(x).__name__ for x in r])
a_in = [2, 3]
r = util._expand_shapes(a_in, (1, 2, 3))
r[0].append(9)
put("expand-noalias", a_in)

# ---- resize --------------------------------------------------------------
pairs = [((3,), (5,)), ((3,), (4,)), ((2,), (5,)), ((2,), (4,)), ((5,), (3,)),
         ((4,), (3,)), ((5,), (2,)), ((4,), (2,)), ((1,), (2,)), ((2,), (1,)),
         ((1,), (1,)), ((6,), (6,)), ((1,), (9,)), ((9,), (1,)),
         ((3, 4), (4, 4)), ((3, 4), (2, 7)), ((5, 6), (6, 5)), ((7, 1, 3), (8, 2, 4)),
         ((8, 2, 4), (7, 1, 3)), ((3,), (2, 5)), ((2, 3), (6,)), ((2, 3), (3, 2)),
         ((4,), (1, 1, 4)), ((1, 1, 4), (4,)), ((3, 0), (4, 2)), ((0,), (3,)),
         ((5, 5), (5, 6)), ((129,), (130,)), ((130,), (129,))]
for ish, osh in pairs:
    for dt in dtypes:
        x = data(ish, dt)
        call(("resize", ish, osh, np.dtype(dt).name), util.resize, x, list(osh))
    x = data(ish, np.complex64)
    call(("resize-tuple", ish, osh), util.resize, x, tuple(osh))
    call(("resize-F", ish, osh), util.resize, np.asfortranarray(x), list(osh))
    call(("resize-twice", ish, osh), util.resize, util.resize(x, list(osh)), list(ish))
# explicit shifts, including unusual / invalid ones
x = data((5, 6), np.float64)
for kw in [dict(ishift=[0, 0]), dict(oshift=[0, 0]), dict(ishift=[1, 2], oshift=[0, 1]),
           dict(ishift=(2, 3)), dict(oshift=np.array([1, 1])), dict(ishift=[4, 5]),
           dict(ishift=[0]), dict(oshift=[1]), dict(ishift=[0, 0, 0]), dict(ishift=[-1, 0]),
           dict(oshift=[-1, -2]), dict(ishift=[9, 9]), dict(oshift=[9, 9]),
           dict(ishift=[0.0, 1.0]), dict(ishift=3), dict(oshift="ab"), dict(ishift=[None, None])]:
    for osh in [[3, 4], [7, 8], [4, 9], [5, 6]]:
        call(("resize-shift", sorted(kw), str(kw), osh), util.resize, x, osh, **kw)
for bad in [[-1], [2.0], [2.5], "ab", None, 3, [3, -2]]:
    call(("resize-bad", str(bad)), util.resize, data((3,), np.float32), bad)
call("resize-badinput", util.resize, [1, 2, 3], [5])
call("resize-0d", util.resize, np.float64(3.0), [3])
call("resize-0d-arr", util.resize, np.array(3.0), [])
# strided / read-only views
base = data((6, 8), np.complex128)
v = base[::2, 1::2]
call("resize-view", util.resize, v, [4, 3])
ro = data((5,), np.float64)
ro.setflags(write=False)
call("resize-readonly", util.resize, ro, [6])
call("dirac", util.dirac, [5, 4])
call("dirac1", util.dirac, [1])

# ---- get_wavelet_shape ----------------------------------------------------
shapes = [(1,), (2,), (3,), (5,), (8,), (13,), (16,), (129,), (7, 6), (1, 16),
          (9, 4, 3), (3, 5, 2), (16, 16), (33, 20)]
waves = ["haar", "db2", "db4", "sym5", "coif1"]
for shape in shapes:
    for wave in waves:
        for level in [None, 0, 1, 2, 3]:
            axs = [None, (0,), (-1,)] + ([(0, len(shape) - 1), (1, 0)] if len(shape) > 1 else [])
            for axes in axs:
                call(("gws", shape, wave, level, axes), wavelet.get_wavelet_shape,
                     shape, wave, axes, level)
for bad in [((5.0,), "db4", None, None), ((4.5,), "db4", None, None), (("a",), "db4", None, None),
            ((-3,), "db4", None, None), ((0,), "db4", None, None), ((), "db4", None, None),
            ((5,), "nope", None, None), ((5,), "db4", (3,), None), ((5,), "db4", None, -1),
            (5, "db4", None, None), ((None,), "db4", None, None), ((np.int64(7), np.int32(6)), "db2", None, 1),
            ([7, 6], "db2", [0], 1)]:
    call(("gws-bad", str(bad)), wavelet.get_wavelet_shape, *bad)

# ---- fwt / iwt / linops ---------------------------------------------------
for shape in shapes:
    for wave in ["haar", "db2", "db4", "coif1"]:
        for level in [None, 1, 2, 3]:
            axs = [None] + ([(0,), (-1,)] if len(shape) > 1 else [])
            for axes in axs:
                for dt in [np.float64, np.float32, np.complex128, np.complex64, np.int32, np.float16]:
                    tag = ("wt", shape, wave, level, axes, np.dtype(dt).name)
                    x = data(shape, dt)
                    y = call(tag + ("fwt",), wavelet.fwt, x, wave, axes, level)
                    r = call(tag + ("gws",), wavelet.get_wavelet_shape, shape, wave, axes, level)
                    if y is None or r is None:
                        continue
                    call(tag + ("iwt",), wavelet.iwt, y, list(shape), r[1], wave, axes, level)
                    call(tag + ("iwt-t",), wavelet.iwt, y, tuple(shape), r[1], wave, axes, level)
                    c = data(r[0], dt)
                    call(tag + ("iwt-rand",), wavelet.iwt, c, list(shape), r[1], wave, axes, level)
                # linops, repeated calls
                try:
                    A = sp.linop.Wavelet(shape, axes=axes, wave_name=wave, level=level)
                    put("linop", shape, wave, level, axes, A.oshape, A.ishape, A.H.oshape, A.H.ishape, repr(A), repr(A.H))
                except Exception as e:  # noqa
                    put("linop-exc", type(e).__name__)
                    continue
                x = data(shape, np.complex128)
                for rep in range(2):
                    y = call(("linop-A", rep, shape, wave, level, axes), A, x)
                    call(("linop-AH", rep), A.H, y)
                    call(("linop-N", rep), A.N, x)
                    call(("linop-AHH", rep), A.H.H, x)
                call("linop-wrongshape", A, data(tuple(s + 1 for s in shape), np.float64))
                call("linop-AH-wrongshape", A.H, x)
# non contiguous / fortran inputs to fwt, non-array input
xb = data((9, 14), np.complex64)
call("fwt-view", wavelet.fwt, xb[::2, ::-1], "db2", None, 2)
call("fwt-F", wavelet.fwt, np.asfortranarray(xb), "db2", (1,), 1)
call("fwt-list", wavelet.fwt, [1.0, 2.0, 3.0])
call("fwt-0d", wavelet.fwt, np.array(1.0))
call("fwt-empty", wavelet.fwt, np.zeros((0,)))
call("fwt-badwave", wavelet.fwt, data((6,), np.float64), "nope")
call("fwt-badaxes", wavelet.fwt, data((6,), np.float64), "db2", (2,))
call("fwt-badlevel", wavelet.fwt, data((6,), np.float64), "db2", None, -2)
call("iwt-badslices", wavelet.iwt, data((6,), np.float64), [6], None)
call("iwt-badoshape", wavelet.iwt, data((6,), np.float64), [3, 3], wavelet.get_wavelet_shape([6])[1])

# ---- other users of resize: Resize linop, oversampled FFT helpers ----------
for ish, osh in [((5,), (8,)), ((8,), (5,)), ((3, 4), (6, 3)), ((7, 7), (4, 10))]:
    R = sp.linop.Resize(list(osh), list(ish))
    x = data(ish, np.complex64)
    y = call(("Resize", ish, osh), R, x)
    call(("Resize.H", ish, osh), R.H, y)
    R2 = sp.linop.Resize(list(osh), list(ish), ishift=[0] * len(ish), oshift=[0] * len(ish))
    y = call(("Resize-shift", ish, osh), R2, x)
    call(("Resize-shift.H", ish, osh), R2.H, y)
for shape, osh in [((5,), [8]), ((6, 7), [6, 10]), ((4, 4), [3, 3])]:
    x = data(shape, np.complex128)
    y = call(("fft-oshape", shape, osh), sp.fft, x, oshape=osh)
    call(("ifft-oshape", shape, osh), sp.ifft, x, oshape=osh)

print("items hashed:", count[0])
print("DIGEST", H.hexdigest())
