"""Equivalence demo for rewrite n2 (toeplitz_psf impulse indexing / fft axes).

Exercises sigpy.fourier.toeplitz_psf and the Toeplitz normal operator of
sigpy.linop.NUFFT over 1-D/2-D/3-D trajectories, odd and even sizes, batch
axes, list/tuple shapes, float32/float64 coordinates, several oversamp/width
settings, real and complex inputs of several dtypes, repeated calls, the
LinearLeastSquares consumer and invalid inputs, and prints one SHA256 digest
over every result (values rounded to 10 significant digits, dtype, shape),
the exception types of the invalid calls and the caller's arrays after each
call.  The digest must be identical on the pristine and the rewritten tree.
"""
import hashlib
import sys

import numpy as np

import sigpy as sp
from sigpy import fourier, linop

H = hashlib.sha256()


def put(tag, obj):
    H.update(tag.encode())
    if isinstance(obj, np.ndarray):
        H.update(str(obj.dtype).encode())
        H.update(str(obj.shape).encode())
        a = np.ascontiguousarray(obj)
        if np.iscomplexobj(a):
            a = np.stack([a.real, a.imag], axis=-1)
        if a.dtype.kind in "fc":
            txt = ",".join("%.9e" % v for v in a.ravel().astype(np.float64))
        else:
            txt = ",".join(str(v) for v in a.ravel())
        H.update(txt.encode())
    else:
        H.update(repr(obj).encode())


def attempt(tag, fn):
    try:
        out = fn()
    except Exception as e:  # noqa
        put(tag, ("EXC", type(e).__name__, type(e.__cause__).__name__))
        return None
    put(tag, out)
    return out


def randn(rng, shape, dtype):
    dtype = np.dtype(dtype)
    if dtype.kind == "c":
        x = rng.standard_normal(shape) + 1j * rng.standard_normal(shape)
    else:
        x = rng.standard_normal(shape)
    return x.astype(dtype)


def main():
    np.random.seed(0)
    rng = np.random.RandomState(4242)

    configs = [
        # (shape, ndim, npts-shape, oversamp, width)
        ([5], 1, (9,), 1.25, 4),
        ((6,), 1, (9,), 2, 4),
        ([7], 1, (4, 3), 1.5, 3),
        ([1], 1, (3,), 1.25, 4),
        ([2, 8], 1, (11,), 1.25, 4),  # batch axis
        ([4, 5], 2, (13,), 1.25, 4),
        ((6, 6), 2, (5, 4), 2, 6),
        ([3, 4, 5], 2, (10,), 1.25, 4),  # batch axis
        ([2, 1, 4, 4], 2, (7,), 1.375, 5),  # two batch axes
        ([3, 4, 5], 3, (12,), 1.25, 4),
        ([2, 4, 3, 4], 3, (6,), 2, 2),  # batch axis, 3-D
    ]

    for ci, (shape, ndim, pts, oversamp, width) in enumerate(configs):
        for cdt in [np.float64, np.float32]:
            half = np.array(list(shape)[-ndim:]) / 2
            coord = (rng.uniform(-1, 1, pts + (ndim,)) * half).astype(cdt)
            coord0 = coord.copy()
            tag = "cfg%d.%s" % (ci, np.dtype(cdt).name)

            for rep in range(2):
                attempt(
                    "%s.psf.%d" % (tag, rep),
                    lambda: fourier.toeplitz_psf(coord, shape, oversamp, width),
                )
            if ci % 3 == 0:
                attempt(tag + ".psf.default", lambda: fourier.toeplitz_psf(coord, shape))
            put(tag + ".coord_same", bool(np.array_equal(coord, coord0)))
            put(tag + ".coord_after", coord)

            A = linop.NUFFT(
                shape, coord, oversamp=oversamp, width=width, toeplitz=True
            )
            B = linop.NUFFT(shape, coord, oversamp=oversamp, width=width)
            for xdt in ["float32", "float64", "complex64", "complex128"]:
                x = randn(rng, shape, xdt)
                x0 = x.copy()
                for rep in range(2):
                    attempt("%s.N.%s.%d" % (tag, xdt, rep), lambda: A.N(x))
                attempt("%s.HA.%s" % (tag, xdt), lambda: A.H(A(x)))
                attempt("%s.BN.%s" % (tag, xdt), lambda: B.N(x))
                attempt("%s.NH.%s" % (tag, xdt), lambda: A.N.H(x))
                put("%s.x_same.%s" % (tag, xdt), bool(np.array_equal(x, x0)))
                put("%s.x_after.%s" % (tag, xdt), x)
            put(tag + ".coord_same2", bool(np.array_equal(coord, coord0)))
            put(tag + ".N.repr", repr(A.N))

    # consumer: LinearLeastSquares through the Toeplitz normal operator
    shape = [8, 8]
    coord = rng.uniform(-4, 4, (150, 2))
    A = linop.NUFFT(shape, coord, toeplitz=True)
    y = randn(rng, A.oshape, "complex128")
    for solver in ["ConjugateGradient", "GradientMethod"]:
        x = sp.app.LinearLeastSquares(
            A, y, lamda=0.05, solver=solver, max_iter=15, show_pbar=False
        ).run()
        put("LLS." + solver, np.asarray(x))

    # composed / stacked uses
    S = linop.Multiply(shape, randn(rng, [3] + shape, "complex128"))
    A3 = linop.NUFFT([3] + shape, coord, toeplitz=True)
    x = randn(rng, shape, "complex128")
    put("sense.N", (A3 * S).N(x))
    put("sense.viaN", S.H(A3.N(S(x))))

    # invalid inputs
    c2 = rng.uniform(-2, 2, (5, 2))
    attempt("bad.shape_too_short", lambda: fourier.toeplitz_psf(c2, [4]))
    attempt("bad.shape_empty", lambda: fourier.toeplitz_psf(c2, []))
    attempt("bad.coord_ndim0", lambda: fourier.toeplitz_psf(np.zeros((5, 0)), [4]))
    attempt("bad.coord_4d", lambda: fourier.toeplitz_psf(np.zeros((5, 4)), [2, 2, 2, 2]))
    attempt("bad.coord_int", lambda: fourier.toeplitz_psf(np.zeros((5, 1), dtype=int), [4]))
    attempt("bad.coord_list", lambda: fourier.toeplitz_psf([[0.0]], [4]))
    attempt("bad.shape_zero", lambda: fourier.toeplitz_psf(c2, [0, 4]))
    attempt("bad.shape_float", lambda: fourier.toeplitz_psf(c2, [4.0, 4.0]))
    attempt("bad.oversamp0", lambda: fourier.toeplitz_psf(c2, [4, 4], 0))
    attempt("bad.width0", lambda: fourier.toeplitz_psf(c2, [4, 4], 1.25, 0))
    attempt("bad.N.short", lambda: linop.NUFFT([4], c2, toeplitz=True).N)
    attempt(
        "bad.N.input",
        lambda: linop.NUFFT([4, 4], c2, toeplitz=True).N(np.zeros([4, 5])),
    )

    print("DIGEST", H.hexdigest())
    return 0


if __name__ == "__main__":
    sys.exit(main())
