"""Equivalence digest for sigpy.mri.samp.poisson / _poisson.

Prints a SHA256 over all results (masks are 0/1 so they are hashed exactly;
accelerations rounded to 10 significant digits; dtypes, shapes, exception
types, digests of caller-owned inputs after the call, numpy global RNG state
before/after).
"""
import hashlib
import warnings

import numpy as np

from sigpy.mri import samp

H = hashlib.sha256()
NREC = [0]
EXC = {}


def rec(*items):
    for it in items:
        if isinstance(it, np.ndarray):
            H.update(str(it.dtype).encode())
            H.update(str(it.shape).encode())
            a = np.ascontiguousarray(it)
            if a.dtype.kind in "fc":
                a = np.array([float("%.10g" % v) if np.isfinite(v) else v
                              for v in a.astype(complex).view(float).ravel()])
            H.update(a.tobytes())
        elif isinstance(it, float):
            H.update(("%.10g" % it).encode())
        else:
            H.update(repr(it).encode())
        H.update(b"|")
    NREC[0] += 1


def rng_digest():
    st = np.random.get_state()
    h = hashlib.sha256()
    h.update(st[0].encode())
    h.update(st[1].tobytes())
    h.update(repr(st[2:]).encode())
    return h.hexdigest()


def call(shape, accel, **kw):
    """Call poisson, record result or exception type."""
    before = rng_digest()
    try:
        with warnings.catch_warnings():
            warnings.simplefilter("ignore")
            m = samp.poisson(shape, accel, **kw)
    except Exception as e:  # noqa
        rec("EXC", type(e).__name__, shape, accel, sorted(kw))
        EXC[type(e).__name__] = EXC.get(type(e).__name__, 0) + 1
        m = None
    else:
        rec(m, float(np.real(m.size / np.sum(m))),
            bool(np.isin(m, (0, 1)).all()), m.flags["C_CONTIGUOUS"],
            m.flags["OWNDATA"] or m.base is not None)
    rec("rng_same", before == rng_digest())
    return m


np.random.seed(1234)
np.random.standard_normal(3)  # leave a cached gaussian in the global state

# --- spread of valid arguments ------------------------------------------
shapes = [(16, 16), (32, 32), (64, 64), (128, 128), (60, 120), (120, 60),
          (32, 128), (128, 32), (33, 47), (17, 64), (96, 64), (31, 31)]
k = 0
for shape in shapes:
    for accel in (1.5, 2, 3.3, 4, 6, 8, 12):
        k += 1
        calib = [(0, 0), (4, 4), (8, 6), (5, 7), (12, 4)][k % 5]
        kw = dict(calib=calib, seed=k % 7, crop_corner=bool(k % 2),
                  tol=(0.1, 0.2, 0.05, 0.5)[k % 4],
                  dtype=(np.complex128, float, np.float32, np.complex64,
                         np.int8, bool, np.uint16, np.float16)[k % 8])
        if k % 3 == 0:
            kw["max_attempts"] = (5, 10, 60)[k % 9 // 3]
        call(shape, accel, **kw)

# defaults and the combinations of the existing tests
for x in (60, 120):
    for y in (60, 120):
        for accel in (4, 7):
            call((x, y), accel, seed=80, tol=0.1)
call((64, 64), 4)
call((64, 64), 4)  # repeated call, same arguments
call((64, 64), accel=5, calib=(20, 20), crop_corner=False, seed=3)
call((64, 64), accel=5, calib=(20, 20), crop_corner=True, seed=3)
call((64, 64), 3, return_density=True)

# large calibration boxes, boxes close to the image size
call((32, 32), 1.6, calib=(24, 24), seed=1)
call((32, 64), 1.5, calib=(30, 20), seed=2, tol=0.3)
call((32, 32), 1.2, calib=(31, 8), seed=2, tol=0.5)
call((16, 64), 2, calib=(15, 63), seed=0, tol=2.0)

# unseeded call right after a seeded one (numba's generator continues from
# a state that is fixed by the seeded call), with a perturbed global RNG
np.random.seed(99)
call((48, 48), 4, seed=11)
call((48, 48), 4, seed=None)
call((40, 56), 3, seed=None, calib=(6, 6))
call((48, 48), 4, seed=11)

# caller-owned, mutable arguments must be left alone
shape_l = [48, 80]
calib_a = np.array([8, 10])
calib_l = [6, 4]
shape_a = np.array([64, 32])
call(shape_l, 4, calib=calib_a, seed=5)
call(shape_a, 3, calib=calib_l, seed=6)
call(tuple(np.int32(v) for v in (40, 40)), np.float32(3.5), seed=np.int64(7),
     tol=np.float64(0.2))
rec(shape_l, calib_a, calib_l, shape_a)

# --- invalid / unreachable requests --------------------------------------
call((32, 32), 1)
call((32, 32), 0.5)
call((32, 32), -3)
call((32, 32, 32), 4)
call((32,), 4)
call((16, 16), 12, calib=(8, 8))           # unreachable: calib alone > N/12
call((32, 32), 1.01, seed=1)                # unreachable: too dense
call((64, 64), 4, tol=1e-7, seed=2)         # tolerance too tight
call((32, 32), 4, tol=0.0)
call((32, 32), 4, calib=(32, 32))           # 0/0 in the normalisation
call((32, 48), 4, calib=(8, 48))            # 0/0 along one axis
call((32, 32), 4, calib=(8,))
call((32, 32), 4, calib=(40, 4))
call((32, 32), "4")
call((32, 32), 4, dtype="no-such-dtype")
call((0, 16), 4)
call((16, 0), 4)
call((32, 32), 4, seed=-1)
call((32, 32), 4, seed=2.7)
call((32, 32), 4, seed=2**32 + 5)
call((32.0, 32.0), 4)
call((32, 32), 4, crop_corner=np.array([True, False]))
call((24, 24), 3, seed=None)
call((32, 32), 4, crop_corner=np.True_, seed=1)
call((32, 32), 4, crop_corner=0, seed=1)

# --- the jitted kernel directly, with hand-made radius maps ---------------
for (nx, ny, att, cal, seed) in [(24, 16, 30, (4, 6), 3), (16, 24, 5, (0, 0), 4),
                                 (20, 20, 30, (20, 20), 1), (9, 7, 30, (3, 2), 0),
                                 (1, 1, 30, (0, 0), 0), (2, 1, 30, (0, 0), 0),
                                 (32, 32, 1, (0, 0), 9), (32, 32, 0, (4, 4), 9)]:
    yy, xx = np.mgrid[:ny, :nx]
    rx = 1.0 + 0.15 * np.abs(xx - nx / 2) + 0.05 * yy
    ry = 1.0 + 0.10 * np.abs(yy - ny / 2) + 0.02 * xx
    rx0, ry0 = rx.copy(), ry.copy()
    m = samp._poisson(nx, ny, att, rx, ry, cal, seed)
    rec(m, bool((rx == rx0).all() and (ry == ry0).all()))
    m2 = samp._poisson(nx, ny, att, rx, ry, cal, None)  # continues the stream
    rec(m2)
    m3 = samp._poisson(nx, ny, att, np.ones((ny, nx)), np.ones((ny, nx)),
                       cal, seed)
    rec(m3)

rec("final_rng", rng_digest())
print("records:", NREC[0], "exceptions:", sorted(EXC.items()))
print("DIGEST", H.hexdigest())
