"""C15 / n2 equivalence demo: ConjugateGradient._update() control flow.

Drives ConjugateGradient (directly, and through LinearLeastSquares with the
CG and ADMM solvers, GerchbergSaxton and SDMM, which all run CG inside) on a
spread of instances and prints one SHA256 digest of everything observable:
per-update iter / done() / resid / not_positive_definite / alpha / rzold and
the arrays x, r, p (10 significant digits, dtype, shape), exception types for
invalid inputs, and the caller's input arrays after the run.
"""
import hashlib
import os
import warnings

import numpy as np

from sigpy import alg, app, linop

warnings.simplefilter("ignore")
np.seterr(all="ignore")
H = hashlib.sha256()
NREC = [0]
VERBOSE_KEYS = ("EXC", "EXC2", "constructed", "invalid")


def fmt(v):
    v = float(v) + 0.0
    return "%.9e" % v


def rec(*items):
    for it in items:
        NREC[0] += 1
        if isinstance(it, np.ndarray):
            H.update(("A|%s|%s|" % (it.dtype.name, it.shape)).encode())
            flat = np.asarray(it).ravel()
            if np.iscomplexobj(flat):
                s = ",".join(fmt(c.real) + "/" + fmt(c.imag) for c in flat)
            else:
                s = ",".join(fmt(c) for c in flat)
            H.update(s.encode())
        elif isinstance(it, (bool, np.bool_)):
            H.update(("B|%s|" % bool(it)).encode())
        elif isinstance(it, (int, np.integer)):
            H.update(("I|%d|" % int(it)).encode())
        elif isinstance(it, (float, np.floating)):
            H.update(("F|%s|%s|" % (type(it).__name__, fmt(it))).encode())
        elif isinstance(it, (complex, np.complexfloating)):
            H.update(
                ("C|%s|%s|%s|" % (type(it).__name__, fmt(it.real), fmt(it.imag))).encode()
            )
        else:
            H.update(("S|%s|" % (it,)).encode())
            if os.environ.get("DEMO_VERBOSE") and it in VERBOSE_KEYS:
                print("  rec:", items)


def state(m):
    rec(m.iter, m.done(), m.resid, m.not_positive_definite, m.rzold)
    rec(m.x, m.r, m.p)
    rec("alpha", getattr(m, "alpha", "unset"))
    rec("p_is_r", m.p is m.r)


def drive(m, extra=2):
    """canonical loop, then `extra` more updates, interleaving done() calls."""
    state(m)
    n = 0
    while not m.done():
        m.update()
        n += 1
        state(m)
        if n > 200:
            break
    rec("updates", n)
    for _ in range(extra):
        m.done()
        m.update()
        m.done()
        state(m)


rng = np.random.RandomState(7)


def make_problem(n, dtype, kind):
    cplx = np.issubdtype(dtype, np.complexfloating)
    B = rng.randn(n + 2, n)
    if cplx:
        B = B + 1j * rng.randn(n + 2, n)
    if kind == "spd":
        Q = B.conj().T @ B + 0.3 * np.eye(n)
    elif kind == "indef":
        w = np.linspace(-1, 2, n)
        U = np.linalg.qr(B[:n, :])[0]
        Q = (U * w) @ U.conj().T
    elif kind == "negdef":
        Q = -(B.conj().T @ B + 0.3 * np.eye(n))
    elif kind == "singular":
        B[:, -1] = 0
        Q = B.conj().T @ B
    elif kind == "zero":
        Q = np.zeros((n, n))
    elif kind == "nan":
        Q = B.conj().T @ B
        Q[0, 0] = np.nan
    Q = Q.astype(dtype)
    b = rng.randn(n)
    if cplx:
        b = b + 1j * rng.randn(n)
    return Q, b.astype(dtype)


# 1. bare algorithm: dtypes x operator kinds x max_iter x tol x precond x shape
for dtype in [np.float64, np.float32, np.complex128, np.complex64]:
    for kind in ["spd", "indef", "negdef", "singular", "zero", "nan"]:
        for n in [1, 2, 5]:
            Q, b = make_problem(n, dtype, kind)
            for max_iter in [0, 1, 2, 3, 30]:
                for tol in [0, 1e-3]:
                    for use_P in [False, True]:
                        for shape in [(n,), (n, 1)]:
                            rec("case", np.dtype(dtype).name, kind, n, max_iter, tol, use_P, len(shape))
                            Qc, bc = Q.copy(), b.reshape(shape).copy()
                            x = np.zeros(shape, dtype=dtype)
                            d = (1 / np.maximum(np.abs(np.diag(Q)), 0.1)).reshape(shape)
                            d = np.nan_to_num(d).astype(Q.real.dtype)
                            P = (lambda v, d=d: d * v) if use_P else None
                            A = lambda v, Qc=Qc, shape=shape: (Qc @ v.reshape(-1)).reshape(shape)
                            try:
                                m = alg.ConjugateGradient(A, bc, x, P=P, max_iter=max_iter, tol=tol)
                                drive(m)
                                rec("x_is_caller", m.x is x)
                            except Exception as e:  # noqa
                                rec("EXC", type(e).__name__)
                            rec(x, bc, Qc, d)

# 2. special starts: exact initial point, b = 0, warm start, multi-dim x
Q, b = make_problem(4, np.float64, "spd")
for name, x0, bb in [
    ("exact", np.linalg.solve(Q, b), b),
    ("bzero", np.zeros(4), np.zeros(4)),
    ("warm", np.ones(4), b),
    ("bzero_warm", np.ones(4), np.zeros(4)),
]:
    for max_iter in [0, 1, 4, 10]:
        rec("special", name, max_iter)
        x = x0.copy()
        m = alg.ConjugateGradient(lambda v: Q @ v, bb.copy(), x, max_iter=max_iter)
        drive(m)
        rec(x)
W = rng.rand(2, 3) + 0.5
xb = rng.randn(2, 3) + 1j * rng.randn(2, 3)
x = np.zeros((2, 3), dtype=complex)
m = alg.ConjugateGradient(linop.Multiply((2, 3), W), xb.copy(), x, P=linop.Multiply((2, 3), 1 / W), max_iter=5)
drive(m)
rec(x, W, xb)

# 3. invalid inputs
Q, b = make_problem(3, np.float64, "spd")
bad = [
    ("shape", lambda: alg.ConjugateGradient(lambda v: Q @ v, b, np.zeros(4), max_iter=3)),
    ("intx", lambda: alg.ConjugateGradient(lambda v: Q @ v, b, np.zeros(3, dtype=int), max_iter=3)),
    ("realx_cplxb", lambda: alg.ConjugateGradient(lambda v: Q @ v, b + 1j, np.zeros(3), max_iter=3)),
    ("Awrong", lambda: alg.ConjugateGradient(lambda v: (Q @ v)[:2], b, np.zeros(3), max_iter=3)),
    ("Pwrong", lambda: alg.ConjugateGradient(lambda v: Q @ v, b, np.zeros(3), P=lambda v: v[:2], max_iter=3)),
    ("Anone", lambda: alg.ConjugateGradient(None, b, np.zeros(3), max_iter=3)),
    ("max_iter_none", lambda: alg.ConjugateGradient(lambda v: Q @ v, b, np.zeros(3), max_iter=None)),
    ("tol_none", lambda: alg.ConjugateGradient(lambda v: Q @ v, b, np.zeros(3), max_iter=3, tol=None)),
]
for name, mk in bad:
    rec("invalid", name)
    try:
        m = mk()
        rec("constructed")
        for _ in range(3):
            rec(m.done())
            m.update()
            rec(m.iter, m.x)
    except Exception as e:  # noqa
        rec("EXC", type(e).__name__)

# 4. through the Apps / algorithms that embed CG
n = 5
for dtype in [np.float64, np.complex64]:
    mat = rng.randn(n + 1, n).astype(dtype)
    if np.issubdtype(dtype, np.complexfloating):
        mat = (mat + 1j * rng.randn(n + 1, n)).astype(dtype)
    A = linop.MatMul([n, 1], mat)
    y = (mat @ rng.randn(n, 1)).astype(dtype)
    for solver in ["ConjugateGradient", "ADMM"]:
        for lamda in [0, 0.2]:
            for max_iter in [0, 1, 7]:
                rec("lls", np.dtype(dtype).name, solver, lamda, max_iter)
                a = app.LinearLeastSquares(
                    A, y.copy(), lamda=lamda, solver=solver, max_iter=max_iter,
                    max_cg_iter=3, show_pbar=False,
                )
                out = a.run()
                rec(out, a.alg.iter, a.alg.done(), out is a.x)
    P = linop.Multiply([n, 1], (1 / np.sum(np.abs(mat) ** 2, axis=0)).reshape(n, 1))
    a = app.LinearLeastSquares(A, y.copy(), P=P, max_iter=4, show_pbar=False)
    rec(a.run(), a.alg.resid, a.alg.iter)
    rec(mat, y)

mat = (np.eye(6) + 0.1 * np.ones((6, 6))).astype(np.complex64)
A = linop.MatMul([6, 1], mat)
yy = np.abs(mat @ np.arange(6).reshape(6, 1)).astype(np.complex64)
gs = alg.GerchbergSaxton(A, yy, np.zeros((6, 1), dtype=np.complex128), max_iter=4, tol=1e-9, lamb=0.1)
while not gs.done():
    gs.update()
    rec(gs.iter, gs.x, gs.residual)

Ms = rng.randn(6, 4) + 1j * rng.randn(6, 4)
As = linop.MatMul([4, 1], Ms)
ds = Ms @ (rng.randn(4, 1) + 1j * rng.randn(4, 1))
sd = alg.SDMM(As, ds, 0.1, [np.eye(4)], [0.5], 1.0, [1.0], 1.0, 2.0, c_max=0.3, c_norm=0.5, max_cg_iter=4, max_iter=3)
while not sd.done():
    sd.update()
    rec(sd.iter, sd.x, sd.stop)

print("records:", NREC[0])
print("DIGEST", H.hexdigest())
