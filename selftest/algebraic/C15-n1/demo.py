"""C15 / n1 equivalence demo: SDMM stopping-criterion block of SDMM._update().

Runs SDMM on a spread of configurations (no constraint, list-of-L constraints,
c_max, c_norm, all together; real/complex data of several dtypes and sizes;
eps_pri/eps_dual from 0 to inf and NaN so that the stop flag flips at
different iterations; max_iter 0..; extra updates after done()) and prints one
SHA256 digest of: per-update iter / stop / done(), x, every z and u (values to
10 significant digits, dtype, shape), exception types for invalid inputs, and
the caller's input arrays after the run.
"""
import hashlib
import os
import warnings

import numpy as np

from sigpy import alg, linop

warnings.simplefilter("ignore")
np.seterr(all="ignore")
H = hashlib.sha256()
NREC = [0]
VERBOSE_KEYS = ("EXC", "EXC2", "constructed", "invalid")


def fmt(v):
    v = float(v) + 0.0
    return "%.9e" % v


def rec(*items):
    for it in items:
        NREC[0] += 1
        if isinstance(it, np.ndarray):
            H.update(("A|%s|%s|" % (it.dtype.name, it.shape)).encode())
            flat = np.asarray(it).ravel()
            if np.iscomplexobj(flat):
                s = ",".join(fmt(c.real) + "/" + fmt(c.imag) for c in flat)
            else:
                s = ",".join(fmt(c) for c in flat)
            H.update(s.encode())
        elif isinstance(it, (bool, np.bool_)):
            H.update(("B|%s|%s|" % (type(it).__name__, bool(it))).encode())
        elif isinstance(it, (int, np.integer)):
            H.update(("I|%d|" % int(it)).encode())
        elif isinstance(it, (float, np.floating)):
            H.update(("F|%s|%s|" % (type(it).__name__, fmt(it))).encode())
        else:
            H.update(("S|%s|" % (it,)).encode())
            if os.environ.get("DEMO_VERBOSE") and it in VERBOSE_KEYS:
                print("  rec:", items)


def state(m):
    rec(m.iter, m.stop, m.done(), m.x)
    for z in m.z:
        rec(z)
    for u in m.u:
        rec(u)
    for name in ["zMax", "uMax", "zNorm", "uNorm"]:
        if hasattr(m, name):
            rec(name, getattr(m, name))


def drive(m, extra=2):
    state(m)
    n = 0
    while not m.done():
        m.update()
        n += 1
        state(m)
    rec("updates", n)
    for _ in range(extra):
        m.done()
        m.update()
        state(m)


rng = np.random.RandomState(3)
EPS = [
    (1e-5, 1e-2),
    (0, 0),
    (10, 10),
    (0.3, 10),
    (10, 0.05),
    (1.0, 1.0),
    (0.05, 0.5),
    (np.inf, 0),
    (0, np.inf),
    (np.nan, np.nan),
    (np.float32(0.5), 2),
]

for dtype in [np.complex128, np.complex64, np.float64, np.float32]:
    cplx = np.issubdtype(dtype, np.complexfloating)
    for n in [1, 3, 4]:
        M = rng.randn(n + 2, n)
        xt = rng.randn(n, 1)
        if cplx:
            M = M + 1j * rng.randn(n + 2, n)
            xt = xt + 1j * rng.randn(n, 1)
        M = M.astype(dtype)
        d = (M @ xt).astype(dtype)
        A = linop.MatMul([n, 1], M)
        L1 = np.eye(n)
        L2 = rng.randn(n, n)
        L3 = (rng.randn(n, n) + 1j * rng.randn(n, n)) if cplx else rng.randn(n, n)
        configs = [
            dict(L=[], c=[]),
            dict(L=[L1], c=[0.5]),
            dict(L=[L1, L2], c=[0.5, 2.0]),
            dict(L=[L2, L3, L1], c=[1e-3, 5.0, 0.2]),
            dict(L=[], c=[], c_max=0.2),
            dict(L=[], c=[], c_norm=0.5),
            dict(L=[], c=[], c_norm=0.5, c_max=0.3),
            dict(L=[L1], c=[0.1], c_max=0.2),
            dict(L=[L2, L1], c=[0.7, 0.1], c_norm=1e3, c_max=1e3),
        ]
        for ci, kw in enumerate(configs):
            for eps in EPS:
                for max_iter in [0, 1, 5]:
                    rec("case", np.dtype(dtype).name, n, ci, str(eps), max_iter)
                    Ls = [L.copy() for L in kw["L"]]
                    kw2 = dict(kw, L=Ls)
                    dc = d.copy()
                    try:
                        m = alg.SDMM(
                            A, dc, 0.1, mu=1.0, rho=[1.0, 0.5, 2.0],
                            rho_max=1.0, rho_norm=2.0,
                            eps_pri=eps[0], eps_dual=eps[1],
                            max_cg_iter=4, max_iter=max_iter, **kw2
                        )
                        drive(m)
                    except Exception as e:  # noqa
                        rec("EXC", type(e).__name__)
                    rec(dc, M)
                    for L in Ls:
                        rec(L)

# invalid / unusual inputs
n = 3
M = rng.randn(5, n) + 1j * rng.randn(5, n)
A = linop.MatMul([n, 1], M)
d = M @ (rng.randn(n, 1) + 1j * rng.randn(n, 1))
base = dict(mu=1.0, rho=[1.0, 1.0], rho_max=1.0, rho_norm=1.0, max_cg_iter=3, max_iter=3)
bad = [
    ("nonsquare_L", dict(L=[rng.randn(2, n)], c=[0.5])),
    ("wide_L", dict(L=[rng.randn(n + 1, n)], c=[0.5])),
    ("wrong_L", dict(L=[rng.randn(n, n + 1)], c=[0.5])),
    ("short_c", dict(L=[np.eye(n), np.eye(n)], c=[0.5])),
    ("short_rho", dict(L=[np.eye(n)] * 3, c=[0.5] * 3)),
    ("eps_none", dict(L=[np.eye(n)], c=[0.5], eps_pri=None)),
    ("eps_dual_none", dict(L=[np.eye(n)], c=[0.5], eps_pri=1e9, eps_dual=None)),
    ("eps_dual_none_cmax", dict(L=[], c=[], c_max=0.1, eps_pri=0, eps_dual=None)),
    ("eps_str", dict(L=[], c=[], c_norm=0.1, eps_pri="a")),
    ("rho_zero", dict(L=[np.eye(n)], c=[0.5], rho=[0.0])),
    ("rho_max_zero", dict(L=[], c=[], c_max=0.1, rho_max=0)),
    ("neg_c", dict(L=[np.eye(n)], c=[-1.0])),
    ("d_row", dict(L=[], c=[], d=d.T)),
]
for name, kw in bad:
    rec("invalid", name)
    kw = dict(base, **kw)
    dd = kw.pop("d", d).copy()
    try:
        m = alg.SDMM(A, dd, 0.1, **kw)
        rec("constructed")
        drive(m)
    except Exception as e:  # noqa
        rec("EXC", type(e).__name__)
        try:
            rec("stop_after_exc", m.stop, m.iter)
        except Exception as e2:  # noqa
            rec("EXC2", type(e2).__name__)
    rec(dd)

print("records:", NREC[0])
print("DIGEST", H.hexdigest())
