"""C16 / round 5 / n2 - equivalence demonstration.

Exercises the code touched by the boolean / integer identity rewrite:
broadcast-shape validation and adjoint sum axes of Multiply / MatMul /
RightMatMul (Multiply(mps) and its coil-summing adjoint are the "S" of SENSE),
the header of mri.linop.Sense (image shape / dimension, batch switch), and the
even-size padding of the wavelet transform (L1WaveletRecon).

Prints a SHA256 digest of all results (values rounded to 10 significant
digits, dtypes, shapes, exception types, and a digest of the caller's input
arrays after the calls).  The digest must be identical on the pristine and on
the changed tree.
"""
import hashlib
import itertools
import sys

import numpy as np

import sigpy as sp
import sigpy.mri as mr
from sigpy import wavelet

H = hashlib.sha256()
COUNT = [0]


def put(tag, obj):
    COUNT[0] += 1
    H.update(("|%s:" % tag).encode())
    if isinstance(obj, np.ndarray):
        H.update(("%s%s" % (obj.dtype, obj.shape)).encode())
        a = np.asarray(obj).ravel()
        if np.iscomplexobj(a):
            parts = np.stack([a.real, a.imag], 1).ravel().astype(np.float64)
        elif a.dtype.kind in "iub":
            H.update(",".join(str(int(v)) for v in a).encode())
            return
        else:
            parts = a.astype(np.float64)
        H.update(",".join("%.9e" % (v + 0.0) for v in parts).encode())
    elif isinstance(obj, (list, tuple)):
        H.update(("%s[" % type(obj).__name__).encode())
        for o in obj:
            put("e", o)
        H.update(b"]")
    elif isinstance(obj, (int, np.integer)):
        H.update(("int%d" % int(obj)).encode())
    elif isinstance(obj, (float, np.floating)):
        H.update(("%.9e" % float(obj)).encode())
    else:
        H.update(repr(obj).encode())


def attempt(tag, fn):
    try:
        put(tag, fn())
    except BaseException as e:  # noqa
        chain = []
        while e is not None:
            chain.append(type(e).__name__)
            e = e.__cause__
        put(tag + ":exc", ">".join(chain))


def randc(rng, shape, dtype):
    shape = tuple(shape)
    if np.dtype(dtype).kind == "c":
        return np.asarray(rng.randn(*shape) + 1j * rng.randn(*shape)).astype(
            dtype
        )
    return np.asarray(rng.randn(*shape)).astype(dtype)


def apply_all(tag, A, rng, dtype):
    x = randc(rng, A.ishape, dtype)
    y = randc(rng, A.oshape, dtype)
    x0, y0 = x.copy(), y.copy()
    put(tag + ":shapes", [list(A.oshape), list(A.ishape)])
    for rep in range(2):
        attempt(tag + ":fwd%d" % rep, lambda: A * x)
        attempt(tag + ":adj%d" % rep, lambda: A.H * y)
        attempt(tag + ":nrm%d" % rep, lambda: A.N * x)
    put(tag + ":x_after", x)
    put(tag + ":y_after", y)
    put(tag + ":unchanged", bool(np.array_equal(x, x0) and np.array_equal(y, y0)))


def multiply_cases(rng):
    dims = [1, 2, 3]
    shapes = [()] + [(a,) for a in dims] + list(itertools.product(dims, dims))
    shapes += [(2, 1, 3), (1, 1, 3), (3, 2, 1), (1, 1, 1), (2, 3, 3)]
    for ishape in shapes:
        for mshape in shapes:
            tag = "mult:%s:%s" % (ishape, mshape)

            def make():
                return sp.linop.Multiply(
                    list(ishape), randc(rng, mshape, np.complex128)
                )

            try:
                A = make()
            except BaseException as e:  # noqa
                put(tag + ":ctor_exc", type(e).__name__)
                continue
            apply_all(tag, A, rng, np.complex128)

    # scalar multipliers, conj, dtypes
    for dtype in (np.float32, np.float64, np.complex64, np.complex128):
        for mult in (1, 2.5, 1 + 2j, np.float32(3)):
            A = sp.linop.Multiply([2, 3], mult)
            apply_all("mult:scalar:%s:%r" % (np.dtype(dtype), mult), A, rng, dtype)
        m = randc(rng, (4, 1, 3), dtype)
        apply_all("mult:bc:%s" % np.dtype(dtype), sp.linop.Multiply([2, 3], m), rng, dtype)
        put("m_after", m)

    # zero-size and odd requests
    for ishape, mshape in [((0, 3), (3,)), ((2, 3), (0, 3)), ((2, 3), (2, 0)), ((1, 3), (0, 3))]:
        attempt(
            "mult:zero:%s:%s" % (ishape, mshape),
            lambda: sp.linop.Multiply(list(ishape), np.zeros(mshape)).oshape,
        )
    attempt("mult:float_shape", lambda: sp.linop.Multiply([2.0, 3], np.ones((2, 3))).oshape)
    attempt("mult:nan_shape", lambda: sp.linop.Multiply([float("nan"), 3], np.ones((2, 3))).oshape)


def matmul_cases(rng):
    cases = [
        ((3, 2), (4, 3)),
        ((5, 3, 2), (4, 3)),
        ((5, 3, 2), (5, 4, 3)),
        ((1, 3, 2), (5, 4, 3)),
        ((5, 3, 2), (1, 4, 3)),
        ((3, 2), (6, 1, 4, 3)),
        ((2, 1, 3, 2), (1, 5, 4, 3)),
        ((1, 1, 3, 2), (1, 1, 4, 3)),
        ((4, 3, 2), (5, 4, 3)),  # invalid batch
        ((3, 2), (4, 5)),  # invalid inner
    ]
    for ishape, mshape in cases:
        for dtype in (np.float64, np.complex128):
            tag = "matmul:%s:%s:%s" % (ishape, mshape, np.dtype(dtype))
            try:
                A = sp.linop.MatMul(list(ishape), randc(rng, mshape, dtype))
            except BaseException as e:  # noqa
                put(tag + ":ctor_exc", type(e).__name__)
                continue
            apply_all(tag, A, rng, dtype)

    cases = [
        ((2, 3), (3, 4)),
        ((5, 2, 3), (3, 4)),
        ((5, 2, 3), (5, 3, 4)),
        ((1, 2, 3), (5, 3, 4)),
        ((5, 2, 3), (1, 3, 4)),
        ((2, 3), (6, 1, 3, 4)),
        ((1, 1, 2, 3), (1, 1, 3, 4)),
        ((4, 2, 3), (5, 3, 4)),  # invalid batch
        ((2, 3), (5, 4)),  # invalid inner
    ]
    for ishape, mshape in cases:
        for dtype in (np.float64, np.complex128):
            tag = "rmatmul:%s:%s:%s" % (ishape, mshape, np.dtype(dtype))
            try:
                A = sp.linop.RightMatMul(list(ishape), randc(rng, mshape, dtype))
            except BaseException as e:  # noqa
                put(tag + ":ctor_exc", type(e).__name__)
                continue
            apply_all(tag, A, rng, dtype)


def sense_cases(rng):
    configs = [
        (4, (6, 5)),
        (3, (5, 5)),
        (1, (4, 4)),  # single coil
        (2, (1, 4)),  # size-1 image axis
        (3, (4, 1)),
        (1, (1, 1)),
        (3, (2, 3, 4)),  # 3-D
        (2, (1, 3, 4)),
        (4, (7,)),  # 1-D
    ]
    for dtype in (np.complex128, np.complex64):
        for nc, ishape in configs:
            mps = randc(rng, (nc,) + ishape, dtype)
            w = rng.rand(*ishape) + 0.1
            for weights in (None, w):
                for bs in (None, 1, 2, nc, nc + 3):
                    for ish in (None, list(ishape), tuple(ishape)):
                        tag = "sense:%s:%d:%s:%s:%s:%s" % (
                            np.dtype(dtype), nc, ishape, weights is None, bs,
                            type(ish).__name__,
                        )
                        try:
                            A = mr.linop.Sense(
                                mps, weights=weights, coil_batch_size=bs, ishape=ish
                            )
                        except BaseException as e:  # noqa
                            put(tag + ":ctor_exc", type(e).__name__)
                            continue
                        put(tag + ":repr", repr(A))
                        apply_all(tag, A, rng, dtype)
            put("mps_after", mps)

    # non-Cartesian, ishape None / given
    nc, ishape = 3, (6, 5)
    mps = randc(rng, (nc,) + ishape, np.complex128)
    coord = (rng.rand(11, 2) - 0.5) * np.asarray(ishape)
    for bs in (None, 1, 2):
        for ish in (None, ishape):
            A = mr.linop.Sense(mps, coord=coord, coil_batch_size=bs, ishape=ish)
            apply_all("ncsense:%s:%s" % (bs, ish), A, rng, np.complex128)

    # ishape that differs from mps.shape[1:] (broadcast maps) and invalid ones
    mps_b = randc(rng, (3, 1, 5), np.complex128)
    for ish in ([4, 5], [1, 5], [2, 4, 5], [5], [3, 5], [4, 4], []):
        for bs in (None, 2):
            attempt(
                "sense:ishape:%s:%s" % (ish, bs),
                lambda: mr.linop.Sense(mps_b, ishape=ish, coil_batch_size=bs)
                * randc(rng, ish, np.complex128),
            )
    for bad in (None, 3.0, np.zeros(()), [1, 2, 3]):
        attempt("sense:badmps:%r" % (bad,), lambda: mr.linop.Sense(bad))
        attempt("sense:badmps:ishape:%r" % (bad,), lambda: mr.linop.Sense(bad, ishape=[2]))
    for bs in (0, -1, -50, 2.0, float("nan"), "2"):
        attempt(
            "sense:badbs:%r" % (bs,),
            lambda: mr.linop.Sense(mps, coil_batch_size=bs)
            * randc(rng, ishape, np.complex128),
        )


def wavelet_cases(rng):
    shapes = [(8,), (7,), (1,), (2,), (9, 6), (8, 8), (5, 7), (1, 6), (6, 1), (3, 4, 5), (16, 15)]
    for shape in shapes:
        for dtype in (np.float32, np.float64, np.complex64, np.complex128):
            x = randc(rng, shape, dtype)
            x0 = x.copy()
            for wave_name in ("db4", "haar", "sym3"):
                for axes in (None, (0,), (-1,)):
                    for level in (None, 1):
                        tag = "wav:%s:%s:%s:%s:%s" % (shape, np.dtype(dtype), wave_name, axes, level)
                        attempt(tag + ":shape", lambda: list(
                            wavelet.get_wavelet_shape(shape, wave_name, axes, level)[0]))
                        attempt(tag + ":slices", lambda: repr(
                            wavelet.get_wavelet_shape(shape, wave_name, axes, level)[1]))
                        attempt(tag + ":fwt", lambda: wavelet.fwt(x, wave_name, axes, level))

                        def roundtrip():
                            W = sp.linop.Wavelet(shape, axes=axes, wave_name=wave_name, level=level)
                            c = W * x
                            return [c, W.H * c, W.H * randc(rng, W.oshape, dtype)]

                        attempt(tag + ":linop", roundtrip)
            put("x_unchanged", bool(np.array_equal(x, x0)))

    for shape in [(0,), (0, 4), (5.0,), (5.5,), (-3,), ()]:
        attempt("wav:badshape:%s" % (shape,), lambda: list(wavelet.get_wavelet_shape(shape)[0]))
    attempt("wav:bad:name", lambda: wavelet.fwt(np.zeros((4, 4)), wave_name="nope"))
    attempt("wav:bad:axes", lambda: wavelet.fwt(np.zeros((4, 4)), axes=(3,)))
    attempt("wav:zero:size", lambda: wavelet.fwt(np.zeros((0, 4))))
    attempt("wav:scalar", lambda: wavelet.fwt(np.zeros(())))


def recon_cases(rng):
    for nc, ishape in [(3, (8, 8)), (4, (7, 6))]:
        ny, nx = ishape
        yy, xx = np.mgrid[:ny, :nx]
        mps = np.stack(
            [
                np.exp(-((yy - (2 * c) % ny) ** 2 + (xx - (3 * c) % nx) ** 2) / 40.0)
                * np.exp(0.3j * (c + xx))
                for c in range(nc)
            ]
        )
        img = randc(rng, ishape, np.complex128)
        mask = np.ones(ishape)
        mask[:, 1::3] = 0
        ksp = mask * sp.fft(mps * img, axes=[-2, -1])
        ksp0, mps0 = ksp.copy(), mps.copy()
        for bs in (None, 2):
            for wave_name in ("haar", "db4"):
                for solver in ("GradientMethod", "PrimalDualHybridGradient", "ADMM"):
                    np.random.seed(7)
                    put(
                        "l1wav:%s:%s:%s:%s" % (ishape, bs, wave_name, solver),
                        mr.app.L1WaveletRecon(
                            ksp, mps, 0.03, coil_batch_size=bs, wave_name=wave_name,
                            solver=solver, max_iter=25, show_pbar=False,
                        ).run(),
                    )
            np.random.seed(7)
            put(
                "sense:%s:%s" % (ishape, bs),
                mr.app.SenseRecon(
                    ksp, mps, lamda=0.01, coil_batch_size=bs, max_iter=25, show_pbar=False
                ).run(),
            )
            np.random.seed(7)
            put(
                "tv:%s:%s" % (ishape, bs),
                mr.app.TotalVariationRecon(
                    ksp, mps, 0.03, coil_batch_size=bs, max_iter=25, show_pbar=False
                ).run(),
            )
        put("inputs_unchanged", bool(np.array_equal(ksp, ksp0) and np.array_equal(mps, mps0)))
        put("ksp_after", ksp)


def main():
    rng = np.random.RandomState(51602)
    multiply_cases(rng)
    matmul_cases(rng)
    sense_cases(rng)
    wavelet_cases(rng)
    recon_cases(rng)
    print("items hashed:", COUNT[0])
    print("DIGEST", H.hexdigest())
    return 0


if __name__ == "__main__":
    sys.exit(main())
