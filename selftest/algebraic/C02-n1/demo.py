"""C02 / round 5 / n1 -- equivalence demo for the vectorised
util.circshift (one multi-axis roll) and util.flip (slice steps built by a
comprehension).

Exercises util.circshift, util.flip, linop.Circshift (with .H, .H.H, .N),
linop.Flip and linop.FiniteDifference on real/complex/integer/bool data of
several dtypes, 0-d to 4-d shapes, C / Fortran / strided / zero-size inputs,
negative, repeated and empty axes, zero, negative, huge and float shifts,
repeated calls, and invalid inputs.  Prints a SHA256 digest of all results
(values to 10 significant digits, dtypes, shapes, contiguity flags, aliasing
with the input, exception types, digest of the caller's input after the
call).
"""
import hashlib
import sys
import warnings

import numpy as np

import sigpy as sp
from sigpy import linop, util

warnings.simplefilter("ignore")

H = hashlib.sha256()
NITEMS = [0]
NEXC = [0]


def put(*items):
    if "EXC" in items:
        NEXC[0] += 1
    for it in items:
        H.update(repr(it).encode())
        H.update(b"|")
    NITEMS[0] += 1


def fmt(a):
    a = np.asarray(a)
    if np.issubdtype(a.dtype, np.complexfloating):
        parts = np.stack([a.real, a.imag], -1).ravel()
    else:
        parts = a.ravel()
    if np.issubdtype(parts.dtype, np.floating):
        return ",".join("%.9e" % (float(v) + 0.0) for v in parts)
    return ",".join(str(v) for v in parts.tolist())


def put_array(tag, a):
    a = np.asarray(a)
    put(tag, str(a.dtype), tuple(a.shape), bool(a.flags.c_contiguous),
        bool(a.flags.f_contiguous), fmt(a))


def rand(rng, shape, dtype):
    dtype = np.dtype(dtype)
    if dtype.kind == "c":
        x = rng.standard_normal(shape) + 1j * rng.standard_normal(shape)
    elif dtype.kind == "f":
        x = rng.standard_normal(shape)
    elif dtype.kind == "b":
        x = rng.standard_normal(shape) > 0
    else:
        x = rng.randint(-50, 50, size=shape)
    return np.asarray(x).astype(dtype)


def call(tag, f, x):
    snap = x.copy() if isinstance(x, np.ndarray) else None
    try:
        y1 = f(x)
        y2 = f(x)
        put_array(tag, y1)
        put("again equal", bool(np.array_equal(y1, y2)),
            "same object", y1 is x,
            "aliases input",
            bool(isinstance(x, np.ndarray) and np.shares_memory(y1, x)),
            "type", type(y1).__name__)
    except Exception as e:  # noqa
        cause = e.__cause__
        put(tag, "EXC", type(e).__name__, type(cause).__name__)
    if snap is not None:
        put_array("input after", x)
        put("input unchanged", bool(np.array_equal(x, snap)))


def main():
    rng = np.random.RandomState(99)
    dtypes = [np.float32, np.float64, np.complex64, np.complex128, np.int64,
              np.bool_]

    # ---- util.circshift -------------------------------------------------
    cases = [
        # shape, shifts, axes
        ([6], [1], None),
        ([6], [0], None),
        ([6], [-2], [0]),
        ([6], [13], [-1]),
        ([6], [-600001], [0]),
        ([4, 5], [1, 2], None),
        ([4, 5], [2], [-1]),
        ([4, 5], [1], [-2]),
        ([4, 5], [3, -1], [1, 0]),
        ([4, 5], [3, -1], [-1, -2]),
        ([4, 5], [1, 2, 3], [0, 0, 1]),      # repeated axis
        ([4, 5], [1, 1], [1, -1]),           # same axis, two spellings
        ([4, 5], (2, 2), (0, 1)),
        ([4, 5], [], []),                    # nothing to shift
        ([4, 5], (), ()),
        ([3, 4, 5], [1, -1, 2], None),
        ([3, 4, 5], [2, 2], [0, 2]),
        ([3, 4, 5], [7], [1]),
        ([2, 3, 4, 5], [1, 1, 1, 1], None),
        ([2, 3, 4, 5], [1, -3], (-1, 1)),
        ([1], [5], None),
        ([1, 1], [1, 1], None),
        ([0], [1], None),                    # zero-size
        ([3, 0], [1, 1], None),
        ([4, 5], np.array([1, 2]), np.array([0, 1])),
        ([4, 5], [np.int64(1), np.int32(-2)], range(2)),
        ([4, 5], [1.0, 2.0], None),          # float shifts
        ([4, 5], [1.7, -0.5], None),
        ([4, 5], [True, False], None),
    ]
    for shape, shifts, axes in cases:
        for dt in dtypes:
            x = rand(rng, shape, dt)
            tag = "circshift %s %r %r %s" % (shape, shifts, axes,
                                             np.dtype(dt))
            call(tag, lambda v: util.circshift(v, shifts, axes), x)

    # layouts
    base = rand(rng, [6, 8], np.complex128)
    for name, x in (("fortran", np.asfortranarray(base)),
                    ("strided", base[::2, 1::3]),
                    ("transposed", base.T),
                    ("negstride", base[::-1, ::-1]),
                    ("broadcast", np.broadcast_to(base[0], (3, 8)))):
        call("circshift layout " + name,
             lambda v: util.circshift(v, [1, -2], None), x)
        call("circshift layout1 " + name,
             lambda v: util.circshift(v, [2], [1]), x)
        call("flip layout " + name, lambda v: util.flip(v, [0]), x)
    # 0-d
    call("circshift 0d", lambda v: util.circshift(v, [], None),
         np.array(3.5))
    call("flip 0d", lambda v: util.flip(v), np.array(3.5))

    # invalid
    x = rand(rng, [4, 5], np.float64)
    for tag, sh, ax in (("len mismatch", [1], None),
                        ("len mismatch2", [1, 2], [0]),
                        ("axis out of range", [1], [2]),
                        ("axis out of range neg", [1, 1], [0, -3]),
                        ("second axis bad", [1, 1], [1, 5]),
                        ("str shift", ["a"], [0]),
                        ("none shift", [None], [0]),
                        ("float axis", [1], [0.5]),
                        ("shifts not sized", 1, [0]),
                        ("axes not sized", [1], 0)):
        call("circshift invalid " + tag,
             lambda v: util.circshift(v, sh, ax), x)
    try:
        util.circshift([1, 2, 3], [1], None)
        put("list input", "OK")
    except Exception as e:  # noqa
        put("list input", "EXC", type(e).__name__)
    try:
        r = util.circshift([1, 2, 3], [1], [0])
        put_array("list input axes", r)
    except Exception as e:  # noqa
        put("list input axes", "EXC", type(e).__name__)
    try:
        r = util.circshift([1, 2, 3], [], [])
        put("list input empty", type(r).__name__, repr(r))
    except Exception as e:  # noqa
        put("list input empty", "EXC", type(e).__name__)

    # ---- util.flip ------------------------------------------------------
    fcases = [([6], None), ([6], [0]), ([6], [-1]), ([6], []), ([6], ()),
              ([4, 5], None), ([4, 5], [0]), ([4, 5], [1]), ([4, 5], [-1]),
              ([4, 5], [-2, -1]), ([4, 5], [1, 0]), ([4, 5], [0, 0]),
              ([4, 5], [0, -2]), ([4, 5], (1,)), ([4, 5], range(2)),
              ([3, 4, 5], [0, 2]), ([3, 4, 5], [-1]), ([3, 4, 5], [5]),
              ([3, 4, 5], [-4]), ([3, 4, 5], [3]), ([2, 3, 4, 5], None),
              ([2, 3, 4, 5], [1, 3]), ([1], None), ([0], None),
              ([3, 0], [1]), ([4, 5], np.array([1]))]
    for shape, axes in fcases:
        for dt in dtypes:
            x = rand(rng, shape, dt)
            call("flip %s %r %s" % (shape, axes, np.dtype(dt)),
                 lambda v: util.flip(v, axes), x)
    for tag, ax in (("float axis", [0.5]), ("str axis", ["a"]),
                    ("int axes", 1), ("none in axes", [None])):
        call("flip invalid " + tag, lambda v: util.flip(v, ax), x)
    try:
        util.flip([1, 2, 3])
        put("flip list", "OK")
    except Exception as e:  # noqa
        put("flip list", "EXC", type(e).__name__)

    # ---- operators ------------------------------------------------------
    ldtypes = [np.float32, np.float64, np.complex64, np.complex128]

    def run(tag, A):
        put(tag, tuple(A.oshape), tuple(A.ishape), repr(A))
        for name, B in (("A", A), ("A.H", A.H), ("A.H.H", A.H.H),
                        ("A.N", A.N)):
            for dt in ldtypes:
                x = rand(rng, B.ishape, dt)
                call("%s %s %s" % (tag, name, np.dtype(dt)), B, x)

    run("Circshift 1d", linop.Circshift([8], [3]))
    run("Circshift 1d neg", linop.Circshift([7], [-9], axes=[-1]))
    run("Circshift 2d all", linop.Circshift([4, 5], [1, 2]))
    run("Circshift 2d ax", linop.Circshift([4, 5], [2], axes=[-2]))
    run("Circshift 3d", linop.Circshift([3, 4, 5], [1, -1], axes=[2, 0]))
    run("Circshift rep", linop.Circshift([3, 4], [1, 1, 2], axes=[0, 0, 1]))
    run("Circshift empty", linop.Circshift([3, 4], [], axes=[]))
    run("Circshift zero", linop.Circshift([3, 4], [0, 0]))
    run("Flip all", linop.Flip([4, 5]))
    run("Flip ax", linop.Flip([3, 4, 5], axes=[-1, 0]))
    run("FiniteDifference", linop.FiniteDifference([4, 5]))
    run("FiniteDifference ax", linop.FiniteDifference([3, 4, 5], axes=[-1, 0]))
    run("Composite", linop.Circshift([4, 5], [1], axes=[1])
        * linop.Flip([4, 5], axes=[0]) + linop.Identity([4, 5]))
    A = linop.Circshift([4, 5], [1, 2])
    call("Circshift bad input", A, rand(rng, [4, 6], np.float64))
    call("Circshift len mismatch", linop.Circshift([4, 5], [1]),
         rand(rng, [4, 5], np.float64))
    call("Circshift bad axis", linop.Circshift([4, 5], [1], axes=[3]),
         rand(rng, [4, 5], np.float64))

    print("items hashed: %d (of which exceptions: %d)"
          % (NITEMS[0], NEXC[0]))
    print("DIGEST " + H.hexdigest())
    return 0


if __name__ == "__main__":
    sys.exit(main())
