"""C01 / round 5 / n2 - equivalence demonstration (digest must not change).

Exercises Hstack / Vstack / Diag (the classes whose _apply bookkeeping is
rewritten) with 1, 2, 3 and 4 blocks of equal and unequal sizes, axis None /
positive / negative, mixed iaxis / oaxis, non-trivial complex operands,
several dtypes, repeated calls, adjoints, double adjoints, normal operators,
nested stacks, the factories built on them (FiniteDifference, batched Sense),
invalid constructions and wrongly shaped inputs.

Prints one SHA256 digest of all results (values rounded to 10 significant
digits, dtypes, shapes, exception types, reprs, constructor state, and the
caller's input arrays after every call).

Run as:  cd <tree> && PYTHONPATH=<tree> /venv/bin/python demo.py
"""
import hashlib

import numpy as np

import sigpy as sp
import sigpy.mri  # noqa: F401
from sigpy import linop

H = hashlib.sha256()
NREC = [0]


def rec(*items):
    for it in items:
        H.update(repr(it).encode())
        H.update(b"\x00")
        NREC[0] += 1


def fmt(v):
    v = float(v) + 0.0
    if v == 0:
        return "0"
    return np.format_float_scientific(v, precision=9, unique=False)


def arr(a):
    a = np.asarray(a)
    flat = a.ravel()
    if np.iscomplexobj(flat):
        vals = [fmt(z.real) + "," + fmt(z.imag) for z in flat]
    else:
        vals = [fmt(z) for z in flat]
    return (str(a.dtype), tuple(a.shape), tuple(vals))


def exc(e):
    names = [type(e).__name__]
    while e.__cause__ is not None:
        e = e.__cause__
        names.append(type(e).__name__)
    return tuple(names)


def attempt(tag, f):
    try:
        out = f()
    except Exception as e:  # noqa
        rec(tag, "EXC", exc(e))
        return None
    rec(tag, "OK", out)
    return out


def data(rng, shape, dtype):
    shape = tuple(int(s) for s in shape)
    re = rng.integers(-8, 9, size=shape) / 4.0
    if np.issubdtype(dtype, np.complexfloating):
        im = rng.integers(-8, 9, size=shape) / 4.0
        return (re + 1j * im).astype(dtype)
    return re.astype(dtype)


def state(A):
    d = {}
    for k in sorted(A.__dict__):
        v = A.__dict__[k]
        if k in ("linops", "adj", "normal"):
            v = type(v).__name__
        d[k] = (type(v).__name__, repr(v))
        if isinstance(v, list):
            d[k] += tuple(type(e).__name__ for e in v)
    return d


DTS = [np.float32, np.float64, np.complex64, np.complex128]


def probe(tag, make, rng, xdtypes=DTS):
    try:
        A = make()
    except Exception as e:  # noqa
        rec(tag, "CONSTRUCT-EXC", exc(e))
        return
    rec(tag, "shapes", list(A.ishape), list(A.oshape), repr(A), state(A))

    def adj():
        AH = A.H
        return (list(AH.ishape), list(AH.oshape), repr(AH), state(AH))

    if attempt(tag + " H", adj) is None:
        return
    AH = A.H
    attempt(tag + " HH", lambda: (repr(AH.H), state(AH.H)))
    for dt in xdtypes:
        x = data(rng, A.ishape, dt)
        y = data(rng, A.oshape, dt)
        x0, y0 = x.copy(), y.copy()
        for rep in range(2):
            attempt(tag + " A x %s #%d" % (dt.__name__, rep), lambda: arr(A(x)))
            attempt(
                tag + " AH y %s #%d" % (dt.__name__, rep), lambda: arr(AH(y))
            )
        attempt(tag + " AHH x " + dt.__name__, lambda: arr(AH.H(x)))
        attempt(tag + " N x " + dt.__name__, lambda: arr(A.N(x)))
        attempt(
            tag + " vdot " + dt.__name__,
            lambda: (arr(np.vdot(A(x), y)), arr(np.vdot(x, AH(y)))),
        )
        rec(tag, "inputs after", arr(x), arr(y), bool((x == x0).all()),
            bool((y == y0).all()))
        # non-contiguous and wrongly shaped inputs
        xt = np.asfortranarray(x)
        attempt(tag + " A xF " + dt.__name__, lambda: arr(A(xt)))
        attempt(tag + " A x[None] " + dt.__name__, lambda: arr(A(x[None])))
        attempt(tag + " A x.ravel " + dt.__name__, lambda: arr(A(x.ravel())))
        attempt(tag + " AH y.ravel " + dt.__name__,
                lambda: arr(AH(y.ravel())))
        attempt(tag + " A x[1:] " + dt.__name__, lambda: arr(A(x[1:])))
        attempt(tag + " AH y[..., :-1] " + dt.__name__,
                lambda: arr(AH(y[..., :-1])))


def main():
    rng = np.random.default_rng(271828)

    def Mul(shape, dt=np.complex128):
        return linop.Multiply(shape, data(rng, shape, dt))

    def blocks_same_out(oshape, sizes, axis):
        """operators with a common oshape whose ishapes differ along axis"""
        ops = []
        for k, n in enumerate(sizes):
            ishape = list(oshape)
            if axis is None:
                ishape = [n] + list(oshape[1:])
            else:
                try:
                    ishape[axis] = n
                except (IndexError, TypeError):
                    pass  # invalid axis: equal blocks, the library decides
            R = linop.Resize(oshape, ishape)
            kind = k % 3
            if kind == 0:
                ops.append(R * Mul(ishape))
            elif kind == 1:
                ops.append(Mul(oshape) * R)
            else:
                ops.append(R * linop.FFT(ishape, axes=(-1,)))
        return ops

    # ---------------- Hstack / Vstack ----------------
    stack_cfg = [
        ([5], [5], None), ([5], [5, 5], None), ([5], [2, 5, 3], None),
        ([5], [1, 1, 1, 1], None), ([4, 3], [4, 4], None),
        ([4, 3], [2, 4, 1], None), ([4, 3], [4, 4], 0), ([4, 3], [2, 4, 1], 0),
        ([4, 3], [3, 1, 2], 1), ([4, 3], [3, 1, 2], -1), ([4, 3], [4], -2),
        ([2, 4, 3], [3, 3, 5], 1), ([2, 4, 3], [1, 2], -3),
        ([2, 4, 3], [2, 2, 1, 3], 2), ([4, 3], [2, 2], 2), ([4, 3], [2, 2], -3),
        ([4, 3], [2, 2], 1.0),
    ]
    for oshape, sizes, axis in stack_cfg:
        tag = "%s %s axis=%r" % (oshape, sizes, axis)

        def mk_h():
            return linop.Hstack(blocks_same_out(oshape, sizes, axis), axis=axis)

        def mk_v():
            ops = [op.H for op in blocks_same_out(oshape, sizes, axis)]
            return linop.Vstack(ops, axis=axis)

        probe("Hstack " + tag, mk_h, rng)
        probe("Vstack " + tag, mk_v, rng)

    # identity blocks (what the test-suite uses), every dtype
    for shape, axis in [([5], None), ([5, 3], 1), ([5, 3], None), ([5, 3], -2)]:
        Id = linop.Identity(shape)
        for n in [1, 2, 3]:
            probe("Hstack Id %s %s %d" % (shape, axis, n),
                  lambda: linop.Hstack([Id] * n, axis=axis), rng)
            probe("Vstack Id %s %s %d" % (shape, axis, n),
                  lambda: linop.Vstack([Id] * n, axis=axis), rng)
            probe("Diag Id %s %s %d" % (shape, axis, n),
                  lambda: linop.Diag([Id] * n, iaxis=axis, oaxis=axis), rng)

    # mixed real / complex blocks (dtype widening inside the stacks)
    probe(
        "Vstack mixed dtypes",
        lambda: linop.Vstack(
            [linop.Identity([3, 2]), Mul([3, 2]),
             linop.Reshape([3, 2], [2, 3]) * linop.Transpose([3, 2])],
            axis=0,
        ),
        rng,
    )
    probe(
        "Vstack mixed dtypes flat",
        lambda: linop.Vstack(
            [linop.Identity([3, 2]), Mul([3, 2]), linop.Transpose([3, 2])]
        ),
        rng,
    )

    # ---------------- Diag ----------------
    def diag_ops(kind):
        if kind == 0:  # in [k, 3] -> out [k, 3]
            return [Mul([2, 3]), linop.FFT([1, 3]), Mul([3, 3], np.float64)]
        if kind == 1:  # in [2, k] -> out [2, k + 1]
            return [linop.Resize([2, k + 1], [2, k]) * Mul([2, k])
                    for k in [1, 3, 2]]
        if kind == 2:  # in [2, 3] -> out [3, 2]
            return [linop.Transpose([2, 3]), linop.Transpose([2, 3]) *
                    Mul([2, 3])]
        if kind == 3:  # in [4] -> out [2, 2] / [2, 2]
            return [linop.Reshape([2, 2], [4]), linop.Reshape([2, 2], [4]) *
                    Mul([4])]
        if kind == 4:
            return [Mul([3])]
        return [linop.Sum([2, 3], [1]), linop.Sum([2, 2], [1]) *
                linop.Resize([2, 2], [2, 3])]  # in [2, 3] -> out [2]

    diag_cfg = [
        (0, 0, 0), (0, None, None), (0, 0, None), (0, None, 0), (0, -2, -2),
        (0, 1, 1), (1, 1, 1), (1, -1, -1), (1, None, None), (1, -1, None),
        (1, 0, 1), (2, 0, 1), (2, 1, 0), (2, None, 0), (2, -1, -2), (2, 0, 0),
        (3, 0, 0), (3, None, 1), (3, -1, -1), (3, 0, None), (3, 1, 0),
        (4, None, None), (4, 0, 0), (4, -1, 0), (5, 0, 0), (5, None, 1),
        (5, -1, -1), (5, 0, 1), (0, 2, 0), (0, 0, 2),
    ]
    for kind, iaxis, oaxis in diag_cfg:
        probe(
            "Diag kind=%d iaxis=%r oaxis=%r" % (kind, iaxis, oaxis),
            lambda: linop.Diag(diag_ops(kind), iaxis=iaxis, oaxis=oaxis),
            rng,
        )

    # ---------------- nested stacks and factories ----------------
    def nested():
        A = linop.Hstack(blocks_same_out([4, 3], [2, 1], 0), axis=0)
        B = linop.Hstack(blocks_same_out([4, 3], [1, 1, 1], 0), axis=0)
        V = linop.Vstack([A, B], axis=1)
        D = linop.Diag([V, V.H.H], iaxis=0, oaxis=-1)
        return D.H * D + 2j * linop.Identity(D.ishape)

    probe("nested", nested, rng, [np.complex64, np.complex128])
    for shape, axes in [([8], None), ([3, 4], None), ([3, 4], [1]),
                        ([2, 3, 4], (-1, 0))]:
        probe("FiniteDifference %s %s" % (shape, axes),
              lambda: linop.FiniteDifference(shape, axes=axes), rng)
    mps = data(rng, [5, 4, 3], np.complex128)
    for bs in [None, 1, 2, 3, 5, 7]:
        probe("Sense batch %r" % bs,
              lambda: sp.mri.linop.Sense(mps, coil_batch_size=bs), rng,
              [np.complex64, np.complex128])

    # ---------------- invalid constructions ----------------
    Id5, Id3, Id53 = (linop.Identity([5]), linop.Identity([3]),
                      linop.Identity([5, 3]))
    bad = [
        ("Hstack oshape mismatch", lambda: linop.Hstack([Id5, Id3])),
        ("Vstack ishape mismatch", lambda: linop.Vstack([Id5, Id3])),
        ("Hstack rank mismatch",
         lambda: linop.Hstack([linop.Reshape([15], [5, 3]),
                               linop.Reshape([15], [15])], axis=0)),
        ("Vstack rank mismatch",
         lambda: linop.Vstack([linop.Reshape([5, 3], [15]),
                               linop.Reshape([15], [15])], axis=0)),
        ("Hstack off-axis mismatch",
         lambda: linop.Hstack([linop.Resize([5, 3], [5, 2]),
                               linop.Resize([5, 3], [4, 2])], axis=1)),
        ("Vstack off-axis mismatch",
         lambda: linop.Vstack([linop.Resize([5, 2], [5, 3]),
                               linop.Resize([4, 2], [5, 3])], axis=1)),
        ("Diag off-axis mismatch",
         lambda: linop.Diag([Id53, linop.Identity([4, 3])], iaxis=1, oaxis=1)),
        ("Hstack empty", lambda: linop.Hstack([])),
        ("Vstack empty", lambda: linop.Vstack([])),
        ("Diag empty", lambda: linop.Diag([])),
    ]
    for tag, f in bad:
        probe(tag, f, rng, [np.float64])

    print("records:", NREC[0])
    print("DIGEST", H.hexdigest())


if __name__ == "__main__":
    main()
