"""C16 / round 5 / n1 - equivalence demonstration.

Exercises everything that goes through the stacking bookkeeping of
sigpy.linop (``_hstack_params`` / ``_vstack_params`` / ``Hstack._apply`` /
``Vstack._apply``; also used by ``Diag``): coil-batched SENSE (Cartesian,
non-Cartesian, weights, non-dividing batch sizes, 2-D / 3-D), its adjoint and
normal operator, FiniteDifference, the [A; G] stack of the TV recon, direct
Hstack / Vstack / Diag with positive, negative and None axes, real / complex
data of several dtypes, repeated calls, and invalid inputs.

Prints a SHA256 digest of all results (values rounded to 10 significant
digits, dtypes, shapes, attribute values, exception types, and a digest of the
caller's input arrays after the calls).  The digest must be identical on the
pristine and on the changed tree.
"""
import hashlib
import sys

import numpy as np

import sigpy as sp
import sigpy.mri as mr

H = hashlib.sha256()
COUNT = [0]


def put(tag, obj):
    COUNT[0] += 1
    H.update(("|%s:" % tag).encode())
    if isinstance(obj, np.ndarray):
        H.update(("%s%s" % (obj.dtype, obj.shape)).encode())
        a = np.asarray(obj).ravel()
        if np.iscomplexobj(a):
            parts = np.stack([a.real, a.imag], 1).ravel().astype(np.float64)
        elif a.dtype.kind in "iub":
            H.update(",".join(str(int(v)) for v in a).encode())
            return
        else:
            parts = a.astype(np.float64)
        H.update(",".join("%.9e" % (v + 0.0) for v in parts).encode())
    elif isinstance(obj, (list, tuple)):
        H.update(("%s[" % type(obj).__name__).encode())
        for o in obj:
            put("e", o)
        H.update(b"]")
    elif isinstance(obj, (int, np.integer)):
        H.update(("int%d" % int(obj)).encode())
    elif isinstance(obj, (float, np.floating)):
        H.update(("%.9e" % float(obj)).encode())
    else:
        H.update(repr(obj).encode())


def attempt(tag, fn):
    try:
        put(tag, fn())
    except BaseException as e:  # noqa
        chain = []
        while e is not None:
            chain.append(type(e).__name__)
            e = e.__cause__
        put(tag + ":exc", ">".join(chain))


def randc(rng, shape, dtype):
    if np.dtype(dtype).kind == "c":
        return (rng.randn(*shape) + 1j * rng.randn(*shape)).astype(dtype)
    return rng.randn(*shape).astype(dtype)


def apply_all(tag, A, rng, dtype):
    x = randc(rng, A.ishape, dtype)
    y = randc(rng, A.oshape, dtype)
    x0, y0 = x.copy(), y.copy()
    put(tag + ":shapes", [list(A.oshape), list(A.ishape)])
    for rep in range(2):  # repeated calls
        attempt(tag + ":fwd%d" % rep, lambda: A * x)
        attempt(tag + ":adj%d" % rep, lambda: A.H * y)
        attempt(tag + ":nrm%d" % rep, lambda: A.N * x)
    put(tag + ":x_after", x)
    put(tag + ":y_after", y)
    put(tag + ":x_unchanged", bool(np.array_equal(x, x0)))
    put(tag + ":y_unchanged", bool(np.array_equal(y, y0)))
    for name in ("indices", "iindices", "oindices"):
        for B in (A, A.H):
            if hasattr(B, name):
                put(tag + ":" + name, [int(i) for i in getattr(B, name)])
                put(
                    tag + ":" + name + ":types",
                    [type(i).__name__ for i in getattr(B, name)],
                )


def sense_cases(rng):
    for dtype in (np.complex128, np.complex64):
        for nc, ishape in [(4, (6, 5)), (7, (5, 4)), (5, (3, 4, 5)), (1, (4, 4))]:
            mps = randc(rng, (nc,) + ishape, dtype)
            w = (rng.rand(*ishape) + 0.1).astype(np.float64)
            for weights in (None, w):
                for bs in [None] + list(range(1, nc + 2)):
                    A = mr.linop.Sense(mps, weights=weights, coil_batch_size=bs)
                    apply_all(
                        "sense:%s:%d:%s:%s:%s"
                        % (np.dtype(dtype), nc, ishape, weights is None, bs),
                        A,
                        rng,
                        dtype,
                    )
            put("mps_after", mps)

    # non-Cartesian
    nc, ishape = 5, (6, 5)
    mps = randc(rng, (nc,) + ishape, np.complex128)
    coord = (rng.rand(4, 9, 2) - 0.5) * np.asarray(ishape)
    dcf = rng.rand(4, 9) + 0.1
    for weights in (None, dcf):
        for bs in (None, 1, 2, 3, 4, 5):
            A = mr.linop.Sense(
                mps, coord=coord, weights=weights, coil_batch_size=bs
            )
            apply_all(
                "ncsense:%s:%s" % (weights is None, bs), A, rng, np.complex128
            )
    put("coord_after", coord)
    put("dcf_after", dcf)

    # invalid batch sizes
    for bs in (0, -1, 2.0, "2"):
        attempt(
            "sense:badbs:%r" % (bs,),
            lambda: mr.linop.Sense(mps, coil_batch_size=bs) * randc(
                rng, ishape, np.complex128
            ),
        )


def stack_cases(rng):
    def mm(o, i, dtype=np.float64):
        return sp.linop.MatMul([i, 3], randc(rng, (o, i), dtype))

    # Vstack / Hstack / Diag over axes, unequal block sizes
    for dtype in (np.float64, np.float32, np.complex128, np.complex64):
        blocks = [mm(2, 4, dtype), mm(5, 4, dtype), mm(1, 4, dtype), mm(3, 4, dtype)]
        for axis in (None, 0, -2):
            apply_all(
                "vstack:%s:%s" % (np.dtype(dtype), axis),
                sp.linop.Vstack(blocks, axis=axis),
                rng,
                dtype,
            )
        blocks = [mm(4, 2, dtype), mm(4, 5, dtype), mm(4, 1, dtype)]
        for axis in (None, 0, -2):
            apply_all(
                "hstack:%s:%s" % (np.dtype(dtype), axis),
                sp.linop.Hstack(blocks, axis=axis),
                rng,
                dtype,
            )
        blocks = [mm(2, 3, dtype), mm(4, 1, dtype), mm(1, 2, dtype)]
        for oaxis, iaxis in [(None, None), (0, 0), (-2, 0), (None, 0), (0, None)]:
            apply_all(
                "diag:%s:%s:%s" % (np.dtype(dtype), oaxis, iaxis),
                sp.linop.Diag(blocks, oaxis=oaxis, iaxis=iaxis),
                rng,
                dtype,
            )

    # stacking along the last / a middle axis
    ops = [sp.linop.Resize([3, n, 2], [3, 4, 2]) for n in (2, 5, 1)]
    for axis in (1, -2):
        apply_all("vstack:mid:%s" % axis, sp.linop.Vstack(ops, axis=axis), rng, np.complex128)
    ops = [sp.linop.Resize([3, 2, n], [3, 2, 4]) for n in (6, 1)]
    for axis in (2, -1, 5, -4):
        apply_all("vstack:last:%s" % axis, sp.linop.Vstack(ops, axis=axis), rng, np.float64)
    ops = [sp.linop.Resize([3, 2], [n, 2]) for n in (4, 2, 7)]
    for axis in (0, -2, None):
        apply_all("hstack:first:%s" % axis, sp.linop.Hstack(ops, axis=axis), rng, np.complex64)

    # single block
    apply_all("vstack:single", sp.linop.Vstack([mm(3, 2)], axis=0), rng, np.float64)
    apply_all("hstack:single", sp.linop.Hstack([mm(3, 2)], axis=None), rng, np.float64)

    # mixed dtypes of the blocks
    apply_all(
        "vstack:mixed",
        sp.linop.Vstack([mm(2, 3, np.float32), mm(2, 3, np.complex128)], axis=0),
        rng,
        np.float32,
    )

    # FiniteDifference (Vstack along a new axis 0)
    for shape in [(5,), (4, 3), (2, 3, 4)]:
        apply_all("fd:%s" % (shape,), sp.linop.FiniteDifference(shape), rng, np.complex128)

    # invalid inputs
    I23, I24, I32, I234 = (
        sp.linop.Identity([2, 3]),
        sp.linop.Identity([2, 4]),
        sp.linop.Identity([3, 2]),
        sp.linop.Identity([2, 3, 4]),
    )
    R = sp.linop.Reshape([6], [2, 3])
    R2 = sp.linop.Reshape([3, 2], [2, 3])
    R3 = sp.linop.Reshape([1, 2, 3], [2, 3])
    S0 = sp.linop.Reshape([], [1])
    for axis in (0, 1, -1, None, 7):
        attempt("bad:v:ndim:%s" % axis, lambda: sp.linop.Vstack([I23, R3], axis=axis).oshape)
        attempt("bad:v:ndim2:%s" % axis, lambda: sp.linop.Vstack([R3, I23], axis=axis).oshape)
        attempt("bad:v:mismatch:%s" % axis, lambda: sp.linop.Vstack([I23, R2], axis=axis).oshape)
        attempt("bad:v:flat:%s" % axis, lambda: sp.linop.Vstack([I23, R], axis=axis).oshape)
        attempt("bad:v:ishape:%s" % axis, lambda: sp.linop.Vstack([I23, I24], axis=axis).oshape)
        attempt("bad:v:empty:%s" % axis, lambda: sp.linop.Vstack([], axis=axis).oshape)
        attempt("bad:h:ndim:%s" % axis, lambda: sp.linop.Hstack([I23, R3.H], axis=axis).ishape)
        attempt("bad:h:mismatch:%s" % axis, lambda: sp.linop.Hstack([I23, R2.H], axis=axis).ishape)
        attempt("bad:h:both:%s" % axis, lambda: sp.linop.Hstack([I23, R2.H, R3.H], axis=axis).ishape)
        attempt("bad:h:oshape:%s" % axis, lambda: sp.linop.Hstack([I23, I32], axis=axis).ishape)
        attempt("bad:h:empty:%s" % axis, lambda: sp.linop.Hstack([], axis=axis).ishape)
        attempt("bad:d:mismatch:%s" % axis, lambda: sp.linop.Diag([I23, I24, I234], oaxis=axis, iaxis=axis).oshape)
        attempt("bad:d:ok:%s" % axis, lambda: sp.linop.Diag([I23, I24], oaxis=axis, iaxis=axis).oshape)
        attempt("bad:v:scalar:%s" % axis, lambda: sp.linop.Vstack([S0, S0], axis=axis).oshape)
    V = sp.linop.Vstack([I23, I23], axis=0)
    attempt("bad:apply:shape", lambda: V * np.zeros([3, 3]))
    attempt("bad:apply:adjshape", lambda: V.H * np.zeros([3, 3]))


def recon_cases(rng):
    nc, ishape = 3, (6, 6)
    yy, xx = np.mgrid[:6, :6]
    mps = np.stack(
        [
            np.exp(-((yy - a) ** 2 + (xx - b) ** 2) / 30.0) * np.exp(0.2j * (a + xx))
            for a, b in [(0, 0), (5, 2), (2, 5)]
        ]
    )
    img = randc(rng, ishape, np.complex128)
    mask = np.ones(ishape)
    mask[:, 1::3] = 0
    ksp = mask * sp.fft(mps * img, axes=[-2, -1])
    ksp0, mps0 = ksp.copy(), mps.copy()
    for bs in (None, 1, 2):
        for solver in ("ConjugateGradient", "PrimalDualHybridGradient", "ADMM"):
            np.random.seed(3)
            put(
                "senserecon:%s:%s" % (bs, solver),
                mr.app.SenseRecon(
                    ksp, mps, lamda=0.01, coil_batch_size=bs, solver=solver,
                    max_iter=30, show_pbar=False,
                ).run(),
            )
        for solver in ("PrimalDualHybridGradient", "ADMM"):
            np.random.seed(3)
            put(
                "tvrecon:%s:%s" % (bs, solver),
                mr.app.TotalVariationRecon(
                    ksp, mps, 0.05, coil_batch_size=bs, solver=solver,
                    max_iter=40, show_pbar=False,
                ).run(),
            )
        np.random.seed(3)
        put(
            "l1wav:%s" % bs,
            mr.app.L1WaveletRecon(
                ksp, mps, 0.02, coil_batch_size=bs, wave_name="haar",
                max_iter=30, show_pbar=False,
            ).run(),
        )
    put("ksp_unchanged", bool(np.array_equal(ksp, ksp0)))
    put("mps_unchanged", bool(np.array_equal(mps, mps0)))
    put("ksp_after", ksp)


def main():
    rng = np.random.RandomState(20516)
    sense_cases(rng)
    stack_cases(rng)
    recon_cases(rng)
    print("items hashed:", COUNT[0])
    print("DIGEST", H.hexdigest())
    return 0


if __name__ == "__main__":
    sys.exit(main())
