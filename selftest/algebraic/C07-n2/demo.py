"""C07 / n2 equivalence demo (loop-invariant half-widths W_d / 2 hoisted out of
the point / window loops of the six CPU interpolate / gridding kernels).

Exercises sigpy.interpolate / sigpy.gridding / linop.Interpolate(.H) with all
kernels (spline order 0/1/2, Kaiser-Bessel), widths (integer, fractional,
per-axis, wider than the grid), 1-3 dims incl. length-1 axes, batch shapes,
dtypes, special coordinates (integer, half-integer, negative, far outside,
duplicates), repeated calls and invalid inputs, and prints one SHA256 digest of
everything (values rounded to 10 significant digits + dtype + shape, exception
type names, and a digest of the caller's arrays after each call).
"""
import hashlib
import sys

import numpy as np

import sigpy as sp
from sigpy import linop

H = hashlib.sha256()


def put(tag, arr=None):
    H.update(tag.encode())
    if arr is not None:
        arr = np.asarray(arr)
        H.update(str(arr.dtype).encode())
        H.update(str(arr.shape).encode())
        flat = arr.ravel()
        if np.iscomplexobj(flat):
            flat = np.stack([flat.real, flat.imag], -1).ravel()
        flat = flat.astype(np.float64) + 0.0
        H.update(",".join("%.9e" % v for v in flat).encode())


def raw(tag, arr):
    H.update(tag.encode())
    H.update(np.ascontiguousarray(arr).tobytes())


def make_coord(rng, grid, npts, cdtype):
    ndim = len(grid)
    c = rng.uniform(-2.0, max(grid) + 2.0, size=(npts, ndim))
    c[0] = np.floor(c[0])                 # integer
    c[1] = np.floor(c[1]) + 0.5           # half-integer (ceil/floor ties)
    c[2] = -np.abs(c[2]) - 0.25           # negative
    c[3] = c[3] + 5.0 * np.array(grid)    # far outside
    c[4] = c[5]                           # duplicate
    c[6] = 0.0
    return c.astype(cdtype)


def run_case(rng, grid, batch, kernel, width, beta, dtype, cdtype,
             pts_shape=None):
    ndim = len(grid)
    npts = 9
    coord = make_coord(rng, grid, npts, cdtype)
    if pts_shape is not None:
        coord = coord[: int(np.prod(pts_shape))].reshape(
            list(pts_shape) + [ndim])
    pshape = list(coord.shape[:-1])
    x = rng.randn(*batch, *grid)
    y = rng.randn(*batch, *pshape)
    if np.issubdtype(dtype, np.complexfloating):
        x = x + 1j * rng.randn(*batch, *grid)
        y = y + 1j * rng.randn(*batch, *pshape)
    x = x.astype(dtype)
    y = y.astype(dtype)
    tag = "%s|%s|%s|%s|%s|%s|%s" % (grid, batch, kernel, width, beta,
                                    np.dtype(dtype).name,
                                    np.dtype(cdtype).name)

    for rep in range(2):  # repeated calls
        out = sp.interpolate(x, coord, kernel=kernel, width=width,
                             param=beta)
        put("I%d|" % rep + tag, out)
        out = sp.gridding(y, coord, list(batch) + list(grid),
                          kernel=kernel, width=width, param=beta)
        put("G%d|" % rep + tag, out)
    raw("x", x)
    raw("y", y)
    raw("c", coord)

    A = linop.Interpolate(list(batch) + list(grid), coord,
                          kernel=kernel, width=width, param=beta)
    put("LA|" + tag, A(x))
    put("LH|" + tag, A.H(y))
    put("LN|" + tag, A.N(x))
    raw("x", x)
    raw("y", y)
    raw("c", coord)


def main():
    rng = np.random.RandomState(2024)

    beatty = lambda W, os: np.pi * (((W / os) * (os - 0.5)) ** 2 - 0.8) ** 0.5
    KB, SP = "kaiser_bessel", "spline"
    cases = [
        ((8,), (), SP, 2, 1),
        ((8,), (2,), SP, 3, 2),
        ((8,), (2,), SP, 1, 0),
        ((1,), (2,), SP, 4, 1),
        ((3,), (), SP, 7, 2),
        ((7,), (2, 1, 3), SP, 2.5, 0),
        ((8,), (), KB, 4, beatty(4, 1.25)),
        ((12,), (1,), KB, 6.5, beatty(6, 2.0)),
        ((5, 6), (), SP, 2, 1),
        ((5, 6), (3,), SP, (3, 4.5), (2, 0)),
        ((1, 6), (2,), SP, (4, 2), (1, 2)),
        ((2, 3), (), SP, (5, 6), (1, 1)),
        ((5, 6), (), KB, 4, beatty(4, 1.25)),
        ((6, 1), (2,), KB, (3, 5.5), (3.0, 11.0)),
        ((4, 3, 5), (), SP, 2, 1),
        ((4, 3, 5), (2,), SP, (1, 3, 2.5), (0, 2, 1)),
        ((4, 1, 5), (2,), SP, (3, 3, 2), (2, 1, 0)),
        ((1, 1, 1), (), SP, 2, 1),
        ((4, 3, 5), (), KB, 4, beatty(4, 1.5)),
        ((3, 1, 2), (1, 2), KB, (2, 3, 4.5), (0.5, 9.0, 6.0)),
    ]
    dtypes = [(np.float32, np.float32), (np.float64, np.float64),
              (np.complex64, np.float64), (np.complex128, np.float32),
              (np.complex128, np.float64)]
    for grid, batch, kernel, width, beta in cases:
        for dtype, cdtype in dtypes:
            run_case(rng, grid, batch, kernel, width, beta, dtype, cdtype)
    run_case(rng, (6, 5), (2,), KB, 4, 7.0, np.complex128, np.float64,
             pts_shape=(2, 3))
    run_case(rng, (6,), (), SP, (3,), [2], np.float64, np.float64,
             pts_shape=(1, 4, 1))
    run_case(rng, (4, 5, 3), (2,), SP, 2, 1, np.complex64, np.float32,
             pts_shape=(3, 1, 2))

    # invalid inputs
    x = rng.randn(2, 6, 6)
    c2 = rng.uniform(0, 6, size=(5, 2))
    bad = [
        lambda: sp.interpolate(x, c2, kernel="kaiser-bessel"),
        lambda: sp.gridding(rng.randn(2, 5), c2, [2, 6, 6], kernel="kb"),
        lambda: sp.interpolate(x, rng.uniform(0, 6, size=(5, 4)),
                               kernel="kaiser_bessel", width=4, param=7.0),
        lambda: sp.gridding(rng.randn(2, 4), c2, [2, 6, 6],
                            kernel="kaiser_bessel", width=4, param=7.0),
        lambda: sp.interpolate(rng.randn(6), c2, kernel="kaiser_bessel"),
        lambda: sp.interpolate(x, c2, kernel="kaiser_bessel", width="a"),
        lambda: sp.gridding(rng.randn(2, 5), c2, [2, 6, 6], kernel="splines"),
        lambda: sp.gridding(rng.randn(2, 5), rng.uniform(0, 6, size=(5, 4)),
                            [2, 6, 6]),
        lambda: sp.gridding(rng.randn(3, 5), c2, [2, 6, 6]),
    ]
    for i, f in enumerate(bad):
        try:
            f()
            put("E%d|none" % i)
        except Exception as e:  # noqa
            put("E%d|%s" % (i, type(e).__name__))
    raw("x", x)
    raw("c", c2)

    print(H.hexdigest())
    return 0


if __name__ == "__main__":
    sys.exit(main())
