"""C17 / round 5 / n1 -- equivalence demo for the block.py rewrite.

Prints a SHA256 digest of everything array_to_blocks (and its users:
the ArrayToBlocks linop and EspiritCalib) return on a spread of inputs.
The digest must be identical on the pristine and on the rewritten tree.
"""
import hashlib
import sys
import warnings

import numpy as np

import sigpy as sp
import sigpy.mri as mr

H = hashlib.sha256()


def _fmt(v):
    if np.isnan(v):
        return "nan"
    if v == 0:
        return "0"
    return "%.9e" % v  # 10 significant digits


def put(tag, obj):
    """Feed a result into the digest."""
    if isinstance(obj, BaseException):
        s = "EXC:" + type(obj).__name__
    elif isinstance(obj, (tuple, list)):
        H.update(("%s:seq%d;" % (tag, len(obj))).encode())
        for i, o in enumerate(obj):
            put("%s[%d]" % (tag, i), o)
        return
    else:
        a = np.asarray(obj)
        vals = a.ravel()
        if np.iscomplexobj(vals):
            body = ",".join(_fmt(v.real) + "|" + _fmt(v.imag) for v in vals)
        else:
            body = ",".join(_fmt(float(v)) for v in vals)
        s = "%s;%s;%s" % (a.dtype.str, a.shape, body)
    H.update(("%s=%s;" % (tag, s)).encode())


def call(tag, f, *args):
    try:
        with np.errstate(all="ignore"), warnings.catch_warnings():
            warnings.simplefilter("ignore")
            out = f(*args)
    except Exception as e:  # noqa
        out = e
    put(tag, out)
    return out


def rand(rng, shape, dtype):
    if np.issubdtype(dtype, np.integer):
        return rng.randint(-50, 50, size=shape).astype(dtype)
    x = rng.standard_normal(shape)
    if np.issubdtype(dtype, np.complexfloating):
        x = x + 1j * rng.standard_normal(shape)
    return x.astype(dtype)


def main():
    rng = np.random.RandomState(1234)
    dtypes = [np.float32, np.float64, np.complex64, np.complex128, np.int32]

    cases = [
        # (input shape, blk_shape, blk_strides)
        ((12,), (3,), (1,)),
        ((12,), (3,), (2,)),
        ((12,), (3,), (5,)),
        ((12,), (12,), (1,)),
        ((12,), (1,), (1,)),
        ((4, 13), (5,), (3,)),
        ((9, 11), (3, 4), (1, 1)),
        ((9, 11), (3, 4), (2, 3)),
        ((9, 11), (9, 11), (1, 1)),
        ((9, 11), (2, 2), (4, 5)),
        ((3, 9, 11), (4, 3), (1, 2)),
        ((2, 3, 9, 11), (4, 3), (3, 1)),
        ((6, 7, 8), (2, 3, 4), (1, 1, 1)),
        ((6, 7, 8), (2, 3, 4), (2, 2, 3)),
        ((6, 7, 8), (6, 7, 8), (1, 1, 1)),
        ((2, 6, 7, 8), (3, 3, 3), (1, 2, 3)),
        ((2, 2, 5, 6, 7), (2, 2, 2), (3, 2, 1)),
        # empty / degenerate
        ((4,), (5,), (1,)),  # zero blocks
        ((6, 4), (2, 5), (1, 1)),  # zero blocks along one axis
        ((0, 5), (2,), (1,)),  # empty batch
        # invalid
        ((3,), (5,), (1,)),  # negative number of blocks
        ((8, 8), (2, 2), (1,)),  # length mismatch
        ((8, 8), (2,), (1, 1)),  # length mismatch
        ((4, 4, 4, 4), (2, 2, 2, 2), (1, 1, 1, 1)),  # ndim = 4
        ((8,), (2,), (0,)),  # zero stride
        ((8, 8), (2, 2), (1, 0)),  # zero stride
    ]
    for ci, (shape, b, s) in enumerate(cases):
        for dt in dtypes:
            x = rand(rng, shape, dt)
            x0 = x.copy()
            tag = "a2b%d/%s" % (ci, np.dtype(dt).name)
            call(tag, sp.array_to_blocks, x, list(b), list(s))
            call(tag + "/again", sp.array_to_blocks, x, tuple(b), tuple(s))
            put(tag + "/input", x)
            assert np.array_equal(x, x0)

    # non-contiguous / strided / negative-stride inputs
    base = rand(rng, (7, 9, 10), np.complex128)
    views = [
        base.T,
        base[:, ::2, ::3],
        base[::-1, :, ::-1],
        np.asfortranarray(base),
        base[2],
        base[:, 3],
    ]
    for vi, v in enumerate(views):
        nd = min(v.ndim, 3)
        for s in (1, 2):
            call(
                "view%d/s%d/nd%d" % (vi, s, nd),
                sp.array_to_blocks, v, [2] * nd, [s] * nd,
            )
            call(
                "view%d/s%d/nd1" % (vi, s),
                sp.array_to_blocks, v, [3], [s],
            )
        put("view%d/input" % vi, v)

    # numpy integer block parameters
    x = rand(rng, (5, 9, 9), np.float64)
    call("npint", sp.array_to_blocks, x, np.array([3, 2]), np.array([2, 1]))

    # ArrayToBlocks linop: forward, adjoint, normal
    for shape, b, s in [((2, 9, 8), (3, 2), (1, 1)), ((7, 6, 5), (2, 2, 2), (2, 1, 2)), ((10,), (4,), (3,))]:
        A = sp.linop.ArrayToBlocks(shape, b, s)
        x = rand(rng, shape, np.complex64)
        y = call("linop%s/fwd" % (shape,), A, x)
        call("linop%s/adj" % (shape,), A.H, y)
        call("linop%s/normal" % (shape,), A.N, x)
        put("linop%s/input" % (shape,), x)

    # EspiritCalib (calibration matrix is built with array_to_blocks)
    for shape, nc, cw, kw, dt in [
        ((14, 12), 4, 10, 4, np.complex128),
        ((12, 15), 3, 9, 3, np.complex64),
        ((10, 9, 8), 3, 7, 3, np.complex128),
        ((8, 8, 8), 2, 8, 2, np.complex64),
    ]:
        ksp = rand(rng, (nc,) + shape, dt)
        ksp0 = ksp.copy()
        for rep in range(2):
            call(
                "espirit%s/%d" % (shape, rep),
                lambda: mr.app.EspiritCalib(
                    ksp, calib_width=cw, kernel_width=kw, thresh=0.05,
                    crop=0.5, max_iter=15, output_eigenvalue=True,
                    show_pbar=False,
                ).run(),
            )
        put("espirit%s/input" % (shape,), ksp)
        assert np.array_equal(ksp, ksp0)
    # calib_width < kernel_width is rejected
    call(
        "espirit/bad",
        lambda: mr.app.EspiritCalib(
            rand(rng, (2, 8, 8), np.complex128), calib_width=3,
            kernel_width=5, show_pbar=False,
        ).run(),
    )

    print("DIGEST", H.hexdigest())
    return 0


if __name__ == "__main__":
    sys.exit(main())
