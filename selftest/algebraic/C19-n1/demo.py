"""C19 / n1 equivalence demo: mag2mp (and everything built on it: b2a, b2rf,
fmp, dzmp, dzrf, dz_gslider_rf, root_flip) must give identical results on the
pristine and on the rewritten tree.  Prints a SHA256 digest."""
import hashlib
import warnings

import numpy as np

import sigpy.mri.rf as rf
from sigpy.mri.rf import slr

warnings.simplefilter("ignore")
H = hashlib.sha256()
COUNT = {"values": 0, "exceptions": 0, "exc_tags": []}


def r10(v):
    """Round to 10 significant digits, canonical text (nan/inf/-0 safe)."""
    v = np.asarray(v)
    if np.iscomplexobj(v):
        return r10(v.real) + "|" + r10(v.imag)
    v = v.astype(np.float64).ravel()
    return ",".join(
        "nan" if np.isnan(t) else "%.9e" % (t + 0.0) if t != 0 else "0"
        for t in v)


def put(tag, val):
    if isinstance(val, BaseException):
        s = "%s: EXC %s" % (tag, type(val).__name__)
        COUNT["exceptions"] += 1
        COUNT["exc_tags"].append(s)
    elif isinstance(val, (tuple, list)):
        for i, v in enumerate(val):
            put("%s[%d]" % (tag, i), v)
        return
    else:
        v = np.asarray(val)
        s = "%s: %s %s %s" % (tag, v.dtype, v.shape, r10(v))
        COUNT["values"] += 1
    H.update(s.encode())
    H.update(b"\n")


def call(tag, fn, *args, **kw):
    """Call fn, record result or exception type, and the inputs afterwards."""
    try:
        out = fn(*args, **kw)
    except Exception as e:  # noqa
        out = e
    put(tag, out)
    for i, a in enumerate(args):
        if isinstance(a, np.ndarray):
            put("%s.arg%d_after" % (tag, i), a)
    return out


def main():
    rng = np.random.RandomState(77)

    # --- mag2mp directly: sizes incl. 1, 2, 3, odd, even, powers of two -----
    for n in [1, 2, 3, 4, 5, 6, 7, 8, 9, 15, 16, 17, 31, 32, 63, 64, 100, 255,
              256, 1024]:
        for dt in [np.float64, np.float32, np.complex128, np.complex64]:
            x = rng.uniform(0.05, 1.5, n)
            if np.issubdtype(dt, np.complexfloating):
                x = x * np.exp(1j * rng.uniform(-3, 3, n))
            x = x.astype(dt)
            for rep in range(2):  # repeated calls
                call("mag2mp n=%d %s rep%d" % (n, np.dtype(dt).name, rep),
                     slr.mag2mp, x)
    call("mag2mp int", slr.mag2mp, np.arange(1, 9))
    call("mag2mp neg", slr.mag2mp, -np.arange(1.0, 9.0))
    call("mag2mp with zero", slr.mag2mp, np.array([1.0, 0.0, 2.0, 3.0]))
    call("mag2mp with nan", slr.mag2mp, np.array([1.0, np.nan, 2.0, 3.0]))
    call("mag2mp with inf", slr.mag2mp, np.array([1.0, np.inf, 2.0, 3.0]))
    call("mag2mp list", slr.mag2mp, [1.0, 2.0, 3.0, 0.5, 0.25])
    call("mag2mp col", slr.mag2mp, rng.uniform(0.1, 1, (8, 1)))
    call("mag2mp col odd", slr.mag2mp, rng.uniform(0.1, 1, (7, 1)))
    call("mag2mp 1x1", slr.mag2mp, np.ones((1, 1)) * 0.3)
    call("mag2mp noncontig", slr.mag2mp, rng.uniform(0.1, 1, 32)[::2])
    # invalid inputs
    call("mag2mp empty", slr.mag2mp, np.array([]))
    call("mag2mp 0-d", slr.mag2mp, np.array(2.0))
    call("mag2mp scalar", slr.mag2mp, 2.0)
    call("mag2mp row", slr.mag2mp, rng.uniform(0.1, 1, (1, 8)))
    call("mag2mp 2d", slr.mag2mp, rng.uniform(0.1, 1, (2, 3)))
    call("mag2mp 2d sq", slr.mag2mp, rng.uniform(0.1, 1, (4, 4)))
    call("mag2mp 3d", slr.mag2mp, rng.uniform(0.1, 1, (1, 1, 6)))
    call("mag2mp str", slr.mag2mp, "abc")
    call("mag2mp none", slr.mag2mp, None)

    # --- b2a / b2rf on real and complex beta polynomials -------------------
    for n in [1, 2, 3, 4, 5, 8, 13, 32, 64, 127]:
        for kind in ["real", "complex"]:
            for scale in [0.05, 0.7, 0.999, 3.0]:  # 3.0 -> max|B| >= 1 branch
                b = rng.randn(n)
                if kind == "complex":
                    b = b + 1j * rng.randn(n)
                bf = np.max(np.abs(np.fft.fft(b, 16 * n)))
                b = b * scale / bf
                tag = "n=%d %s s=%g" % (n, kind, scale)
                call("b2a " + tag, slr.b2a, b)
                call("b2rf " + tag, slr.b2rf, b)
                call("b2rf cancel " + tag, slr.b2rf, b, True)
    call("b2a empty", slr.b2a, np.array([]))
    call("b2a 2d", slr.b2a, rng.randn(2, 3) * 0.1)
    call("b2a float32", slr.b2a, (rng.randn(16) * 0.05).astype(np.float32))

    # --- the SLR designs -----------------------------------------------------
    for ptype in ["st", "ex", "se", "inv", "sat"]:
        for ftype in ["ms", "pm", "min", "max", "ls"]:
            for (n, tb) in [(32, 4), (64, 8), (50, 3)]:
                call("dzrf %s %s %d %d" % (ptype, ftype, n, tb),
                     rf.dzrf, n, tb, ptype, ftype, 0.01, 0.005)
    call("dzrf ex cancel", rf.dzrf, 64, 4, "ex", "ls", 0.01, 0.01, True)
    call("dzrf bad ptype", rf.dzrf, 64, 4, "xx", "ls")
    call("dzrf bad ftype", rf.dzrf, 64, 4, "ex", "xx")
    for ll in [3, 15, 31, 63, 127]:
        h = np.convolve(rng.randn((ll + 1) // 2), np.ones(1))
        h = np.convolve(h, h[::-1])
        call("fmp %d" % ll, slr.fmp, h)
    call("dzmp", slr.dzmp, 48, 6, 0.01, 0.01)
    call("gslider", slr.dz_gslider_rf, 128, 3, np.pi / 2, np.pi, 8)
    call("gslider bad", slr.dz_gslider_rf, 64, 3, np.pi / 2, np.pi, 8)
    [bsf, d1, d2] = slr.calc_ripples("ex", 0.01, 0.001)
    bmp = bsf * slr.dzmp(32, 6, d1, d2)[::-1]
    call("root_flip", slr.root_flip, bmp, d1, np.pi / 2, 6)
    call("recursive", slr.dz_recursive_rf, 2, 4, 40, True, 8)

    print("recorded %d arrays, %d exceptions" % (
        COUNT["values"], COUNT["exceptions"]))
    if "-v" in __import__("sys").argv:
        for t in COUNT["exc_tags"]:
            print("   ", t)
    print("DIGEST", H.hexdigest())


if __name__ == "__main__":
    main()
