"""C08 equivalence demo (used for n1 and n2): exercises convolve,
convolve_data_adjoint, convolve_filter_adjoint, conv._get_convolve_params and
the four Convolve* linops on a spread of valid, boundary and invalid
configurations and prints one SHA256 digest of everything observable:
values (10 significant digits), dtypes, shapes, exception types, and the
bytes of the caller's input arrays after each call.
"""
import hashlib
import itertools
import warnings

import numpy as np

import sigpy as sp
from sigpy import conv

warnings.simplefilter("ignore")
H = hashlib.sha256()
COUNT = {"ok": 0, "exc": 0}


def put(*items):
    for it in items:
        H.update(repr(it).encode())
        H.update(b"|")


def put_array(a):
    a = np.asarray(a)
    put("arr", a.dtype.str, a.shape)
    flat = a.ravel()
    if np.iscomplexobj(flat):
        vals = np.stack([flat.real, flat.imag], -1).ravel()
    else:
        vals = flat
    if np.issubdtype(vals.dtype, np.integer) or vals.dtype == bool:
        H.update(",".join(str(int(v)) for v in vals).encode())
    else:
        H.update(",".join("%.9e" % float(v) + "" for v in vals).encode())
    H.update(b"|")


def put_result(r):
    if isinstance(r, np.ndarray):
        put_array(r)
    elif isinstance(r, (tuple, list)):
        put("seq", type(r).__name__, len(r))
        for x in r:
            put_result(x)
    else:
        put(type(r).__name__, r if not isinstance(r, np.generic) else r.item())


def call(tag, fn, *args, **kwargs):
    arrays = [a for a in list(args) + list(kwargs.values())
              if isinstance(a, np.ndarray)]
    put("call", tag)
    try:
        r = fn(*args, **kwargs)
    except Exception as e:  # noqa
        put("EXC", type(e).__name__)
        COUNT["exc"] += 1
        r = None
    else:
        put_result(r)
        COUNT["ok"] += 1
    for a in arrays:
        put("input-after", a.dtype.str, a.shape,
            hashlib.sha256(np.ascontiguousarray(a).tobytes()).hexdigest())
    return r


def rand(rng, shape, dtype):
    dtype = np.dtype(dtype)
    if dtype.kind in "iu":
        return rng.integers(-5, 6, size=shape).astype(dtype)
    x = rng.standard_normal(shape)
    if dtype.kind == "c":
        x = x + 1j * rng.standard_normal(shape)
    return x.astype(dtype)


def out_shape(dshape, fshape, mode, strides, mc):
    D, b, B, m, n, s, c_i, c_o, p = conv._get_convolve_params(
        dshape, fshape, mode, strides, mc)
    return tuple(b) + ((c_o,) if mc else ()) + tuple(p)


def one_config(rng, dshape, fshape, mode, strides, mc, ddtype, fdtype=None):
    fdtype = ddtype if fdtype is None else fdtype
    tag = (dshape, fshape, mode, strides, mc, np.dtype(ddtype).str,
           np.dtype(fdtype).str)
    put("config", tag)
    call("params", conv._get_convolve_params, dshape, fshape, mode, strides, mc)
    data = rand(rng, dshape, ddtype)
    filt = rand(rng, fshape, fdtype)
    kw = dict(mode=mode, strides=strides, multi_channel=mc)
    y = call("convolve", sp.convolve, data, filt, **kw)
    try:
        oshape = out_shape(dshape, fshape, mode, strides, mc)
        out = rand(rng, oshape, ddtype)
    except Exception as e:  # noqa
        put("no-oshape", type(e).__name__)
        out = rand(rng, (2,), ddtype)
    for rep in range(2):  # repeated calls
        call("data_adj", sp.convolve_data_adjoint, out, filt, dshape, **kw)
        call("filt_adj", sp.convolve_filter_adjoint, out, data, fshape, **kw)
    # list-typed shapes as the linops pass them
    call("data_adj_list", sp.convolve_data_adjoint, out, filt, list(dshape), **kw)
    call("filt_adj_list", sp.convolve_filter_adjoint, out, data, list(fshape), **kw)

    # linops
    def linops():
        A = sp.linop.ConvolveData(dshape, filt, **kw)
        F = sp.linop.ConvolveFilter(fshape, data, **kw)
        res = [tuple(A.oshape), tuple(A.ishape), tuple(F.oshape),
               tuple(F.ishape), tuple(A.H.oshape), tuple(F.H.ishape)]
        return A, F, res

    try:
        A, F, res = linops()
    except Exception as e:  # noqa
        put("linop-EXC", type(e).__name__)
        return
    put("linop-shapes", res)
    call("A", A, data)
    call("A.H", A.H, out)
    call("A.H.H", A.H.H, data)
    call("F", F, filt)
    call("F.H", F.H, out)
    call("A.N", A.N, data)


def main():
    rng = np.random.default_rng(20250808)
    dtypes = [np.float32, np.float64, np.complex64, np.complex128]

    # --- systematic spread: D = 1..3, filter shorter / equal / longer ---
    base = {
        1: [((7,), (3,)), ((4,), (4,)), ((3,), (5,)), ((1,), (1,)),
            ((2, 6), (3,)), ((2, 1, 5), (2,))],
        2: [((5, 6), (2, 3)), ((3, 4), (3, 4)), ((3, 4), (4, 6)),
            ((3, 4), (3, 2)), ((3, 4), (2, 5)), ((2, 5, 4), (1, 3)),
            ((2, 3, 4, 5), (3, 1))],
        3: [((4, 5, 4), (2, 3, 2)), ((2, 3, 2), (2, 3, 2)),
            ((2, 2, 3), (3, 3, 4)), ((2, 3, 4, 3), (2, 1, 3))],
    }
    stride_sets = {
        1: [None, (1,), (2,), (3,), (9,)],
        2: [None, (2, 2), (1, 3), (3, 2), (7, 1)],
        3: [None, (2, 1, 2), (1, 3, 1), (4, 4, 4)],
    }
    k = 0
    for D in (1, 2, 3):
        for (dshape, fshape), strides, mode in itertools.product(
                base[D], stride_sets[D], ("full", "valid")):
            one_config(rng, dshape, fshape, mode, strides, False,
                       dtypes[k % 4])
            k += 1

    # --- multi-channel ---
    mc_cases = [
        ((3, 7), (2, 3, 3)), ((2, 3, 7), (2, 3, 3)), ((1, 4), (1, 1, 4)),
        ((2, 5, 6), (3, 2, 2, 3)), ((2, 2, 5, 6), (1, 2, 2, 3)),
        ((2, 1, 2, 3, 4), (4, 2, 3, 4)), ((1, 3, 4), (4, 1, 5, 5)),
        ((2, 4, 5, 4), (2, 2, 2, 3, 2)), ((2, 1, 2, 3, 2), (3, 1, 2, 3, 2)),
    ]
    for (dshape, fshape), mode in itertools.product(mc_cases,
                                                    ("full", "valid")):
        D = len(fshape) - 2
        for strides in (None, (2,) * D, tuple(range(1, D + 1))):
            one_config(rng, dshape, fshape, mode, strides, True,
                       dtypes[k % 4])
            k += 1

    # --- mixed / unusual dtypes ---
    for mode in ("full", "valid"):
        one_config(rng, (2, 6), (3,), mode, (2,), False, np.float32, np.float64)
        one_config(rng, (2, 6), (3,), mode, (2,), False, np.complex64, np.float64)
        one_config(rng, (2, 6), (3,), mode, None, False, np.float64, np.complex128)
        one_config(rng, (5, 6), (2, 3), mode, (2, 1), False, np.int32)
        one_config(rng, (5, 6), (2, 3), mode, None, False, np.int64, np.float64)
        one_config(rng, (2, 5, 6), (3, 2, 2, 3), mode, [2, 2], True,
                   np.complex128, np.complex64)

    # --- invalid inputs ---
    bad = [
        ((5, 6), (2, 3), "full", (2,), False),       # wrong strides length
        ((5, 6), (2, 3), "same", None, False),       # invalid mode
        ((5, 6), (2, 3), "FULL", None, False),
        ((3, 5, 6), (2, 2, 2, 3), "full", None, True),   # channel mismatch
        ((5, 6), (2, 3), "valid", (0, 1), False),    # zero stride
        ((5, 6), (2, 3), "full", (0, 1), False),
        ((5, 6), (2, 3), "full", (-2, 1), False),    # negative stride
        ((5, 6), (2, 3), "valid", (1, -1), False),
        ((4,), (4,), "valid", (-2,), False),
        ((4,), (3,), "valid", (-3,), False),
        ((5, 6), (2, 3), "full", (2.0, 1.0), False),  # float strides
        ((5, 6), (2, 3), "valid", (2.0, 2.0), False),
        ((5, 6), (2, 3), "full", 2, False),          # scalar strides
        ((6,), (2, 3), "full", None, False),         # data with too few dims
        ((5, 6), (1, 2, 3), "full", None, True),     # missing channel axis
        ((0, 6), (2, 3), "full", None, False),       # empty axis
        ((0, 5, 6), (2, 3), "full", None, False),    # empty batch
        ((2, 0, 6), (3, 0, 3), "full", None, True),  # zero input channels
        ((2, 2, 6), (0, 2, 3), "valid", (2,), True),  # zero output channels
    ]
    for dshape, fshape, mode, strides, mc in bad:
        one_config(rng, dshape, fshape, mode, strides, mc, np.float64)

    # --- adjoints called with inconsistent output arrays ---
    filt = rand(rng, (2, 3), np.float64)
    data = rand(rng, (5, 6), np.float64)
    for shape in [(6, 8), (48,), (5, 8), (3, 4), (1,)]:
        out = rand(rng, shape, np.float64)
        for mode in ("full", "valid"):
            call("bad-out-data", sp.convolve_data_adjoint, out, filt, (5, 6),
                 mode=mode)
            call("bad-out-filt", sp.convolve_filter_adjoint, out, data,
                 (2, 3), mode=mode, strides=(1, 1))

    # --- non-contiguous inputs / views ---
    big = rand(rng, (6, 10, 12), np.complex128)
    data = big[::2, ::2, 1::2]
    filt = rand(rng, (4, 3, 2), np.complex128).transpose(2, 1, 0)[:, :, ::2]
    one = call("nc-conv", sp.convolve, data, filt, mode="full", strides=(1, 2, 1))
    call("nc-dadj", sp.convolve_data_adjoint, one[..., ::1], filt,
         data.shape, mode="full", strides=(1, 2, 1))
    call("nc-fadj", sp.convolve_filter_adjoint, one, data, filt.shape,
         mode="full", strides=(1, 2, 1))

    print("calls ok: {ok}  exceptions: {exc}".format(**COUNT))
    print("DIGEST", H.hexdigest())


if __name__ == "__main__":
    main()
