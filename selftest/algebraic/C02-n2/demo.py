"""C02 / round 5 / n2 -- equivalence demo for the Hstack/Vstack/Diag
block-bounds rewrite.

Exercises Hstack, Vstack, Diag (and FiniteDifference, which is a Vstack) with
axis=None / 0 / 1 / -1 / -2, one, two and three blocks of unequal sizes, real
and complex data in four dtypes, blocks that change the dtype (complex
multiplier on real data), adjoints, double adjoints, normal operators,
repeated application, and invalid inputs/configurations.  Prints a SHA256
digest of all results (values to 10 significant digits, dtypes, shapes,
exception types, digest of the caller's input after each call).
"""
import hashlib
import sys
import warnings

import numpy as np

import sigpy as sp
from sigpy import linop

warnings.simplefilter("ignore")

H = hashlib.sha256()
NITEMS = [0]
NEXC = [0]


def put(*items):
    if "EXC" in items:
        NEXC[0] += 1
    for it in items:
        H.update(repr(it).encode())
        H.update(b"|")
    NITEMS[0] += 1


def fmt(a):
    a = np.asarray(a)
    if np.issubdtype(a.dtype, np.complexfloating):
        parts = np.stack([a.real, a.imag], -1).ravel()
    else:
        parts = a.ravel()
    if np.issubdtype(parts.dtype, np.floating):
        return ",".join("%.9e" % (float(v) + 0.0) for v in parts)
    return ",".join(str(v) for v in parts.tolist())


def put_array(tag, a):
    a = np.asarray(a)
    put(tag, str(a.dtype), tuple(a.shape), fmt(a))


def rand(rng, shape, dtype):
    if np.issubdtype(dtype, np.complexfloating):
        x = rng.standard_normal(shape) + 1j * rng.standard_normal(shape)
    else:
        x = rng.standard_normal(shape)
    return x.astype(dtype)


def run(tag, A, rng, dtypes):
    put(tag, "shapes", tuple(A.oshape), tuple(A.ishape), repr(A))
    for name, B in (("A", A), ("A.H", A.H), ("A.H.H", A.H.H), ("A.N", A.N)):
        for dt in dtypes:
            x = rand(rng, B.ishape, dt)
            snap = x.copy()
            try:
                y1 = B(x)
                y2 = B(x)
                put_array("%s %s %s out" % (tag, name, np.dtype(dt)), y1)
                put("again equal", bool(np.array_equal(y1, y2)),
                    "aliases input", bool(np.shares_memory(y1, x)))
            except Exception as e:  # noqa
                put("%s %s %s" % (tag, name, np.dtype(dt)), "EXC",
                    type(e).__name__, type(e.__cause__).__name__)
            put_array("input after", x)
            put("input unchanged", bool(np.array_equal(x, snap)))


def attempt(tag, f):
    try:
        r = f()
        if isinstance(r, np.ndarray):
            put_array(tag, r)
        else:
            put(tag, "OK", repr(r))
    except Exception as e:  # noqa
        put(tag, "EXC", type(e).__name__, type(e.__cause__).__name__)


def main():
    rng = np.random.RandomState(77)
    dtypes = [np.float32, np.float64, np.complex64, np.complex128]

    def M(ishape, m):
        return linop.Multiply(ishape, m)

    # ---- Hstack ---------------------------------------------------------
    s = [4, 3]
    ops_same = [linop.Identity(s), M(s, rand(rng, s, np.float64)),
                M(s, rand(rng, s, np.complex128))]
    run("Hstack none x3", linop.Hstack(ops_same), rng, dtypes)
    for ax in (0, 1, -1, -2):
        run("Hstack axis %d x3" % ax, linop.Hstack(ops_same, axis=ax), rng,
            dtypes)
    run("Hstack x1", linop.Hstack([ops_same[2]]), rng, dtypes)
    run("Hstack x1 axis0", linop.Hstack([ops_same[1]], axis=0), rng, dtypes)
    # unequal block sizes along the stacking axis
    R1 = linop.Resize([4, 3], [2, 3])
    R2 = linop.Resize([4, 3], [5, 3])
    R3 = linop.Resize([4, 3], [1, 3])
    run("Hstack unequal axis0", linop.Hstack([R1, R2, R3], axis=0), rng,
        dtypes)
    run("Hstack unequal none", linop.Hstack([R1, R2, R3]), rng, dtypes)
    run("Hstack unequal x2 axis-2", linop.Hstack([R2, R3], axis=-2), rng,
        dtypes)

    # ---- Vstack ---------------------------------------------------------
    run("Vstack none x3", linop.Vstack(ops_same), rng, dtypes)
    for ax in (0, 1, -1, -2):
        run("Vstack axis %d x3" % ax, linop.Vstack(ops_same, axis=ax), rng,
            dtypes)
    run("Vstack x1", linop.Vstack([ops_same[1]]), rng, dtypes)
    V1 = linop.Resize([2, 3], [4, 3])
    V2 = linop.Resize([5, 3], [4, 3])
    V3 = linop.Resize([1, 3], [4, 3])
    run("Vstack unequal axis0", linop.Vstack([V1, V2, V3], axis=0), rng,
        dtypes)
    run("Vstack unequal none", linop.Vstack([V3, V1, V2]), rng, dtypes)
    # dtype widening in a later block
    run("Vstack widen", linop.Vstack(
        [linop.Identity(s), M(s, rand(rng, s, np.complex128))], axis=0),
        rng, dtypes)
    run("FiniteDifference", linop.FiniteDifference([5, 4]), rng, dtypes)
    run("FiniteDifference ax", linop.FiniteDifference([5, 4], axes=[-1]),
        rng, dtypes)

    # ---- Diag -----------------------------------------------------------
    D1 = linop.Resize([3, 2], [2, 2])
    D2 = M([4, 2], rand(rng, [4, 2], np.complex64))
    D3 = linop.Resize([1, 2], [3, 2])
    for oax, iax in ((None, None), (0, 0), (-2, 0), (0, -2)):
        run("Diag %s %s x3" % (oax, iax),
            linop.Diag([D1, D2, D3], oaxis=oax, iaxis=iax), rng, dtypes)
    run("Diag x1", linop.Diag([D2]), rng, dtypes)
    run("Diag x2 axis1", linop.Diag(
        [linop.Identity([2, 3]), linop.Resize([2, 1], [2, 4])],
        oaxis=1, iaxis=1), rng, dtypes)
    # nested stacks
    run("nested", linop.Vstack(
        [linop.Hstack([R1, R2], axis=0), linop.Hstack([R2, R1], axis=0)],
        axis=1), rng, dtypes)

    # ---- invalid inputs / configurations ----------------------------------
    A = linop.Hstack([R1, R2, R3], axis=0)
    attempt("bad input shape H", lambda: A(np.zeros([7, 3])))
    attempt("bad input ndim H", lambda: A(np.zeros([8])))
    B = linop.Vstack([V1, V2, V3], axis=0)
    attempt("bad input shape V", lambda: B(np.zeros([4, 2])))
    C = linop.Diag([D1, D2, D3])
    attempt("bad input shape D", lambda: C(np.zeros([17])))
    attempt("Hstack oshape mismatch",
            lambda: linop.Hstack([linop.Identity([3]), linop.Identity([4])]))
    attempt("Vstack ishape mismatch",
            lambda: linop.Vstack([linop.Identity([3]), linop.Identity([4])]))
    attempt("Hstack off-axis mismatch", lambda: linop.Hstack(
        [linop.Resize([4, 3], [2, 3]), linop.Resize([4, 3], [2, 2])], axis=0))
    attempt("Vstack off-axis mismatch", lambda: linop.Vstack(
        [linop.Resize([2, 3], [4, 3]), linop.Resize([2, 2], [4, 3])], axis=0))
    attempt("Vstack ndim mismatch", lambda: linop.Vstack(
        [linop.Reshape([12], [4, 3]), linop.Identity([4, 3])], axis=0))
    attempt("Hstack empty", lambda: linop.Hstack([]))
    attempt("Diag empty", lambda: linop.Diag([]))
    attempt("Hstack int input", lambda: A(np.arange(24).reshape(8, 3)))
    attempt("Vstack int input", lambda: B(np.arange(12).reshape(4, 3)))
    attempt("Diag int input", lambda: C(np.arange(18)))
    xs = np.asfortranarray(rand(rng, [8, 3], np.complex128))
    attempt("Hstack fortran input", lambda: A(xs))
    attempt("Hstack strided input",
            lambda: A(rand(rng, [16, 3], np.float64)[::2]))

    print("items hashed: %d (of which exceptions: %d)" % (NITEMS[0], NEXC[0]))
    print("DIGEST " + H.hexdigest())
    return 0


if __name__ == "__main__":
    sys.exit(main())
