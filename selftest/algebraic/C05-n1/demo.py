"""Equivalence digest for the C05 behaviour-preserving rewrites (n1 / n2).

Exercises sigpy.fft / sigpy.ifft (centred and not, both norms, axes subsets
incl. negative / mixed / repeated / wrapped, output shapes larger / smaller /
mixed), sigpy.resize (default and explicit shifts), util._normalize_axes,
and the FFT / IFFT / Resize linops, on real and complex data of several
dtypes and shapes, with repeated calls and invalid inputs.

Prints one SHA256 over: every result (values rounded to 10 significant
digits, dtype, shape), the exception type of every failing call, and a digest
of the caller's input array after each call.  The digest must be identical on
the pristine and on the rewritten tree.
"""
import hashlib
import itertools
import sys
import warnings

import numpy as np

import sigpy as sp
from sigpy import linop, util

warnings.simplefilter("ignore")

H = hashlib.sha256()
NREC = [0]


def _fmt(v):
    v = np.asarray(v)
    if v.dtype.kind == "c":
        parts = np.stack([v.real, v.imag], -1).astype(np.float64)
    elif v.dtype.kind in "fiub":
        parts = v.astype(np.float64)
    else:
        return repr(v.tolist())
    parts = parts + 0.0  # -0.0 -> 0.0
    return ",".join("%.9e" % t for t in parts.ravel())


def rec(tag, value):
    NREC[0] += 1
    if isinstance(value, np.ndarray) or np.isscalar(value):
        a = np.asarray(value)
        s = "%s|%s|%s|%s" % (tag, a.dtype, a.shape, _fmt(a))
    else:
        s = "%s|%r" % (tag, value)
    H.update(s.encode())
    H.update(b"\n")


def call(tag, f, *args, inputs=(), **kw):
    """Run f, record result or exception type, then digest the inputs."""
    try:
        out = f(*args, **kw)
    except Exception as e:  # noqa
        rec(tag, "EXC:" + type(e).__name__)
        out = None
    else:
        if isinstance(out, (tuple, list)) and not isinstance(out, np.ndarray):
            rec(tag, repr(out))
        else:
            rec(tag, out)
    for i, x in enumerate(inputs):
        rec(tag + "|input%d" % i, x)
    return out


def make(shape, dtype, rng):
    if np.dtype(dtype).kind == "c":
        x = rng.standard_normal(shape) + 1j * rng.standard_normal(shape)
    elif np.dtype(dtype).kind == "i":
        x = rng.integers(-9, 10, size=shape)
    else:
        x = rng.standard_normal(shape)
    return np.asarray(x).astype(dtype)


def axes_variants(ndim):
    out = [None, (), (0,), (-1,), tuple(range(ndim)), tuple(range(-ndim, 0)),
           range(-ndim, 0), [ndim - 1], (ndim,), (-ndim - 1,), (0, 0)]
    if ndim >= 2:
        out += [(0, -1), (-1, 0), (1, 0), (-1, -2), (1, -2), (0, 1, 0),
                (-2,), [0, ndim - 1]]
    if ndim >= 3:
        out += [(0, 2), (2, 0, 1), (-3, 1, -1), (-1, -2, 0), (1,), (0, -2)]
    if ndim >= 4:
        out += [(3, 1), (-4, 2), (0, 1, 2, 3), (3, -3, 1, -4)]
    return out


def main():
    rng = np.random.default_rng(20240505)

    # ---- util._normalize_axes ------------------------------------------
    for ndim in [0, 1, 2, 3, 4]:
        for ax in [None, (), (0,), (-1,), (1, 0), (-1, 0), (0, -1), [2, -3, 1],
                   range(-2, 0), (5,), (-7, 3), (0, 0), np.array([1, -1]),
                   3, "ab", (0.5,), (None,)]:
            call("norm_axes|%d|%r" % (ndim, ax), util._normalize_axes, ax,
                 ndim)

    # ---- util.resize ------------------------------------------------------
    shapes = [(1,), (2,), (3,), (4,), (5,), (8,), (1, 1), (3, 4), (4, 3),
              (5, 2), (2, 3, 4), (5, 1, 6), (2, 3, 2, 3)]
    for ishape in shapes:
        for dtype in [np.complex128, np.float32, np.int64]:
            x = make(ishape, dtype, rng)
            nd = len(ishape)
            oshapes = [ishape, tuple(n + 1 for n in ishape),
                       tuple(n + 2 for n in ishape),
                       tuple(n + 3 for n in ishape),
                       tuple(max(n - 1, 1) for n in ishape),
                       tuple(max(n - 2, 1) for n in ishape),
                       tuple(max(n - 3, 1) for n in ishape),
                       tuple(n + (2 if i % 2 else -1) if n > 1 else n + i
                             for i, n in enumerate(ishape)),
                       list(n * 2 for n in ishape),
                       (1,) * nd, (1,) + tuple(ishape), tuple(ishape) + (1,),
                       (int(np.prod(ishape)),), (7,) * (nd + 1),
                       np.array(ishape) + 1, (0,) * nd]
            for oshape in oshapes:
                call("resize|%s|%s|%r" % (ishape, np.dtype(dtype), oshape),
                     util.resize, x, oshape, inputs=(x,))
            # explicit shifts
            big = tuple(n + 3 for n in ishape)
            sml = tuple(max(n - 1, 1) for n in ishape)
            for kw in [dict(oshift=[0] * nd), dict(oshift=[1] * nd),
                       dict(ishift=[0] * nd), dict(ishift=[0] * nd,
                                                   oshift=[2] * nd),
                       dict(oshift=[3] * nd), dict(oshift=[9] * nd),
                       dict(ishift=[1] * nd), dict(ishift=(0,)),
                       dict(oshift=None, ishift=None),
                       dict(oshift=[-1] * nd), dict(ishift=[0.0] * nd)]:
                for oshape in (big, sml):
                    call("resize_shift|%s|%s|%r|%r"
                         % (ishape, np.dtype(dtype), oshape, sorted(kw.items())),
                         util.resize, x, oshape, inputs=(x,), **kw)
    for bad in [None, 3, "ab", (2.5,), (-1,), ((2,),)]:
        x = make((3,), np.complex64, rng)
        call("resize_bad|%r" % (bad,), util.resize, x, bad, inputs=(x,))
    call("resize_list", util.resize, [1, 2, 3], (5,))

    # ---- fft / ifft ---------------------------------------------------------
    fshapes = [(1,), (2,), (3,), (6,), (7,), (1, 1), (4, 5), (5, 4), (6, 1),
               (3, 4, 5), (2, 1, 3), (4, 4, 4), (2, 3, 4, 5), (3, 1, 2, 2)]
    dtypes = [np.complex64, np.complex128, np.float32, np.float64, np.int32]
    for ishape in fshapes:
        nd = len(ishape)
        for dtype in dtypes:
            x = make(ishape, dtype, rng)
            for name, f in [("fft", sp.fft), ("ifft", sp.ifft)]:
                for axes, center, norm in itertools.product(
                        axes_variants(nd), [True, False], ["ortho", None]):
                    if dtype in (np.float32, np.int32) and norm is None \
                            and not center:
                        continue
                    tag = "%s|%s|%s|ax=%r|c=%r|n=%r" % (
                        name, ishape, np.dtype(dtype), axes, center, norm)
                    y = call(tag, f, x, axes=axes, center=center, norm=norm,
                             inputs=(x,))
                    if y is not None and axes in (None, (0,), (-1,)):
                        # repeated call and round trip
                        call(tag + "|again", f, x, axes=axes, center=center,
                             norm=norm, inputs=(x,))
                        g = sp.ifft if name == "fft" else sp.fft
                        call(tag + "|roundtrip", g, y, axes=axes,
                             center=center, norm=norm, inputs=(y,))
                # output shapes (centred)
                oshapes = [tuple(ishape), tuple(n + 1 for n in ishape),
                           tuple(n + 2 for n in ishape),
                           tuple(2 * n + 1 for n in ishape),
                           tuple(max(n - 1, 1) for n in ishape),
                           tuple(max(n - 2, 1) for n in ishape),
                           tuple(n + (3 if i % 2 else -1) if n > 1 else n + 1
                                 for i, n in enumerate(ishape)),
                           list(ishape), [1] * nd,
                           tuple(ishape) + (2,), (3,) * max(nd - 1, 1)]
                axv = [None, (0,), (-1,)]
                if nd >= 2:
                    axv += [(0, -1), (-1, 0), (1, 0), (-1, -2)]
                if nd >= 3:
                    axv += [(2, 0), (-3, 1, -1), (1,)]
                for oshape, axes, norm in itertools.product(
                        oshapes, axv, ["ortho", None]):
                    tag = "%s|%s|%s|o=%r|ax=%r|n=%r" % (
                        name, ishape, np.dtype(dtype), oshape, axes, norm)
                    call(tag, f, x, oshape=oshape, axes=axes, norm=norm,
                         inputs=(x,))
                # positional form and non-centred with s=
                call("%s|pos|%s|%s" % (name, ishape, np.dtype(dtype)), f, x,
                     tuple(n + 1 for n in ishape), None, False, None,
                     inputs=(x,))

    # non-contiguous / read-only / Fortran inputs
    base = make((6, 7, 4), np.complex128, rng)
    views = {"T": base.T, "step": base[::2, ::-1], "F": np.asfortranarray(base)}
    ro = base.copy()
    ro.setflags(write=False)
    views["ro"] = ro
    for k, v in views.items():
        for axes in [None, (0,), (0, -1), (-1, 0), (1,)]:
            for f in (sp.fft, sp.ifft):
                call("view|%s|%s|%r" % (k, f.__name__, axes), f, v, axes=axes,
                     inputs=(v,))
                call("viewo|%s|%s|%r" % (k, f.__name__, axes), f, v,
                     oshape=tuple(n + 1 for n in v.shape), axes=axes,
                     inputs=(v,))

    # invalid calls
    x = make((3, 4), np.complex64, rng)
    for kw in [dict(axes=3), dict(axes="a"), dict(axes=(0.5,)),
               dict(oshape=5), dict(oshape=(5,)), dict(oshape=(2, 2, 2)),
               dict(oshape=(0, 4)), dict(oshape=(-1, 4)), dict(norm="bogus"),
               dict(oshape=(3.0, 4.0)), dict(axes=(None,)),
               dict(center=False, oshape=(5, 5), axes=(0,)),
               dict(center=False, axes=(0, 0))]:
        for f in (sp.fft, sp.ifft):
            call("bad|%s|%r" % (f.__name__, sorted(kw.items())), f, x,
                 inputs=(x,), **kw)
    for bad in [None, [1.0, 2.0], "abc", 3.0, np.zeros((0,), np.complex64),
                np.zeros((2, 0), np.complex128), np.array(1 + 2j)]:
        for f in (sp.fft, sp.ifft):
            call("badin|%s|%r" % (f.__name__, bad), f, bad)

    # ---- linops ------------------------------------------------------------
    for ishape in [(3,), (4, 5), (2, 3, 4), (1, 6), (2, 1, 3, 2)]:
        nd = len(ishape)
        for axes in [None, (0,), (-1,), tuple(range(-nd, 0))] + (
                [(0, -1), (-1, 0), (1, 0)] if nd >= 2 else []):
            for center in [True, False]:
                for cls in (linop.FFT, linop.IFFT):
                    A = cls(ishape, axes=axes, center=center)
                    for dtype in [np.complex64, np.complex128]:
                        x = make(ishape, dtype, rng)
                        tag = "%s|%s|%r|%r|%s" % (cls.__name__, ishape, axes,
                                                  center, np.dtype(dtype))
                        y = call(tag + "|A", A, x, inputs=(x,))
                        call(tag + "|AH", A.H, x, inputs=(x,))
                        call(tag + "|N", A.N, x, inputs=(x,))
                        call(tag + "|AHA", A.H * A, x, inputs=(x,))
                        call(tag + "|again", A, x, inputs=(x,))
                    call(tag + "|badshape", A, np.zeros((9, 9), np.complex64))
    for ishape, oshape in [((3,), (5,)), ((5,), (2,)), ((3, 4), (4, 3)),
                           ((2, 3, 4), (5, 1, 4)), ((1, 1), (2, 3))]:
        nd = len(ishape)
        for kw in [dict(), dict(oshift=[0] * nd), dict(ishift=[0] * nd)]:
            R = linop.Resize(oshape, ishape, **kw)
            x = make(ishape, np.complex128, rng)
            y = make(oshape, np.complex128, rng)
            tag = "Resize|%s|%s|%r" % (ishape, oshape, sorted(kw.items()))
            call(tag + "|A", R, x, inputs=(x,))
            call(tag + "|AH", R.H, y, inputs=(y,))

    # ---- a few users of fft/resize ------------------------------------------
    call("dirac", util.dirac, (4, 5))
    call("dirac1", util.dirac, (1,))
    coord = make((7, 2), np.float64, rng) * 1.5
    img = make((4, 5), np.complex128, rng)
    ksp = call("nufft", sp.nufft, img, coord, inputs=(img, coord))
    call("nufft_adjoint", sp.nufft_adjoint, ksp, coord, (4, 5),
         inputs=(ksp, coord))
    bimg = make((3, 4, 5), np.complex64, rng)
    call("nufft_batch", sp.nufft, bimg, coord, inputs=(bimg, coord))

    print("records:", NREC[0])
    print("sha256:", H.hexdigest())
    return 0


if __name__ == "__main__":
    sys.exit(main())
