"""C07 / n1 equivalence demo (Kaiser-Bessel kernel written in Horner form).

Exercises sigpy.interpolate / sigpy.gridding / linop.Interpolate(.H) with the
Kaiser-Bessel kernel over a spread of beta (both branches of the Bessel
approximation, incl. the switch point 3.75, beta = 0, large beta), widths
(integer, fractional, per-axis), 1-3 dims, batch shapes, dtypes, special
coordinates, repeated calls and invalid inputs, and prints one SHA256 digest of
everything (values rounded to 10 significant digits + dtype + shape, exception
type names, and a digest of the caller's arrays after each call).
"""
import hashlib
import sys

import numpy as np

import sigpy as sp
from sigpy import interp, linop

H = hashlib.sha256()


def put(tag, arr=None):
    H.update(tag.encode())
    if arr is not None:
        arr = np.asarray(arr)
        H.update(str(arr.dtype).encode())
        H.update(str(arr.shape).encode())
        flat = arr.ravel()
        if np.iscomplexobj(flat):
            flat = np.stack([flat.real, flat.imag], -1).ravel()
        flat = flat.astype(np.float64) + 0.0
        H.update(",".join("%.9e" % v for v in flat).encode())


def raw(tag, arr):
    H.update(tag.encode())
    H.update(np.ascontiguousarray(arr).tobytes())


def make_coord(rng, grid, npts, cdtype):
    ndim = len(grid)
    c = rng.uniform(-2.0, max(grid) + 2.0, size=(npts, ndim))
    c[0] = np.floor(c[0])                 # integer
    c[1] = np.floor(c[1]) + 0.5           # half-integer (ceil/floor ties)
    c[2] = -np.abs(c[2]) - 0.25           # negative
    c[3] = c[3] + 5.0 * np.array(grid)    # far outside
    c[4] = c[5]                           # duplicate
    c[6] = 0.0
    return c.astype(cdtype)


def run_case(rng, grid, batch, width, beta, dtype, cdtype, pts_shape=None):
    ndim = len(grid)
    npts = 9
    coord = make_coord(rng, grid, npts, cdtype)
    if pts_shape is not None:
        coord = coord[: int(np.prod(pts_shape))].reshape(
            list(pts_shape) + [ndim])
    pshape = list(coord.shape[:-1])
    x = rng.randn(*batch, *grid)
    y = rng.randn(*batch, *pshape)
    if np.issubdtype(dtype, np.complexfloating):
        x = x + 1j * rng.randn(*batch, *grid)
        y = y + 1j * rng.randn(*batch, *pshape)
    x = x.astype(dtype)
    y = y.astype(dtype)
    tag = "%s|%s|%s|%s|%s|%s" % (grid, batch, width, beta,
                                 np.dtype(dtype).name, np.dtype(cdtype).name)

    for rep in range(2):  # repeated calls
        out = sp.interpolate(x, coord, kernel="kaiser_bessel", width=width,
                             param=beta)
        put("I%d|" % rep + tag, out)
        out = sp.gridding(y, coord, list(batch) + list(grid),
                          kernel="kaiser_bessel", width=width, param=beta)
        put("G%d|" % rep + tag, out)
    raw("x", x)
    raw("y", y)
    raw("c", coord)

    A = linop.Interpolate(list(batch) + list(grid), coord,
                          kernel="kaiser_bessel", width=width, param=beta)
    put("LA|" + tag, A(x))
    put("LH|" + tag, A.H(y))
    put("LN|" + tag, A.N(x))
    raw("x", x)
    raw("y", y)
    raw("c", coord)


def main():
    rng = np.random.RandomState(2024)

    # direct sweep of the kernel function (both branches, switch point, ends)
    for beta in [0.0, 0.5, 2.0, 3.75, 4.0, 6.9966, 9.3, 13.855, 18.64, 30.0]:
        us = np.concatenate([np.linspace(-1.25, 1.25, 41),
                             [1.0, -1.0, 0.0, 1e-9, 1 - 1e-12]])
        vals = [interp._kaiser_bessel_kernel(float(u), float(beta))
                for u in us]
        put("K|%r" % beta, np.array(vals, dtype=np.float64))
    # arguments that make beta*sqrt(1-u^2) hit 3.75 exactly / just around it
    for beta in [3.75, np.nextafter(3.75, 0), np.nextafter(3.75, 9), 7.5]:
        put("K0|%r" % beta,
            np.float64(interp._kaiser_bessel_kernel(0.0, float(beta))))

    beatty = lambda W, os: np.pi * (((W / os) * (os - 0.5)) ** 2 - 0.8) ** 0.5
    cases = [
        ((8,), (), 4, beatty(4, 1.25)),
        ((8,), (2,), 3, 2.34),
        ((1,), (2,), 4, 6.0),
        ((7,), (2, 1, 3), 2.5, 0.0),
        ((9,), (), 1, 5.0),
        ((12,), (1,), 6, beatty(6, 2.0)),
        ((12,), (), 8, beatty(8, 2.0)),
        ((5, 6), (), 4, beatty(4, 1.25)),
        ((5, 6), (3,), (3, 5.5), (3.0, 11.0)),
        ((1, 6), (2,), (4, 2), (7.0, 1.0)),
        ((4, 3, 5), (), 4, beatty(4, 1.5)),
        ((4, 1, 5), (2,), (2, 3, 4.5), (0.5, 30.0, 6.0)),
    ]
    dtypes = [(np.float32, np.float32), (np.float64, np.float64),
              (np.complex64, np.float64), (np.complex128, np.float32),
              (np.complex128, np.float64)]
    for grid, batch, width, beta in cases:
        for dtype, cdtype in dtypes:
            run_case(rng, grid, batch, width, beta, dtype, cdtype)
    run_case(rng, (6, 5), (2,), 4, 7.0, np.complex128, np.float64,
             pts_shape=(2, 3))
    run_case(rng, (6,), (), (3,), [4.5], np.float64, np.float64,
             pts_shape=(1, 4, 1))

    # invalid inputs
    x = rng.randn(2, 6, 6)
    c2 = rng.uniform(0, 6, size=(5, 2))
    bad = [
        lambda: sp.interpolate(x, c2, kernel="kaiser-bessel"),
        lambda: sp.gridding(rng.randn(2, 5), c2, [2, 6, 6], kernel="kb"),
        lambda: sp.interpolate(x, rng.uniform(0, 6, size=(5, 4)),
                               kernel="kaiser_bessel", width=4, param=7.0),
        lambda: sp.gridding(rng.randn(2, 4), c2, [2, 6, 6],
                            kernel="kaiser_bessel", width=4, param=7.0),
        lambda: sp.interpolate(rng.randn(6), c2, kernel="kaiser_bessel"),
        lambda: sp.interpolate(x, c2, kernel="kaiser_bessel", width="a"),
    ]
    for i, f in enumerate(bad):
        try:
            f()
            put("E%d|none" % i)
        except Exception as e:  # noqa
            put("E%d|%s" % (i, type(e).__name__))
    raw("x", x)
    raw("c", c2)

    print(H.hexdigest())
    return 0


if __name__ == "__main__":
    sys.exit(main())
