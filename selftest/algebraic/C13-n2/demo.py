"""Equivalence digest for sigpy.alg.GradientMethod / PrimalDualHybridGradient.

Runs both solvers on a spread of problems (real / complex, float32 / float64 /
mixed precision, 0-d / 1-d / 2-d / 3-d variables, scalar / numpy-scalar /
array-valued steps, every gamma combination incl. negative and NaN, custom
theta, tol-based early stopping, repeated update() calls, Prox objects and
plain functions, invalid inputs) and prints one SHA256 over

  * every recorded value rounded to 10 significant digits,
  * dtypes, shapes, python types of the scalar state (t, tau, sigma, ...),
  * exception type names for the invalid inputs,
  * a digest of the caller's arrays (x, u, tau, sigma, data) after the calls.

The digest must be identical on the pristine and on the rewritten tree.
"""
import hashlib
import sys
import warnings

import numpy as np

from sigpy import alg, prox

warnings.simplefilter("ignore")

LOG = []


def _fmt_scalar(v):
    if isinstance(v, complex) or np.iscomplexobj(v):
        v = complex(v)
        return "(%s,%s)" % (_fmt_scalar(v.real), _fmt_scalar(v.imag))
    v = float(v)
    if np.isnan(v):
        return "nan"
    if np.isinf(v):
        return "inf" if v > 0 else "-inf"
    if v == 0:
        return "0"
    return "%.9e" % v  # 10 significant digits


def rec(tag, obj):
    """Record obj (array / scalar / None / str) under tag."""
    if obj is None or isinstance(obj, (str, bool)):
        LOG.append("%s|%r" % (tag, obj))
    elif isinstance(obj, np.ndarray):
        vals = ",".join(_fmt_scalar(v) for v in obj.ravel(order="C").tolist())
        LOG.append(
            "%s|ndarray|%s|%s|%s" % (tag, obj.dtype.name, obj.shape, vals)
        )
    else:
        LOG.append("%s|%s|%s" % (tag, type(obj).__name__, _fmt_scalar(obj)))


def rec_exc(tag, fn):
    try:
        fn()
    except Exception as e:  # noqa
        names = [type(e).__name__]
        c = e.__cause__
        while c is not None:
            names.append(type(c).__name__)
            c = c.__cause__
        LOG.append("%s|EXC|%s" % (tag, ">".join(names)))
    else:
        LOG.append("%s|no exception" % tag)


# --------------------------------------------------------------------------
# problems
# --------------------------------------------------------------------------
def make_problem(seed, m, shape, cplx, dtype):
    rng = np.random.default_rng(seed)
    n = int(np.prod(shape)) if len(shape) else 1
    A = rng.standard_normal((m, n))
    y = rng.standard_normal(m)
    x0 = rng.standard_normal(n)
    if cplx:
        A = A + 1j * rng.standard_normal((m, n))
        y = y + 1j * rng.standard_normal(m)
        x0 = x0 + 1j * rng.standard_normal(n)
    A = A * np.logspace(0, -1, n)[None, :]
    A = A.astype(dtype)
    y = y.astype(dtype)
    x0 = x0.astype(dtype).reshape(shape)
    return A, y, x0


def proxes(kind, shape, lam, as_object):
    if kind == "none":
        return None
    if kind == "l1":
        if as_object:
            return prox.L1Reg(list(shape), lam)
        return lambda a, v: np.sign(v) * np.maximum(np.abs(v) - lam * a, 0) \
            if not np.iscomplexobj(v) else \
            v / np.maximum(np.abs(v), 1e-300) * np.maximum(np.abs(v) - lam * a, 0)
    if kind == "l2":
        if as_object:
            return prox.L2Reg(list(shape), lam)
        return lambda a, v: v / (1 + lam * a)
    if kind == "box":
        if as_object:
            return prox.BoxConstraint(list(shape), -0.2, 0.3)
        return lambda a, v: np.clip(v, -0.2, 0.3)
    raise ValueError(kind)


# --------------------------------------------------------------------------
# GradientMethod
# --------------------------------------------------------------------------
def gm_case(tag, shape, cplx, dtype, accelerate, pkind, as_object, alpha_scale,
            n_updates, tol=0, use_done=False, alpha_int=False):
    A, y, x0 = make_problem(11, 7, shape, cplx, dtype)
    AH = A.conj().T
    L = np.linalg.norm(A.astype(complex if cplx else float), 2) ** 2
    alpha = alpha_scale / L
    if alpha_int:
        A = A / np.sqrt(L) * 0.9
        AH = A.conj().T
        alpha = 1
    if pkind == "box" and cplx:
        pkind = "l2"
    y_keep = y.copy()
    x = x0.copy()

    def gradf(v):
        return (AH @ (A @ v.reshape(-1) - y)).reshape(v.shape)

    g = alg.GradientMethod(gradf, x, alpha, proxg=proxes(pkind, shape, 0.05,
                                                        as_object),
                           accelerate=accelerate, max_iter=n_updates, tol=tol)
    rec(tag + "/resid0", g.resid)
    k = 0
    while True:
        if use_done and g.done():
            break
        if not use_done and k >= n_updates:
            break
        g.update()
        k += 1
        if k in (1, 2, 3, 5, 8, 13, 21, 34, 55, n_updates):
            rec(tag + "/x@%d" % k, x)
            rec(tag + "/resid@%d" % k, g.resid)
            if accelerate:
                rec(tag + "/t@%d" % k, g.t)
                rec(tag + "/z@%d" % k, g.z)
    rec(tag + "/iters", k)
    rec(tag + "/iter", g.iter)
    rec(tag + "/done", bool(g.done()))
    rec(tag + "/x_is_caller", g.x is x)
    rec(tag + "/y_untouched", bool(np.array_equal(y, y_keep)))
    rec(tag + "/x_final", x)


def gm_all():
    i = 0
    for shape in [(), (5,), (6, 1), (2, 3), (2, 2, 2)]:
        for cplx, dtype in [(False, np.float64), (False, np.float32),
                            (True, np.complex128), (True, np.complex64)]:
            for accelerate in (False, True):
                for pkind, as_object in [("none", False), ("l1", True),
                                         ("l1", False), ("l2", True),
                                         ("box", True), ("box", False)]:
                    if as_object and shape == ():
                        continue
                    i += 1
                    gm_case("gm%d" % i, shape, cplx, dtype, accelerate, pkind,
                            as_object, 1.0 if i % 3 else 0.5, 60)
    # tol based stopping, run through done()
    for accelerate in (False, True):
        for tol in (1e-3, 1e-8, 0):
            gm_case("gmtol_%s_%g" % (accelerate, tol), (5,), False, np.float64,
                    accelerate, "l1", True, 1.0, 400, tol=tol, use_done=True)
    # integer step size
    for accelerate in (False, True):
        gm_case("gmint_%s" % accelerate, (5,), True, np.complex128,
                accelerate, "l2", False, 1.0, 40, alpha_int=True)
    # too large a step (divergence -> inf / nan must be identical too)
    for accelerate in (False, True):
        gm_case("gmdiv_%s" % accelerate, (5,), False, np.float32,
                accelerate, "none", False, 40.0, 120)

    # invalid inputs
    def bad_shape():
        x = np.zeros(4)
        g = alg.GradientMethod(lambda v: np.ones(5), x, 0.1)
        g.update()

    def complex_grad_real_x(acc):
        def f():
            x = np.zeros(4)
            g = alg.GradientMethod(lambda v: 1j * np.ones(4), x, 0.1,
                                   accelerate=acc)
            g.update()
        return f

    def int_x(acc):
        def f():
            x = np.zeros(4, dtype=int)
            g = alg.GradientMethod(lambda v: 0.5 * np.ones(4), x, 0.1,
                                   accelerate=acc)
            g.update()
        return f

    def prox_bad_shape(acc):
        def f():
            x = np.zeros(4)
            g = alg.GradientMethod(lambda v: v - 1, x, 0.1,
                                   proxg=prox.L1Reg([5], 0.1), accelerate=acc)
            g.update()
        return f

    def prox_returns_complex(acc):
        def f():
            x = np.ones(4)
            g = alg.GradientMethod(lambda v: v - 1, x, 0.1,
                                   proxg=lambda a, v: v * (1 + 1j),
                                   accelerate=acc)
            g.update()
            rec("gm_inv/prox_complex_state_%s" % acc, x)
        return f

    def alpha_none():
        x = np.zeros(4)
        g = alg.GradientMethod(lambda v: v - 1, x, None)
        g.update()

    def alpha_zero(acc):
        def f():
            x = np.zeros(4)
            g = alg.GradientMethod(lambda v: v - 1, x, 0, accelerate=acc)
            g.update()
            rec("gm_inv/alpha0_resid_%s" % acc, g.resid)
        return f

    def not_array():
        g = alg.GradientMethod(lambda v: v, [0.0, 1.0], 0.1)
        g.update()

    rec_exc("gm_inv/bad_shape", bad_shape)
    for acc in (False, True):
        rec_exc("gm_inv/complex_grad_%s" % acc, complex_grad_real_x(acc))
        rec_exc("gm_inv/int_x_%s" % acc, int_x(acc))
        rec_exc("gm_inv/prox_bad_shape_%s" % acc, prox_bad_shape(acc))
        rec_exc("gm_inv/prox_complex_%s" % acc, prox_returns_complex(acc))
        rec_exc("gm_inv/alpha_zero_%s" % acc, alpha_zero(acc))
    rec_exc("gm_inv/alpha_none", alpha_none)
    rec_exc("gm_inv/not_array", not_array)


# --------------------------------------------------------------------------
# PrimalDualHybridGradient
# --------------------------------------------------------------------------
def pdhg_case(tag, shape, cplx, x_dtype, u_dtype, step_kind, gp, gd, theta,
              pkind, as_object, n_updates, tol=0, use_done=False):
    A, y, x0 = make_problem(23, 7, shape, cplx, np.complex128 if cplx
                            else np.float64)
    AH = A.conj().T
    lam = 0.2
    L = np.linalg.norm(A, 2)
    if pkind == "box" and cplx:
        pkind = "l2"
    n = A.shape[1]
    if step_kind == "float":
        tau, sigma = 0.7 / L, 1 / (0.7 * L)
    elif step_kind == "int_sigma":
        tau, sigma = 1 / L**2, 1
    elif step_kind == "npscalar":
        tau, sigma = np.float64(1 / L), np.float32(1 / L)
    elif step_kind == "arrays":
        tau = (1 / np.sum(np.abs(A), axis=0)).reshape(shape)
        sigma = 1 / np.sum(np.abs(A), axis=1)
    elif step_kind == "arrays32":
        tau = (1 / np.sum(np.abs(A), axis=0)).reshape(shape).astype(np.float32)
        sigma = (1 / np.sum(np.abs(A), axis=1)).astype(np.float32)
    elif step_kind == "array_tau":
        tau = (1 / np.sum(np.abs(A) ** 2, axis=0)).reshape(shape)
        sigma = 1.0 / 7
    elif step_kind == "array_sigma":
        tau = 1.0 / n
        sigma = 1 / np.sum(np.abs(A) ** 2, axis=1)
    elif step_kind == "zero_in_sigma":
        tau = 1 / L
        sigma = np.full(7, 1 / L)
        sigma[2] = 0
    else:
        raise ValueError(step_kind)

    x = x0.astype(x_dtype)
    u = np.zeros(7, dtype=u_dtype)
    y_keep = y.copy()

    if as_object:
        proxfc = prox.L2Reg([7], 1, y=-y)
    else:
        def proxfc(s, v):
            return (v - s * y) / (1 + s)
    proxg = proxes(pkind, shape, lam, as_object)
    if proxg is None:
        proxg = prox.NoOp(list(shape)) if as_object else (lambda t, v: v)

    kwargs = {}
    if theta is not None:
        kwargs["theta"] = theta
    p = alg.PrimalDualHybridGradient(
        proxfc, proxg,
        lambda v: A @ v.reshape(-1),
        lambda v: (AH @ v).reshape(shape),
        x, u, tau, sigma, gamma_primal=gp, gamma_dual=gd,
        max_iter=n_updates, tol=tol, **kwargs)
    rec(tag + "/resid0", p.resid)
    k = 0
    while True:
        if use_done and p.done():
            break
        if not use_done and k >= n_updates:
            break
        p.update()
        k += 1
        if k in (1, 2, 3, 5, 8, 13, 21, 34, n_updates):
            rec(tag + "/x@%d" % k, x)
            rec(tag + "/u@%d" % k, u)
            rec(tag + "/x_ext@%d" % k, p.x_ext)
            rec(tag + "/resid@%d" % k, p.resid)
            rec(tag + "/tau@%d" % k, p.tau)
            rec(tag + "/sigma@%d" % k, p.sigma)
            rec(tag + "/theta_attr@%d" % k, p.theta)
            rec(tag + "/tau_min@%d" % k, getattr(p, "tau_min", None))
            rec(tag + "/sigma_min@%d" % k, getattr(p, "sigma_min", None))
    rec(tag + "/iters", k)
    rec(tag + "/iter", p.iter)
    rec(tag + "/done", bool(p.done()))
    rec(tag + "/x_is_caller", p.x is x)
    rec(tag + "/u_is_caller", p.u is u)
    rec(tag + "/y_untouched", bool(np.array_equal(y, y_keep)))
    # caller's step arrays (rescaled in place by the accelerated variants)
    if isinstance(tau, np.ndarray):
        rec(tag + "/caller_tau", tau)
        rec(tag + "/tau_is_caller", p.tau is tau)
    if isinstance(sigma, np.ndarray):
        rec(tag + "/caller_sigma", sigma)
        rec(tag + "/sigma_is_caller", p.sigma is sigma)
    rec(tag + "/attrs", ",".join(sorted(vars(p).keys())))


def pdhg_all():
    i = 0
    gammas = [(0, 0), (0.2, 0), (0, 1), (0.2, 1), (-0.5, 0), (0, -1.0),
              (float("nan"), 0), (0, float("nan")), (0.2, -1), (-1, 1)]
    for shape in [(5,), (6, 1), (2, 3)]:
        for step_kind in ["float", "int_sigma", "npscalar", "arrays",
                          "arrays32", "array_tau", "array_sigma"]:
            for gp, gd in gammas:
                for cplx in (False, True):
                    i += 1
                    dt = np.complex128 if cplx else np.float64
                    pkind = ["l2", "none", "l1", "box"][i % 4]
                    pdhg_case("pd%d" % i, shape, cplx, dt, dt, step_kind, gp,
                              gd, None, pkind, bool(i % 2), 40)
    # precision mixes
    for xd, ud, cplx in [(np.float32, np.float32, False),
                         (np.float64, np.float32, False),
                         (np.float32, np.float64, False),
                         (np.complex64, np.complex64, True),
                         (np.complex64, np.complex128, True)]:
        for step_kind in ["float", "npscalar", "arrays", "arrays32"]:
            for gp, gd in [(0, 0), (0.2, 0), (0, 1), (0.2, 1)]:
                i += 1
                pdhg_case("pdmix%d" % i, (5,), cplx, xd, ud, step_kind, gp, gd,
                          None, "l2", False, 30)
    # custom theta (python float, numpy scalar, int 0, > 1)
    for theta in [0.5, np.float64(0.7), np.float32(0.25), 0, 1.5]:
        for gp, gd in [(0, 0), (0.2, 0), (0, 1), (0.2, 1)]:
            for xd in (np.float64, np.float32):
                i += 1
                pdhg_case("pdtheta%d" % i, (5,), False, xd, xd, "arrays", gp,
                          gd, theta, "l1", True, 30)
    # tol-based stopping through done()
    for gp, gd in [(0, 0), (0.2, 0), (0, 1)]:
        for tol in (1e-2, 1e-6):
            i += 1
            pdhg_case("pdtol%d" % i, (5,), False, np.float64, np.float64,
                      "float", gp, gd, None, "l2", False, 500, tol=tol,
                      use_done=True)
    # zero entry in an array-valued dual step (division by zero in resid)
    for gp, gd in [(0, 0), (0.2, 0), (0, 1)]:
        i += 1
        pdhg_case("pdzero%d" % i, (5,), False, np.float64, np.float64,
                  "zero_in_sigma", gp, gd, None, "l2", False, 20)

    # ---------------- invalid inputs ----------------
    A = np.arange(12.0).reshape(4, 3) / 10
    y = np.ones(4)

    def mk(x, u, tau, sigma, gp=0, gd=0, Af=None, AHf=None, pg=None, pf=None):
        return alg.PrimalDualHybridGradient(
            pf or (lambda s, v: (v - s * y) / (1 + s)),
            pg or (lambda t, v: v / (1 + 0.1 * t)),
            Af or (lambda v: A @ v), AHf or (lambda v: A.T @ v),
            x, u, tau, sigma, gamma_primal=gp, gamma_dual=gd)

    def run(tag, *a, **k):
        def f():
            x, u = a[0], a[1]
            p = mk(*a, **k)
            try:
                p.update()
                p.update()
            finally:
                rec(tag + "/x_after", x if isinstance(x, np.ndarray) else None)
                rec(tag + "/u_after", u if isinstance(u, np.ndarray) else None)
                rec(tag + "/iter_after", p.iter)
                rec(tag + "/tau_after", p.tau)
                rec(tag + "/sigma_after", p.sigma)
        rec_exc(tag, f)

    for gp, gd in [(0, 0), (0.3, 0), (0, 1), (0.3, 1)]:
        g = "_%s_%s" % (gp, gd)
        run("pd_inv/u_bad_shape" + g, np.zeros(3), np.zeros(5), 0.1, 0.1,
            gp, gd)
        run("pd_inv/x_bad_shape" + g, np.zeros(2), np.zeros(4), 0.1, 0.1,
            gp, gd)
        run("pd_inv/int_x" + g, np.zeros(3, dtype=int), np.zeros(4), 0.1, 0.1,
            gp, gd)
        run("pd_inv/int_u" + g, np.zeros(3), np.zeros(4, dtype=int), 0.1, 0.1,
            gp, gd)
        run("pd_inv/int_tau_array" + g, np.zeros(3), np.zeros(4),
            np.ones(3, dtype=int), 0.1, gp, gd)
        run("pd_inv/int_sigma_array" + g, np.zeros(3), np.zeros(4),
            0.1, np.ones(4, dtype=int), gp, gd)
        run("pd_inv/bool_tau_array" + g, np.zeros(3), np.zeros(4),
            np.ones(3, dtype=bool), 0.1, gp, gd)
        run("pd_inv/tau_bad_shape" + g, np.zeros(3), np.zeros(4),
            np.ones(2), 0.1, gp, gd)
        run("pd_inv/sigma_bad_shape" + g, np.zeros(3), np.zeros(4),
            0.1, np.ones(3), gp, gd)
        run("pd_inv/tau_none" + g, np.zeros(3), np.zeros(4), None, 0.1, gp, gd)
        run("pd_inv/sigma_str" + g, np.zeros(3), np.zeros(4), 0.1, "a", gp, gd)
        run("pd_inv/complex_A_real_u" + g, np.zeros(3), np.zeros(4), 0.1, 0.1,
            gp, gd, Af=lambda v: (A @ v) * 1j)
        run("pd_inv/complex_AH_real_x" + g, np.zeros(3), np.zeros(4), 0.1, 0.1,
            gp, gd, AHf=lambda v: (A.T @ v) * 1j)
        run("pd_inv/proxg_prox_bad_shape" + g, np.zeros(3), np.zeros(4), 0.1,
            0.1, gp, gd, pg=prox.L1Reg([4], 0.1))
        run("pd_inv/proxfc_raises" + g, np.zeros(3), np.zeros(4), 0.1, 0.1,
            gp, gd, pf=lambda s, v: 1 / 0)
        run("pd_inv/AH_raises" + g, np.zeros(3), np.zeros(4), 0.1, 0.1,
            gp, gd, AHf=lambda v: [][1])
        run("pd_inv/x_list" + g, [0.0, 0.0, 0.0], np.zeros(4), 0.1, 0.1,
            gp, gd)
        run("pd_inv/negative_tau" + g, np.ones(3), np.zeros(4), -0.1, 0.1,
            gp, gd)
        run("pd_inv/zero_tau" + g, np.ones(3), np.zeros(4), 0.0, 0.1, gp, gd)
    rec_exc("pd_inv/gamma_none", lambda: mk(np.zeros(3), np.zeros(4), 0.1, 0.1,
                                            gp=None))
    rec_exc("pd_inv/gamma_array", lambda: mk(np.zeros(3), np.zeros(4), 0.1,
                                             0.1, gd=np.ones(2)))
    rec_exc("pd_inv/gamma_str", lambda: mk(np.zeros(3), np.zeros(4), 0.1, 0.1,
                                           gp="1"))


def main():
    gm_all()
    pdhg_all()
    blob = "\n".join(LOG).encode()
    print("records: %d" % len(LOG))
    print("SHA256: %s" % hashlib.sha256(blob).hexdigest())
    if len(sys.argv) > 1:
        with open(sys.argv[1], "w") as f:
            f.write("\n".join(LOG))
    return 0


if __name__ == "__main__":
    sys.exit(main())
