"""C20 / n1 equivalence demo: spokes_grad on a spread of spoke sets / limits.

Prints a SHA256 digest of every result (values to 10 significant digits, dtype,
shape), of the exception type for invalid inputs, and of the caller's spoke
array after each call.  The digest must be identical on the pristine tree and
on the tree with n1/patch.diff applied.
"""
import hashlib
import sys
import warnings

import numpy as np

import sigpy.mri.rf as rf

H = hashlib.sha256()
NREC = [0]
COUNT = {"ok": 0, "exc": {}}


def put(*items):
    for it in items:
        H.update(repr(it).encode())
        H.update(b"|")
    NREC[0] += 1


def arr_digest(a):
    a = np.asarray(a)
    flat = a.ravel()
    if np.iscomplexobj(flat):
        vals = ["%.9e%+.9ej" % (v.real, v.imag) for v in flat.tolist()]
    elif flat.dtype.kind in "iub":
        vals = [repr(int(v)) for v in flat.tolist()]
    elif flat.dtype.kind not in "f":
        vals = [repr(v) for v in flat.tolist()]
    else:
        vals = ["%.9e" % float(v) for v in flat.tolist()]
    return (str(a.dtype), a.shape, hashlib.sha256(
        ",".join(vals).encode()).hexdigest())


def run(tag, k, tbw, sl_thick, gmax, dgdt, gts, repeat=1):
    for rep in range(repeat):
        try:
            with warnings.catch_warnings():
                warnings.simplefilter("ignore")
                g = rf.spokes_grad(k, tbw, sl_thick, gmax, dgdt, gts)
            put(tag, rep, "ok", type(g).__name__, arr_digest(g))
            COUNT["ok"] += 1
        except Exception as e:  # noqa: BLE001 - exception TYPE is recorded
            put(tag, rep, "exc", type(e).__name__)
            COUNT["exc"][type(e).__name__] = COUNT["exc"].get(
                type(e).__name__, 0) + 1
        # the caller's input after the call
        if isinstance(k, np.ndarray):
            put(tag, rep, "input", arr_digest(k), k.flags["C_CONTIGUOUS"])
        else:
            put(tag, rep, "input", repr(k))


def main():
    rng = np.random.RandomState(2005)
    base = dict(tbw=4, sl_thick=5, gmax=2, dgdt=18000, gts=4e-6)

    sets = {
        "dc1": np.zeros((1, 2)),
        "off1": np.array([[0.25, -0.2]]),
        "two": np.array([[0.25, -0.2], [0.0, 0.0]]),
        "unit5": np.array([[-0.25, 0.2], [-0.25, -0.25], [0.0, 0.0],
                           [0.2, -0.25], [-0.2, 0.2]]),
        "repeat": np.array([[0.1, 0.1], [0.1, 0.1], [0.1, -0.3],
                            [0.1, -0.3]]),
        "axis": np.array([[0.3, 0.0], [0.0, 0.0], [0.0, -0.3]]),
        "empty": np.zeros((0, 2)),
        "int": np.array([[1, -1], [0, 0], [-1, 1]]),
        "int8": np.array([[1, -1], [0, 0], [-1, 1]], dtype=np.int8),
        "f32": np.array([[0.25, -0.2], [0.0, 0.0], [0.125, 0.5]],
                        dtype=np.float32),
        "threecol": np.array([[0.25, -0.2, 7.0], [0.0, 0.0, 8.0]]),
        "big": np.array([[3.0, -2.5], [-3.0, 2.5], [0.5, 0.5]]),
        "huge": np.array([[0.0, 0.0], [30.0, -25.0], [-30.0, 25.0]]),
        "nan": np.array([[0.1, np.nan], [0.0, 0.0]]),
        "inf": np.array([[0.1, np.inf], [0.0, 0.0]]),
        "tiny": np.array([[1e-9, -1e-12], [0.0, 1e-300]]),
    }
    for n in (1, 2, 3, 4, 6, 9):
        sets["rand%d" % n] = rng.uniform(-0.5, 0.5, size=(n, 2))
    # non-contiguous / Fortran-ordered / read-only views
    wide = rng.uniform(-0.4, 0.4, size=(8, 4))
    sets["strided"] = wide[::2, 1:3]
    sets["fortran"] = np.asfortranarray(rng.uniform(-0.4, 0.4, size=(5, 2)))
    ro = rng.uniform(-0.4, 0.4, size=(3, 2))
    ro.setflags(write=False)
    sets["readonly"] = ro

    for name in sets:
        run(name, sets[name], repeat=2, **base)

    # other hardware limits / rasters / slice-select areas
    configs = [
        dict(tbw=4, sl_thick=5, gmax=4, dgdt=20000, gts=4e-6),
        dict(tbw=4, sl_thick=5, gmax=4, dgdt=20000, gts=1e-5),
        dict(tbw=2, sl_thick=10, gmax=1, dgdt=5000, gts=1e-5),
        dict(tbw=8, sl_thick=3, gmax=5, dgdt=15000, gts=2e-6),
        dict(tbw=4, sl_thick=5, gmax=0.5, dgdt=1000, gts=1e-5),
        dict(tbw=4.5, sl_thick=2.5, gmax=10, dgdt=1e5, gts=1e-6),
        dict(tbw=1, sl_thick=50, gmax=10, dgdt=1e5, gts=1e-5),
        dict(tbw=4, sl_thick=5, gmax=2, dgdt=100, gts=1e-4),
    ]
    for ci, cfg in enumerate(configs):
        for name in ("dc1", "off1", "unit5", "repeat", "rand6", "big",
                     "strided", "int"):
            run("cfg%d-%s" % (ci, name), sets[name], **cfg)

    # invalid inputs: exception types must be unchanged
    bad_cfg = [
        ("tbw0", dict(base, tbw=0)),
        ("tbwneg", dict(base, tbw=-4)),
        ("thick0", dict(base, sl_thick=0)),
        ("gmax0", dict(base, gmax=0)),
        ("gmaxneg", dict(base, gmax=-2)),
        ("dgdt0", dict(base, dgdt=0)),
        ("dgdtneg", dict(base, dgdt=-18000)),
        ("gts0", dict(base, gts=0)),
        ("gtsnan", dict(base, gts=np.nan)),
        ("gmaxnan", dict(base, gmax=np.nan)),
        ("tbwstr", dict(base, tbw="4")),
    ]
    for tag, cfg in bad_cfg:
        for name in ("unit5", "dc1", "empty"):
            run("bad-%s-%s" % (tag, name), sets[name], **cfg)
    bad_k = {
        "list": [[0.25, -0.2], [0.0, 0.0]],
        "onedim": np.array([0.25, -0.2]),
        "zerodim": np.array(0.25),
        "onecol": np.array([[0.25], [0.0]]),
        "threedim": np.zeros((2, 2, 2)),
        "complex": np.array([[0.25 + 0.1j, -0.2], [0.0, 0.0]]),
        "object": np.array([[0.25, -0.2], [0.0, None]], dtype=object),
        "str": np.array([["a", "b"]]),
        "none": None,
        "bool": np.array([[True, False], [False, False]]),
        "uint8": np.array([[3, 1], [1, 2]], dtype=np.uint8),
    }
    for name, k in bad_k.items():
        run("badk-" + name, k, **base)
        run("badk0-" + name, k, **dict(base, tbw=0))

    print("records:", NREC[0], "ok calls:", COUNT["ok"], "exceptions:",
          sorted(COUNT["exc"].items()))
    print("DIGEST", H.hexdigest())
    return 0


if __name__ == "__main__":
    sys.exit(main())
