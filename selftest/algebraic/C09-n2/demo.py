"""C09 / n2 equivalence demo: shape / shift formulas of resize, array_to_blocks,
ArrayToBlocks, BlocksToArray, Downsample, Upsample (and Resize, dirac which
sit on top of resize).

Prints a SHA256 digest over all results (values rounded to 10 significant
digits, dtypes, shapes, linop reprs, exception types for invalid inputs, and a
digest of the caller's input arrays after each call).  The digest must be
identical on the pristine tree and on the tree with the n2 rewrite applied.
"""
import hashlib
import itertools

import numpy as np

import sigpy as sp

H = hashlib.sha256()
COUNT = [0, 0]


def _fmt(a):
    a = np.asarray(a)
    if a.dtype.kind in "biu":
        return a.astype(np.int64).tobytes()
    if a.dtype.kind == "c":
        a = a.astype(np.complex128).ravel()
        vals = np.stack([a.real, a.imag], -1).ravel()
    else:
        vals = a.astype(np.float64).ravel()
    return ",".join("%.9e" % (v + 0.0) for v in vals).encode()


def record(tag, obj):
    COUNT[0] += 1
    H.update(tag.encode())
    if isinstance(obj, BaseException):
        COUNT[1] += 1
        H.update(("EXC:" + type(obj).__name__).encode())
    elif isinstance(obj, np.ndarray):
        H.update(("%s|%s|" % (obj.dtype, obj.shape)).encode())
        H.update(_fmt(obj))
    else:
        H.update(repr(obj).encode())


def call(tag, f, *args, inputs=(), **kw):
    try:
        out = f(*args, **kw)
    except BaseException as e:  # noqa
        out = e
        while isinstance(out, RuntimeError) and out.__cause__ is not None:
            out = out.__cause__
    record(tag, out)
    for k, a in enumerate(inputs):
        record(tag + "/in%d" % k, a)
    return out


def make(shape, dtype, rng):
    n = int(np.prod(shape))
    if np.dtype(dtype).kind == "c":
        x = rng.standard_normal(n) + 1j * rng.standard_normal(n)
    elif np.dtype(dtype).kind == "f":
        x = rng.standard_normal(n) * 1e3
    else:
        x = rng.randint(-1000, 1000, size=n)
    return np.asarray(x).astype(dtype).reshape(shape)


def linop_info(A):
    try:
        adj = repr(A.H)
    except Exception as e:  # adjoint not constructible: record the type
        adj = "EXC:" + type(e).__name__
    return "%r|%s|%r|%r" % (A, adj, A.ishape, A.oshape)


def main():
    rng = np.random.RandomState(2024)
    dtypes = [np.float32, np.float64, np.complex64, np.complex128, np.int64]

    # ------------------------------------------------------------ resize
    k = 0
    for n in range(1, 9):
        for m in range(1, 9):
            dtype = dtypes[k % len(dtypes)]
            k += 1
            x = make([n], dtype, rng)
            call("resize %d->%d" % (n, m), sp.resize, x, [m], inputs=(x,))
            call("resize %d->%d np.int" % (n, m), sp.resize, x,
                 (np.int64(m),), inputs=(x,))
            for si in range(0, n):
                call("resize %d->%d ishift=%d" % (n, m, si), sp.resize, x,
                     [m], ishift=[si], inputs=(x,))
            for so in range(0, m):
                call("resize %d->%d oshift=%d" % (n, m, so), sp.resize, x,
                     [m], oshift=[so], inputs=(x,))
                call("resize %d->%d both=%d" % (n, m, so), sp.resize, x,
                     [m], ishift=[min(so, n - 1)], oshift=[so], inputs=(x,))
            A = sp.linop.Resize([m], [n])
            record("Resize info %d %d" % (n, m), linop_info(A))
            call("Resize %d->%d" % (n, m), A, x, inputs=(x,))
            y = make([m], dtype, rng)
            call("Resize.H %d->%d" % (n, m), A.H, y, inputs=(y,))
    shapes = [[3, 4], [4, 3], [5, 5], [2, 7], [6, 1], [1, 6], [7, 2]]
    for ish, osh in itertools.product(shapes, repeat=2):
        x = make(ish, np.complex64, rng)
        call("resize2 %s->%s" % (ish, osh), sp.resize, x, osh, inputs=(x,))
        call("resize2 %s->%s ishift" % (ish, osh), sp.resize, x, osh,
             ishift=[0, 1], inputs=(x,))
        call("resize2 %s->%s oshift" % (ish, osh), sp.resize, x, osh,
             oshift=(1, 0), inputs=(x,))
    x = make([3, 4, 5], np.float64, rng)
    for osh in ([5, 4, 3], [2, 6, 5], [4, 5], [60], [2, 3, 4, 5], [1, 1, 1],
                [3, 4, 5], [1, 3, 4, 5], [0, 4, 5], [3, 0, 2]):
        call("resize3 ->%s" % osh, sp.resize, x, osh, inputs=(x,))
    for osh in ([], [2.0, 3, 4], [3, -1, 5], None, 5, ["a", 1, 1]):
        call("resize bad ->%r" % (osh,), sp.resize, x, osh, inputs=(x,))
        call("resize bad both ->%r" % (osh,), sp.resize, x, osh,
             ishift=[0, 0, 0], oshift=[0, 0, 0], inputs=(x,))
    call("resize bad shift len", sp.resize, x, [5, 4, 3], ishift=[1])
    call("resize neg shift", sp.resize, x, [5, 4, 3], oshift=[-1, 0, 0])
    call("resize big shift", sp.resize, x, [5, 4, 3], ishift=[9, 0, 0])
    for shp in ([5], [4], [3, 4], [1], [2, 3, 5]):
        call("dirac %s" % shp, sp.dirac, shp)
        call("dirac c %s" % shp, sp.dirac, shp, dtype=np.complex64)

    # ------------------------------------------------------------ blocks
    axis_cfgs = [(6, 1, 1), (6, 2, 1), (6, 2, 2), (6, 3, 2), (5, 3, 2),
                 (7, 2, 2), (7, 3, 3), (8, 2, 3), (9, 4, 2), (5, 5, 1),
                 (5, 5, 9), (4, 5, 1), (4, 9, 3), (1, 1, 1), (3, 3, 7),
                 (6, 2, -1), (6, 6, -2), (6, 2, -3), (6, 2, -4), (6, 2, -5),
                 (3, 5, -1), (6, 2, 0), (6, 0, 1), (6, 7, 9)]
    for D in (1, 2, 3):
        if D == 1:
            combos = [(c,) for c in axis_cfgs]
        elif D == 2:
            combos = list(itertools.product(axis_cfgs[:16], axis_cfgs))
        else:
            combos = [c for c in itertools.product(axis_cfgs[:9], repeat=3)
                      if (c[0][0] + c[1][1] + c[2][2]) % 4 == 0]
        for ci, cfg in enumerate(combos):
            N = [c[0] for c in cfg]
            B = [c[1] for c in cfg]
            S = [c[2] for c in cfg]
            batch = [[], [2], [2, 3]][ci % 3] if D < 3 else []
            dtype = dtypes[ci % len(dtypes)]
            x = make(batch + N, dtype, rng)
            tag = "blk D=%d N=%s B=%s S=%s batch=%s" % (D, N, B, S, batch)
            y = call(tag + " a2b", sp.array_to_blocks, x, B, S, inputs=(x,))
            A = call(tag + " A ctor", sp.linop.ArrayToBlocks, batch + N, B, S)
            R = call(tag + " R ctor", sp.linop.BlocksToArray, batch + N, B, S)
            if isinstance(A, sp.linop.Linop):
                record(tag + " A info", linop_info(A))
                call(tag + " A(x)", A, x, inputs=(x,))
            if isinstance(R, sp.linop.Linop):
                record(tag + " R info", linop_info(R))
                call(tag + " R.H(x)", R.H, x, inputs=(x,))
                if isinstance(y, np.ndarray):
                    call(tag + " R(y)", R, y, inputs=(y,))
    call("blk numpy params", sp.array_to_blocks, make([7, 9], np.float32, rng),
         np.array([3, 2]), np.array([2, 3]))
    record("blk linop numpy params", linop_info(sp.linop.ArrayToBlocks(
        (7, 9), np.array([3, 2]), (np.int32(2), np.int64(3)))))

    # ------------------------------------------------------ down/upsample
    for n in range(1, 10):
        x = make([n], dtypes[n % len(dtypes)], rng)
        for f in (-3, -2, -1, 0, 1, 2, 3, 4, 11):
            for s in (None, 0, 1, 2, 3, n - 1, n, n + 1, n + 4, -1, -2):
                shift = None if s is None else [s]
                tag = "ds n=%d f=%d s=%r" % (n, f, s)
                D = call(tag + " ctor", sp.linop.Downsample, [n], [f],
                         shift=shift)
                U = call(tag + " U ctor", sp.linop.Upsample, [n], [f],
                         shift=shift)
                if isinstance(D, sp.linop.Linop):
                    record(tag + " info", linop_info(D))
                    y = call(tag + " D(x)", D, x, inputs=(x,))
                    if isinstance(y, np.ndarray):
                        call(tag + " D.H(y)", D.H, y, inputs=(y,))
                if isinstance(U, sp.linop.Linop):
                    record(tag + " U info", linop_info(U))
                    z = make(U.ishape, x.dtype, rng)
                    call(tag + " U(z)", U, z, inputs=(z,))
                    call(tag + " U.H(x)", U.H, x, inputs=(x,))
    for ishape, f, s in [([5, 6], [2, 3], [1, 2]), ([5, 6], [2, 3], None),
                         ([4, 7, 3], [1, 3, 2], [0, 5, 1]),
                         ([5, 6], [2], None), ([5, 6], [2, 3], [1]),
                         ((5, 6), (np.int64(2), 3), np.array([1, 0]))]:
        tag = "ds nd %s %s %r" % (list(ishape), list(f), s)
        x = make(list(ishape), np.complex128, rng)
        D = call(tag + " ctor", sp.linop.Downsample, ishape, f, shift=s)
        if isinstance(D, sp.linop.Linop):
            record(tag + " info", linop_info(D))
            y = call(tag + " D(x)", D, x, inputs=(x,))
            if isinstance(y, np.ndarray):
                call(tag + " D.H(y)", D.H, y, inputs=(y,))
                call(tag + " D.N(x)", D.N, x, inputs=(x,))

    print("results hashed: %d (of which exceptions: %d)" % tuple(COUNT))
    print("DIGEST", H.hexdigest())


if __name__ == "__main__":
    main()
