"""C03 / round 5 / equivalence demo for the behaviour-preserving rewrites.

Exercises the operator algebra (Compose / Add / scalar Multiply / Hstack /
Vstack / Diag and the shape guards) on a spread of inputs and prints a SHA256
digest of everything observable: values (10 significant digits), dtypes,
shapes, advertised shapes, split indices, exception types (and the type of
the chained cause) for invalid inputs, and a digest of the caller's input
arrays after each call.
"""
import hashlib
import pickle
import sys

import numpy as np

import sigpy as sp
from sigpy import linop

H = hashlib.sha256()
N_ITEMS = [0]


def put(*items):
    for it in items:
        H.update(repr(it).encode())
        H.update(b"|")
    N_ITEMS[0] += 1


def arr_sig(a):
    a = np.asarray(a)
    flat = a.ravel()
    if np.iscomplexobj(flat):
        vals = ["%.9e%+.9ej" % (v.real, v.imag) for v in flat]
    elif flat.dtype.kind in "iub":
        vals = ["%d" % v for v in flat]
    else:
        vals = ["%.9e" % v for v in flat]
    return (str(a.dtype), tuple(a.shape), ",".join(vals))


def exc_sig(e):
    c = e.__cause__
    return ("EXC", type(e).__name__, type(c).__name__ if c is not None else None)


def rand(rng, shape, dtype):
    dtype = np.dtype(dtype)
    if dtype.kind == "c":
        x = rng.randn(*shape) + 1j * rng.randn(*shape)
    elif dtype.kind in "iu":
        x = rng.randint(-9, 10, size=shape)
    else:
        x = rng.randn(*shape)
    return x.astype(dtype)


def run(tag, build, inputs):
    """build() -> Linop; apply to every input twice, record everything."""
    try:
        op = build()
    except Exception as e:
        put(tag, "build", exc_sig(e))
        return None
    put(tag, "shapes", list(op.oshape), list(op.ishape), type(op).__name__)
    for attr in ("indices", "iindices", "oindices", "axis", "iaxis", "oaxis"):
        if hasattr(op, attr):
            v = getattr(op, attr)
            put(tag, attr, [int(i) for i in v] if isinstance(v, list) else v)
    for k, x in enumerate(inputs):
        x0 = x.copy()
        for rep in range(2):
            try:
                y = op(x)
                put(tag, k, rep, arr_sig(y), "aliases_input",
                    bool(np.shares_memory(y, x)))
            except Exception as e:
                put(tag, k, rep, exc_sig(e))
            put(tag, k, rep, "input_after", arr_sig(x),
                bool(np.array_equal(x, x0)))
    return op


DTYPES = [np.float32, np.float64, np.complex64, np.complex128, np.int64]


def main():
    rng = np.random.RandomState(2024)

    # ------------------------------------------------------------------
    # stacking: different block sizes, every axis, 1..4 blocks, all dtypes
    # ------------------------------------------------------------------
    for ndim in (1, 2, 3):
        base = [3, 2, 4][:ndim]
        # also include out-of-range axes (they wrap around today)
        for axis in [None] + list(range(-ndim - 1, ndim + 2)):
            ax = 0 if axis is None else axis % ndim
            for nblocks in (1, 2, 3, 4):
                sizes = [base[ax] + (k * 2) % 3 for k in range(nblocks)]
                shapes = []
                for s in sizes:
                    shp = list(base)
                    shp[ax] = s
                    shapes.append(shp)
                wdt = DTYPES[(ndim + nblocks) % 4]
                ws = [rand(rng, shp, wdt) for shp in shapes]
                tag = "nd%d/ax%s/nb%d" % (ndim, axis, nblocks)

                def vops():
                    return [linop.Multiply(shp, w) * linop.Resize(shp, base)
                            for shp, w in zip(shapes, ws)]

                def hops():
                    return [linop.Resize(base, shp) * linop.Multiply(shp, w)
                            for shp, w in zip(shapes, ws)]

                def dops():
                    return [linop.Multiply(shp, w)
                            for shp, w in zip(shapes, ws)]

                cat = list(base)
                cat[ax] = sum(sizes)
                if axis is None:
                    cat = [sum(int(np.prod(s)) for s in shapes)]
                xs_small = [rand(rng, base, dt) for dt in DTYPES]
                xs_cat = [rand(rng, cat, dt) for dt in DTYPES]
                # invalid inputs: wrong size, wrong rank, transposed view
                bad_small = [rand(rng, [b + 1 for b in base], np.float64),
                             rand(rng, base + [2], np.float64),
                             rand(rng, [7], np.complex64)]
                bad_cat = [rand(rng, [c + 1 for c in cat], np.float64),
                           rand(rng, [1] + cat, np.float64)]
                # non-contiguous but correctly shaped input
                big = rand(rng, [2 * c for c in cat], np.complex128)
                strided = big[tuple(slice(None, None, 2) for _ in cat)]

                run(tag + "/V", lambda: linop.Vstack(vops(), axis=axis),
                    xs_small + bad_small)
                run(tag + "/H", lambda: linop.Hstack(hops(), axis=axis),
                    xs_cat + bad_cat + [strided])
                run(tag + "/D",
                    lambda: linop.Diag(dops(), oaxis=axis, iaxis=axis),
                    xs_cat + bad_cat + [strided])
                if axis is not None and ndim > 1:
                    # Diag with different in/out axes: blocks transpose
                    other = (ax + 1) % ndim
                    perm = list(range(ndim))
                    perm[ax], perm[other] = perm[other], perm[ax]
                    run(tag + "/Dx",
                        lambda: linop.Diag(
                            [linop.Transpose(shp, perm) * linop.Multiply(shp, w)
                             for shp, w in zip(shapes, ws)],
                            oaxis=other, iaxis=axis),
                        xs_cat[:2] + bad_cat[:1])
                # adjoints go through the sibling class
                run(tag + "/VH", lambda: linop.Vstack(vops(), axis=axis).H,
                    xs_cat[2:4])
                run(tag + "/HH", lambda: linop.Hstack(hops(), axis=axis).H,
                    xs_small[2:4])
                run(tag + "/DH",
                    lambda: linop.Diag(dops(), oaxis=axis, iaxis=axis).H,
                    xs_cat[2:4])

    # ------------------------------------------------------------------
    # stacking: shape-incompatible operands must be rejected identically
    # ------------------------------------------------------------------
    I = linop.Identity
    bad_sets = [
        ([I([3, 2]), I([3, 3])], 0),
        ([I([3, 2]), I([3, 3])], 1),
        ([I([3, 2]), I([3, 3])], -1),
        ([I([3, 2]), I([3, 3])], None),
        ([I([3, 2]), I([4, 2]), I([3, 3])], 0),
        ([I([3, 2]), I([3])], 0),
        ([I([3]), I([3, 2])], 0),
        ([I([3, 2, 2]), I([3, 2, 3]), I([3, 1, 2])], 0),
        ([I([3, 2, 2]), I([3, 2, 3]), I([3, 1, 2])], 2),
        ([I([2, 3]), linop.Reshape([3, 2], [2, 3])], 0),
        ([I([2, 3]), linop.Reshape([6], [2, 3])], None),
        ([], None),
        ([], 0),
        ((I([2]), I([3])), None),  # tuple of linops
        ((I([2]), I([3])), 0),
    ]
    for n, (ops, axis) in enumerate(bad_sets):
        for cls in ("Hstack", "Vstack"):
            run("bad%d/%s" % (n, cls),
                lambda: getattr(linop, cls)(ops, axis=axis),
                [rand(rng, [2], np.float64), rand(rng, [5], np.float64),
                 rand(rng, [3, 2], np.float64), rand(rng, [6, 2], np.float64)])
        run("bad%d/Diag" % n,
            lambda: linop.Diag(ops, oaxis=axis, iaxis=axis),
            [rand(rng, [5], np.float64), rand(rng, [6, 2], np.float64),
             rand(rng, [3, 5], np.float64), rand(rng, [12], np.float64)])
        run("bad%d/Add" % n, lambda: linop.Add(ops),
            [rand(rng, [2], np.float64), rand(rng, [3, 2], np.float64),
             rand(rng, [2, 3], np.float64)])
        run("bad%d/Compose" % n, lambda: linop.Compose(ops),
            [rand(rng, [2], np.float64), rand(rng, [3], np.float64),
             rand(rng, [3, 2], np.float64), rand(rng, [3, 3], np.float64),
             rand(rng, [2, 3], np.float64)])

    # ------------------------------------------------------------------
    # Compose / Add / scalars / guards
    # ------------------------------------------------------------------
    M1 = rand(rng, [4, 3], np.complex128)
    M2 = rand(rng, [3, 5], np.float64)
    M3 = rand(rng, [4, 3], np.float32)
    A1 = linop.MatMul([3, 1], M1)
    A2 = linop.MatMul([5, 1], M2)
    A3 = linop.MatMul([3, 1], M3)
    scal = [2, -1.5, 0.3 - 2j, np.float32(0.25), np.complex64(1j), 1, 0]
    xs3 = [rand(rng, [3, 1], dt) for dt in DTYPES]
    xs5 = [rand(rng, [5, 1], dt) for dt in DTYPES]
    wrong = [rand(rng, [4, 1], np.float64), rand(rng, [3], np.float64),
             rand(rng, [3, 1, 2], np.float64), rand(rng, [5, 2], np.float64)]
    trees = {
        "A1*A2": (lambda: A1 * A2, xs5),
        "A1+A3": (lambda: A1 + A3, xs3),
        "A1-A3": (lambda: A1 - A3, xs3),
        "-A1": (lambda: -A1, xs3),
        "A1+A3+A1": (lambda: A1 + A3 + A1, xs3),
        "Add3": (lambda: linop.Add([A1, A3, A1 - A3]), xs3),
        "Compose3": (lambda: linop.Compose([A1.H, A1, A2]), xs5),
        "nested": (lambda: linop.Compose([linop.Compose([A1.H, A1]),
                                          linop.Compose([A2, A2.H]), A2]), xs5),
        "A1*A1 (bad)": (lambda: A1 * A1, xs3),
        "A2*A1 (bad)": (lambda: A2 * A1, xs3),
        "A1+A2 (bad)": (lambda: A1 + A2, xs3),
        "A1-A2 (bad)": (lambda: A1 - A2, xs3),
        "A1+A1.H (bad)": (lambda: A1 + A1.H, xs3),
        "A1+3 (bad)": (lambda: A1 + 3, xs3),
        "A1*'s' (bad)": (lambda: A1 * "s", xs3),
        "Compose prefix (bad)": (
            lambda: linop.Compose([I([3, 1]), linop.Reshape([3], [3, 1])]),
            xs3),
        "Compose prefix2 (bad)": (
            lambda: linop.Compose([I([3]), linop.Reshape([3, 1], [3])]),
            [rand(rng, [3], np.float64)]),
        "Add prefix (bad)": (
            lambda: linop.Add([I([3, 1]), linop.Reshape([3], [3, 1])]), xs3),
        "N": (lambda: (A1 * A2).N, xs5),
        "H": (lambda: (A1 * A2).H, [rand(rng, [4, 1], dt) for dt in DTYPES]),
    }
    for a in scal:
        trees["%r*A1" % (a,)] = (lambda a=a: a * A1, xs3)
        trees["A1*%r" % (a,)] = (lambda a=a: A1 * a, xs3)
        trees["%r*A1-A3*%r" % (a, a)] = (lambda a=a: a * A1 - A3 * a, xs3)
        trees["(%r*A1).H" % (a,)] = (
            lambda a=a: (a * A1).H, [rand(rng, [4, 1], np.complex128)])
    for name, (build, xs) in trees.items():
        op = run("tree/" + name, build, list(xs) + wrong)
        if op is not None:
            put("tree/" + name, "repr", repr(op),
                repr(pickle.loads(pickle.dumps(op))))

    # guards called directly with odd inputs
    G = linop.Resize([4, 5], [2, 3])
    for x in [rand(rng, [2, 3], np.float64), rand(rng, [2], np.float64),
              rand(rng, [2, 3, 9], np.float64), rand(rng, [3, 2], np.float64),
              rand(rng, [2, 4], np.float64), np.float64(3.0) * np.ones([])]:
        for fn in (G._check_ishape, G._check_oshape):
            try:
                put("guard", fn.__name__, x.shape, fn(x))
            except Exception as e:
                put("guard", fn.__name__, x.shape, exc_sig(e))
        try:
            put("guard/apply", x.shape, arr_sig(G(x)))
        except Exception as e:
            put("guard/apply", x.shape, exc_sig(e))

    print("items: %d" % N_ITEMS[0])
    print("DIGEST " + H.hexdigest())
    return 0


if __name__ == "__main__":
    sys.exit(main())
