"""Equivalence demo for C05 refactor n2 (linop.FFT / linop.IFFT share a small
private base class). Prints a SHA256 digest of the observable behaviour of the
two operators: results, dtypes, shapes, adjoint / normal operators, reprs,
instance state, signatures, exception types for invalid use, and the caller's
input arrays after each call. The digest must be identical on the pristine and
the refactored tree.
"""
import hashlib
import inspect
import itertools
import warnings

import numpy as np

import sigpy as sp
from sigpy import linop

warnings.simplefilter("ignore")

H = hashlib.sha256()


def put(*items):
    for it in items:
        H.update(repr(it).encode())
        H.update(b"|")


def put_array(a):
    a = np.asarray(a)
    put(str(a.dtype), a.shape)
    flat = a.ravel()
    if np.iscomplexobj(flat):
        vals = np.stack([flat.real, flat.imag], -1).ravel()
    else:
        vals = flat.astype(np.float64)
    put(["%.9e" % v for v in vals])


def make(rng, shape, dtype):
    if np.issubdtype(dtype, np.complexfloating):
        x = rng.randn(*shape) + 1j * rng.randn(*shape)
    elif np.issubdtype(dtype, np.floating):
        x = rng.randn(*shape)
    else:
        x = rng.randint(-5, 6, size=shape)
    return x.astype(dtype)


def call(tag, f, x):
    before = x.copy()
    try:
        y = f(x)
    except Exception as e:  # noqa
        put(tag, "EXC", type(e).__name__, type(e.__cause__).__name__)
        y = None
    else:
        put(tag, "OK")
        put_array(y)
    put("input-after")
    put_array(x)
    put("unchanged", bool(np.array_equal(before, x)))
    return y


def state(A):
    d = vars(A)
    put(sorted(d.keys()))
    put(type(A).__name__, repr(A), A.repr_str, A.oshape, A.ishape,
        type(A.oshape).__name__, type(A.ishape).__name__,
        repr(A.axes), A.center)
    put(isinstance(A, linop.Linop), isinstance(A, linop.FFT),
        isinstance(A, linop.IFFT))


def main():
    rng = np.random.RandomState(4321)
    classes = [("FFT", linop.FFT), ("IFFT", linop.IFFT)]

    for name, cls in classes:
        put(name, str(inspect.signature(cls)),
            str(inspect.signature(cls.__init__)), cls.__doc__,
            cls.__name__, cls.__module__, issubclass(cls, linop.Linop))

    shapes = [(1,), (5,), (8,), (3, 4), (5, 1), (4, 5, 6), (2, 3, 1, 5)]
    dtypes = [np.complex64, np.complex128, np.float32, np.float64, np.int64]

    def axes_sets(ndim):
        out = [None, (), (0,), (-1,), [0]]
        if ndim >= 2:
            out += [(0, -1), (-1, 0), (1,), range(-2, 0)]
        if ndim >= 3:
            out += [(0, 2), (-3, -1), tuple(range(ndim))]
        return out

    for (name, cls), shape in itertools.product(classes, shapes):
        for axes in axes_sets(len(shape)):
            for center in (True, False):
                A = cls(shape, axes=axes, center=center)
                tag = (name, shape, repr(axes), center)
                state(A)
                for dtype in dtypes:
                    x = make(rng, shape, dtype)
                    y = call(tag + ("apply", str(np.dtype(dtype))), A, x)
                    call(tag + ("mul",), lambda v: A * v, x)
                    call(tag + ("apply2",), A.apply, x)  # repeated call
                    if y is not None:
                        call(tag + ("H",), A.H, y)
                        call(tag + ("N",), A.N, x)
                        call(tag + ("HH",), A.H.H, x)
                        call(tag + ("H*A",), A.H * A, x)
                # adjoint / normal structure and caching
                AH = A.H
                state(AH)
                put(AH is A.H, type(A.N).__name__, A.N is A.N,
                    A.N.ishape, A.N.oshape, type(AH.N).__name__)
                state(AH.H)
                put(AH.H is A)
                state(A)  # state after .H / .N were taken
                # algebra
                B = 2j * A
                C = A + AH.H
                D = A - A
                x = make(rng, shape, np.complex128)
                for t, op in (("2jA", B), ("A+A", C), ("A-A", D),
                              ("-A", -A), ("B.H", B.H), ("C.H", C.H)):
                    put(t, repr(op))
                    call(tag + (t,), op, x)

    # several operators alive at the same time, used after all were built
    shape = (4, 5, 3)
    cfgs = [(a, c) for a in (None, (0,), (-1,), (1, 2), ()) for c in (True, False)]
    ops = [cls(shape, axes=a, center=c) for _, cls in classes for a, c in cfgs]
    adjs = [A.H for A in ops]
    x = make(rng, shape, np.complex128)
    for A, AH in zip(ops, adjs):
        state(A)
        y = call(("alive", repr(A.axes), A.center), A, x)
        call(("alive-H",), AH, y)
        call(("alive-HH",), AH.H, x)

    # positional construction
    x = make(rng, (4, 5), np.complex64)
    for name, cls in classes:
        A = cls((4, 5), (1,), False)
        state(A)
        call((name, "positional"), A, x)
        A = cls([4, 5])
        state(A)
        call((name, "list-shape"), A, x)

    # invalid construction / invalid use
    bad_ctor = [
        dict(shape=(0, 3)),
        dict(shape=(-1, 3)),
        dict(shape=3),
        dict(shape=None),
        dict(shape=(3, 4), bogus=1),
        dict(),
    ]
    for (name, cls), kw in itertools.product(classes, bad_ctor):
        try:
            A = cls(**kw)
            put(name, "ctor", repr(sorted(kw.items())), "OK")
            state(A)
        except Exception as e:  # noqa
            put(name, "ctor", repr(sorted(kw.items())), "EXC",
                type(e).__name__)

    for name, cls in classes:
        for axes in [(2,), (-3,), 3, "a", (0, 0), (1.0,)]:
            try:
                A = cls((3, 4), axes=axes)
                put(name, "badaxes-ctor", repr(axes), "OK")
            except Exception as e:  # noqa
                put(name, "badaxes-ctor", repr(axes), "EXC",
                    type(e).__name__)
                continue
            call((name, "badaxes", repr(axes)), A, x[:3, :4].copy())
            try:
                call((name, "badaxes-H", repr(axes)), A.H, x[:3, :4].copy())
            except Exception as e:  # noqa
                put("EXC-H", type(e).__name__)
        A = cls((3, 4))
        for bad in [np.zeros((4, 3), np.complex64), np.zeros((3,), complex),
                    np.zeros((3, 4, 2), complex), np.zeros((3, 5), complex)]:
            call((name, "badshape", bad.shape), A, bad)
            call((name, "badshape-H", bad.shape), A.H, bad)
        for obj in [None, "x", [1, 2, 3], 2.5]:
            try:
                r = A * obj
                put(name, "mul-obj", repr(obj), type(r).__name__, repr(r))
            except Exception as e:  # noqa
                put(name, "mul-obj", repr(obj), "EXC", type(e).__name__)
            try:
                r = A(obj)
                put(name, "call-obj", repr(obj), type(r).__name__)
            except Exception as e:  # noqa
                put(name, "call-obj", repr(obj), "EXC", type(e).__name__)

    # use inside a composed MRI operator (FFT over the last axes only)
    mps = make(rng, (3, 6, 5), np.complex64)
    S = sp.mri.linop.Sense(mps)
    img = make(rng, (6, 5), np.complex64)
    put(repr(S))
    ksp = call(("sense",), S, img)
    call(("sense.H",), S.H, ksp)
    call(("sense.N",), S.N, img)

    print(H.hexdigest())


if __name__ == "__main__":
    import sigpy.mri  # noqa

    main()
