"""C02 / round 4 / refactor n2 - equivalence demonstration.

Exercises sigpy.fft / sigpy.ifft (all parameters: oshape zero-padding and
cropping, axes given as None / tuple / list / range / negative / repeated,
center on and off, every norm mode), the private centred helpers, and the
users of these functions (linop.FFT / IFFT incl. .H / .N / repeated calls,
nufft / nufft_adjoint, linop.NUFFT with and without the Toeplitz normal
operator) on real, complex, integer and bool data of several shapes, plus
invalid inputs.  Prints one SHA256 digest over all results: values rounded to
10 significant digits, dtypes, shapes, whether the result shares memory with
the argument, exception types, signatures, and the caller's input arrays after
every call.
"""
import hashlib
import inspect

import numpy as np

import sigpy as sp
from sigpy import fourier, linop

H = hashlib.sha256()
COUNT = [0]


def canon(obj):
    if isinstance(obj, np.ndarray):
        flat = np.asarray(obj).ravel()
        if np.iscomplexobj(flat):
            vals = ",".join("%.9e%+.9ej" % (v.real, v.imag) for v in flat)
        else:
            vals = ",".join("%.9e" % float(v) for v in flat)
        return "ndarray|%s|%s|%s" % (obj.dtype.str, obj.shape, vals)
    if isinstance(obj, (list, tuple)):
        return "[" + ";".join(canon(o) for o in obj) + "]"
    return "%s|%r" % (type(obj).__name__, obj)


def rec(label, obj):
    COUNT[0] += 1
    H.update(("%s=%s\n" % (label, canon(obj))).encode())


def rec_exc(label, fn, arg=None):
    try:
        out = fn()
    except BaseException as e:  # noqa
        chain = [type(e).__name__]
        c = e.__cause__
        while c is not None:
            chain.append(type(c).__name__)
            c = c.__cause__
        rec(label, "EXC:" + ">".join(chain))
        return None
    rec(label, out)
    if arg is not None and isinstance(out, np.ndarray):
        rec(label + ".aliases arg", bool(np.shares_memory(out, arg)))
        rec(label + ".flags", [out.flags.c_contiguous, out.flags.writeable])
    return out


rng = np.random.RandomState(777)
DTYPES = [
    np.float32,
    np.float64,
    np.complex64,
    np.complex128,
    np.int32,
    np.int64,
    np.bool_,
    np.float16,
]


def rand(shape, dtype):
    x = rng.randn(*shape) * 3
    if np.issubdtype(dtype, np.complexfloating):
        x = x + 3j * rng.randn(*shape)
    if dtype == np.bool_:
        return x > 0
    return x.astype(dtype)


for f in [sp.fft, sp.ifft, fourier.fft, fourier.ifft]:
    rec(f.__name__ + ".signature", str(inspect.signature(f)))
    rec(f.__name__ + ".doc", f.__doc__)
    rec(f.__name__ + ".module", f.__module__)
rec("same objects", [sp.fft is fourier.fft, sp.ifft is fourier.ifft])
rec("__all__", list(fourier.__all__))

# ------------------------------------------------- the functions themselves
CASES = [
    ([8], {}),
    ([7], {}),
    ([1], {}),
    ([4, 6], {}),
    ([5, 3], {"axes": (0,)}),
    ([5, 3], {"axes": (-1,)}),
    ([5, 3], {"axes": [1, 0]}),
    ([5, 3], {"axes": (-1, 0)}),
    ([5, 3], {"axes": range(-2, 0)}),
    ([5, 3], {"axes": (0, 0)}),
    ([5, 3], {"axes": ()}),
    ([3, 4, 5], {"axes": (0, 2)}),
    ([2, 3, 2, 3], {"axes": (1, -1)}),
    ([6], {"oshape": [9]}),
    ([6], {"oshape": (4,)}),
    ([6], {"oshape": [6]}),
    ([4, 5], {"oshape": [6, 3]}),
    ([4, 5], {"oshape": [1, 4, 5]}),
    ([4, 5], {"oshape": [4, 8], "axes": (-1,)}),
    ([4, 5], {"oshape": [7]}),
    ([4, 5], {"oshape": [4, 5, 2]}),
]
NORMS = ["ortho", None, "forward", "backward", "bogus"]

for ci, (shape, kw) in enumerate(CASES):
    for name, f in [("fft", sp.fft), ("ifft", sp.ifft)]:
        for center in [True, False, 0, 1]:
            for norm in NORMS:
                dts = DTYPES if (norm == "ortho" and center in (True, False)) \
                    else [np.float64, np.complex64]
                for dtype in dts:
                    t = "%s#%d[c=%r,n=%r,%s]" % (
                        name,
                        ci,
                        center,
                        norm,
                        np.dtype(dtype).name,
                    )
                    x = rand(shape, dtype)
                    x0 = x.copy()
                    rec_exc(
                        t, lambda: f(x, center=center, norm=norm, **kw), x
                    )
                    rec(t + ".x after", x)
                    rec(t + ".x untouched", bool(np.array_equal(x, x0)))
    # positional call, repeated call, views, read-only, F-order
    for name, f in [("fft", sp.fft), ("ifft", sp.ifft)]:
        t = "%s#%d.extra" % (name, ci)
        x = rand(shape, np.complex128)
        args = (kw.get("oshape"), kw.get("axes"))
        rec_exc(t + ".positional", lambda: f(x, *args, True, "ortho"), x)
        rec_exc(t + ".positional nc", lambda: f(x, *args, False, None), x)
        rec_exc(t + ".again", lambda: f(x, **kw), x)
        xb = rand([2] + list(shape), np.complex64)
        rec_exc(t + ".view", lambda: f(xb[1], **kw), xb)
        rec_exc(t + ".F", lambda: f(np.asfortranarray(x), **kw))
        xr = x.copy()
        xr.setflags(write=False)
        rec_exc(t + ".readonly", lambda: f(xr, **kw), xr)
        rec_exc(t + ".roundtrip", lambda: sp.ifft(sp.fft(x, **kw), **kw))

# private centred helpers, called the way nothing else does
x = rand([4, 5], np.complex128)
for name in ["_fftc", "_ifftc"]:
    g = getattr(fourier, name)
    rec(name + ".signature", str(inspect.signature(g)))
    rec_exc(name + ".default", lambda: g(x), x)
    rec_exc(name + ".kw", lambda: g(x, oshape=[6, 3], axes=(1,), norm=None), x)
    rec_exc(name + ".pos", lambda: g(x, [4, 5], None, "forward"), x)
    rec_exc(name + ".real", lambda: g(x.real), x)

# invalid inputs
for name, f in [("fft", sp.fft), ("ifft", sp.ifft)]:
    x = rand([4, 5], np.complex128)
    rec_exc(name + ".list", lambda: f([1.0, 2.0, 3.0]))
    rec_exc(name + ".scalar", lambda: f(3.0))
    rec_exc(name + ".0d", lambda: f(np.array(3.0)))
    rec_exc(name + ".0d nc", lambda: f(np.array(3.0), center=False))
    rec_exc(name + ".empty", lambda: f(np.zeros([0])))
    rec_exc(name + ".axes oob c", lambda: f(x, axes=(5,)))
    rec_exc(name + ".axes oob nc", lambda: f(x, axes=(5,), center=False))
    rec_exc(name + ".axes str", lambda: f(x, axes="ab"))
    rec_exc(name + ".axes int", lambda: f(x, axes=1))
    rec_exc(name + ".axes int nc", lambda: f(x, axes=1, center=False))
    rec_exc(name + ".oshape nc", lambda: f(x, oshape=[6, 3], center=False), x)
    rec_exc(
        name + ".oshape nc axes",
        lambda: f(x, oshape=[6], axes=(-1,), center=False),
        x,
    )
    rec_exc(name + ".oshape bad nc", lambda: f(x, oshape=[6], center=False))
    rec_exc(name + ".oshape neg", lambda: f(x, oshape=[-1, 5]))
    rec_exc(name + ".bad kw", lambda: f(x, axis=0))
    rec_exc(name + ".too many", lambda: f(x, None, None, True, "ortho", 1))
    rec_exc(name + ".no args", lambda: f())
    rec_exc(name + ".str dtype", lambda: f(np.array(["a", "b"])))
    rec_exc(name + ".object", lambda: f(np.array([1, 2.5], dtype=object)))
    rec_exc(name + ".longdouble", lambda: f(x.real.astype(np.longdouble)))
    rec_exc(name + ".clongdouble", lambda: f(x.astype(np.clongdouble)), x)

# ----------------------------------------------------- users: FFT / IFFT
for ci, (shape, kw) in enumerate(
    [
        ([8], {}),
        ([5, 3], {"axes": (-1,)}),
        ([4, 4], {"center": False}),
        ([3, 4, 5], {"axes": (0, 2), "center": False}),
    ]
):
    for cls in [linop.FFT, linop.IFFT]:
        A = cls(shape, **kw)
        for dtype in DTYPES[:4]:
            t = "%s#%d[%s]" % (cls.__name__, ci, np.dtype(dtype).name)
            x = rand(shape, dtype)
            x0 = x.copy()
            rec_exc(t + ".A(x)#1", lambda: A(x), x)
            rec_exc(t + ".A(x)#2", lambda: A(x), x)
            rec_exc(t + ".AH(x)", lambda: A.H(x), x)
            rec_exc(t + ".AN(x)", lambda: A.N(x))
            rec_exc(t + ".AHH(x)", lambda: A.H.H(x))
            rec_exc(t + ".AH(A(x))", lambda: A.H(A(x)))
            rec_exc(t + ".A(x)#3", lambda: A(x))
            rec(t + ".x untouched", bool(np.array_equal(x, x0)))
            rec_exc(t + ".bad", lambda: A(rand([s + 1 for s in shape], dtype)))

# ------------------------------------------------------- users: NUFFT
for ndim, shape in [(1, [9]), (2, [6, 5]), (2, [3, 6, 5])]:
    coord = (rng.rand(11, ndim) - 0.5) * np.array(shape[-ndim:])
    c0 = coord.copy()
    for dtype in [np.complex64, np.complex128, np.float64]:
        t = "nufft%dd%s[%s]" % (ndim, shape, np.dtype(dtype).name)
        x = rand(shape, dtype)
        x0 = x.copy()
        y = rec_exc(t + ".fwd", lambda: sp.nufft(x, coord), x)
        rec_exc(t + ".fwd os", lambda: sp.nufft(x, coord, 2, 3), x)
        if y is not None:
            rec_exc(t + ".adj", lambda: sp.nufft_adjoint(y, coord, shape), y)
            rec_exc(t + ".adj est", lambda: sp.nufft_adjoint(y, coord), y)
        rec(t + ".x untouched", bool(np.array_equal(x, x0)))
        rec(t + ".coord untouched", bool(np.array_equal(coord, c0)))
    for toep in [False, True]:
        A = linop.NUFFT(shape, coord, toeplitz=toep)
        x = rand(shape, np.complex128)
        t = "NUFFT%dd%s[toep=%r]" % (ndim, shape, toep)
        rec_exc(t + ".A(x)", lambda: A(x))
        rec_exc(t + ".AN(x)#1", lambda: A.N(x))
        rec_exc(t + ".AN(x)#2", lambda: A.N(x))
        rec_exc(t + ".AH(A(x))", lambda: A.H(A(x)))

print("records:", COUNT[0])
print("digest:", H.hexdigest())
