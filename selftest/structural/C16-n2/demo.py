"""C16 / round 4 / n2 - equivalence digest for the solver selection /
dispatch of sigpy.app.LinearLeastSquares (and the MRI recons built on it)."""
import hashlib
import warnings

import numpy as np

import sigpy as sp
import sigpy.mri as mr

warnings.simplefilter("ignore")
H = hashlib.sha256()
COUNT = {"ok": 0, "exc": 0}


def rnd(a):
    a = np.asarray(a)
    if a.dtype.kind == "c":
        return np.stack([rnd(a.real), rnd(a.imag)])
    if a.dtype.kind != "f":
        return a
    a = a.astype(np.float64)
    out = np.zeros_like(a)
    nz = np.isfinite(a) & (a != 0)
    e = np.floor(np.log10(np.abs(a[nz])))
    out[nz] = np.round(a[nz] / 10.0**e, 9) * 10.0**e
    out[~np.isfinite(a)] = a[~np.isfinite(a)]
    return out


def put(tag, v):
    if isinstance(v, np.ndarray):
        H.update(
            ("%s|%s|%s|" % (tag, v.dtype, v.shape)).encode()
            + np.ascontiguousarray(rnd(v)).tobytes()
        )
    else:
        H.update(("%s|%r|" % (tag, v)).encode())


def run(tag, make, arrays):
    np.random.seed(0)
    try:
        app = make()
        put(tag + ":solver", app.solver)
        put(tag + ":solver_type", type(app.solver).__name__)
        put(tag + ":alg", type(app.alg).__name__)
        put(tag + ":alg_max_iter", app.alg.max_iter)
        put(tag + ":ret_get_alg", app._get_alg())  # second dispatch
        put(tag + ":alg2", type(app.alg).__name__)
        out = app.run()
        put(tag + ":out", out)
        put(tag + ":out_is_x", out is app.x)
        put(tag + ":iter", app.alg.iter)
        put(tag + ":obj", float(app.objective()) if app.g is not None
            or app.proxg is None else "n/a")
        COUNT["ok"] += 1
    except Exception as e:
        put(tag + ":exc", type(e).__name__ + ":" + str(e)[:60])
        COUNT["exc"] += 1
    for i, a in enumerate(arrays):
        put(tag + ":in%d" % i, a)


SOLVERS = [
    None,
    "ConjugateGradient",
    "GradientMethod",
    "PrimalDualHybridGradient",
    "ADMM",
    np.str_("ADMM"),
    "admm",
    "",
    "Conjugate Gradient",
    b"ADMM",
    0,
    1.5,
    False,
    ("ADMM",),
    ["ConjugateGradient"],
    np.array("GradientMethod"),
    np.array(["ADMM", "ADMM"]),
]


def main():
    rng = np.random.RandomState(7)

    # generic LinearLeastSquares on dense operators
    for dtype in [np.float64, np.float32, np.complex128, np.complex64]:
        for m, n in [(7, 5), (5, 5), (4, 6)]:
            mat = rng.randn(m, n)
            if np.dtype(dtype).kind == "c":
                mat = mat + 1j * rng.randn(m, n)
            mat = mat.astype(dtype)
            A = sp.linop.MatMul([n, 1], mat)
            G = sp.linop.FiniteDifference([n, 1], axes=[0])
            y = (mat @ rng.randn(n, 1)).astype(dtype)
            z = rng.randn(n, 1).astype(dtype)
            for solver in SOLVERS:
                for lamda in [0, 0.1]:
                    for pname in ["none", "l1", "l2"]:
                        for use_G in [False, True]:
                            for use_z in [False, True]:
                                if use_z and lamda == 0:
                                    continue
                                shape = G.oshape if use_G else [n, 1]
                                proxg = {
                                    "none": None,
                                    "l1": sp.prox.L1Reg(shape, 0.05),
                                    "l2": sp.prox.L2Reg(shape, 0.05),
                                }[pname]
                                yy, zz = y.copy(), z.copy()
                                x0 = np.zeros([n, 1], dtype=dtype)

                                def make():
                                    return sp.app.LinearLeastSquares(
                                        A, yy, x=x0, proxg=proxg,
                                        lamda=lamda,
                                        G=G if use_G else None,
                                        z=zz if use_z else None,
                                        solver=solver, max_iter=6,
                                        show_pbar=False)

                                tag = "lls/%s/%dx%d/%r/%s/%s/%s/%s" % (
                                    np.dtype(dtype), m, n, solver, lamda,
                                    pname, use_G, use_z)
                                run(tag, make, [yy, zz, x0, mat])

    # the MRI recons (solver=None default selection and explicit solvers)
    for ishape, nc in [((6, 6), 4), ((5, 7), 3), ((4, 4, 3), 2)]:
        mps = mr.sim.birdcage_maps((nc,) + ishape)
        img = rng.randn(*ishape) + 1j * rng.randn(*ishape)
        mask = (rng.rand(*ishape) > 0.3).astype(np.float64)
        ksp = mask * sp.fft(mps * img, axes=range(-len(ishape), 0))
        for dtype in [np.complex128, np.complex64]:
            for name, cls, args in [
                ("sense", mr.app.SenseRecon, (0.03,)),
                ("l1w", mr.app.L1WaveletRecon, (0.01,)),
                ("tv", mr.app.TotalVariationRecon, (0.01,)),
            ]:
                for solver in SOLVERS:
                    for cbs in [None, 2]:
                        k = ksp.astype(dtype)
                        mp = mps.astype(dtype)

                        def make():
                            return cls(k, mp, *args, solver=solver,
                                       coil_batch_size=cbs, max_iter=4,
                                       show_pbar=False)

                        tag = "mri/%s/%s/%s/%r/%s" % (
                            ishape, np.dtype(dtype), name, solver, cbs)
                        run(tag, make, [k, mp])

    print("cases run to completion: %(ok)d, cases raising: %(exc)d" % COUNT)
    print("sha256:", H.hexdigest())


if __name__ == "__main__":
    main()
