"""Equivalence demo for the C10 structural refactors (n1 / n2).

Exercises sigpy.wavelet.{get_wavelet_shape,fwt,iwt} and
sigpy.linop.{Wavelet,InverseWavelet} on a spread of inputs and prints one
SHA256 digest of everything observable: values (10 significant digits),
dtypes, shapes, coefficient slices, operator state (instance attributes,
repr, shapes, pickled copy), exception types for invalid inputs and a digest
of the caller's arrays after each call.
"""
import hashlib
import pickle
import sys
import warnings

import numpy as np

import sigpy as sp
from sigpy import linop, wavelet

warnings.simplefilter("ignore")

H = hashlib.sha256()
NREC = [0]
NOK = [0]
NEXC = [0]


def rec(*items):
    for it in items:
        H.update(repr(it).encode())
        H.update(b"|")
    H.update(b"\n")
    NREC[0] += 1


def arr_repr(a):
    if not isinstance(a, np.ndarray):
        return ("notarray", type(a).__name__, repr(a))
    flat = np.ascontiguousarray(a).ravel()
    if np.iscomplexobj(flat):
        vals = ["%.9e%+.9ej" % (v.real + 0.0, v.imag + 0.0) for v in flat]
    else:
        vals = ["%.9e" % (float(v) + 0.0) for v in flat]
    return (str(a.dtype), a.shape, hashlib.sha256(
        ",".join(vals).encode()).hexdigest())


def call(tag, f, *args, inputs=()):
    try:
        out = f(*args)
    except BaseException as e:  # noqa
        NEXC[0] += 1
        rec(tag, "EXC", type(e).__name__,
            type(e.__cause__).__name__ if e.__cause__ is not None else None)
        out = None
    else:
        NOK[0] += 1
        if isinstance(out, tuple):
            rec(tag, "OK", tuple(arr_repr(o) if isinstance(o, np.ndarray)
                                 else repr(o) for o in out))
        else:
            rec(tag, "OK", arr_repr(out) if isinstance(out, np.ndarray)
                else repr(out))
    for k, a in enumerate(inputs):
        rec(tag, "input-after", k, arr_repr(a))
    return out


def make(shape, dtype, rng):
    x = rng.standard_normal(shape)
    if np.issubdtype(dtype, np.complexfloating):
        x = x + 1j * rng.standard_normal(shape)
    if np.issubdtype(dtype, np.integer):
        x = np.round(10 * x)
    return x.astype(dtype)


def op_state(tag, A):
    rec(tag, "state", type(A).__name__, sorted(vars(A).keys()),
        repr(A), A.oshape, A.ishape, A.repr_str,
        repr(getattr(A, "wave_name", None)), repr(getattr(A, "axes", None)),
        repr(getattr(A, "level", None)),
        repr(getattr(A, "coeff_slices", "<none>")),
        isinstance(A, linop.Linop))
    B = pickle.loads(pickle.dumps(A))
    rec(tag, "pickled", type(B).__name__, sorted(vars(B).keys()), repr(B),
        repr(getattr(B, "coeff_slices", "<none>")))


def main():
    rng = np.random.default_rng(2024)
    shapes = [(8,), (9,), (1,), (3,), (16, 16), (15, 16), (7, 5), (1, 6),
              (6, 5, 4), (3, 9, 2), (130,), (33, 2)]
    waves = ["haar", "db2", "db4", "sym3", "coif1"]
    dtypes = [np.float64, np.float32, np.complex128, np.complex64, np.int32]
    levels = [None, 1, 2, 3]

    k = 0
    for shape in shapes:
        nd = len(shape)
        axes_list = [None, (0,), (-1,), tuple(range(nd))]
        if nd >= 2:
            axes_list += [(0, nd - 1), [1], (-2, -1)]
        if nd == 3:
            axes_list += [(1,), (2, 0)]
        for axes in axes_list:
            wv = waves[k % len(waves)]
            level = levels[k % len(levels)]
            dtype = dtypes[k % len(dtypes)]
            k += 1
            tag = "S%s/%s/%r/%r/%s" % (shape, wv, axes, level,
                                       np.dtype(dtype).name)
            # --- function level
            res = call(tag + "/gws", wavelet.get_wavelet_shape, shape, wv,
                       axes, level)
            x = make(shape, dtype, rng)
            y = call(tag + "/fwt", lambda: wavelet.fwt(
                x, wave_name=wv, axes=axes, level=level), inputs=(x,))
            y2 = call(tag + "/fwt-again", lambda: sp.fwt(x, wv, axes, level),
                      inputs=(x,))
            if res is not None and y is not None:
                cshape, slices = res
                call(tag + "/iwt", lambda: wavelet.iwt(
                    y, shape, slices, wave_name=wv, axes=axes, level=level),
                    inputs=(y,))
                call(tag + "/iwt-listshape", lambda: sp.iwt(
                    y, list(shape), slices, wv, axes, level), inputs=(y,))
                # non contiguous coefficient input
                yy = np.asfortranarray(y)
                call(tag + "/iwt-F", lambda: wavelet.iwt(
                    yy, shape, slices, wave_name=wv, axes=axes),
                    inputs=(yy,))
            # non-contiguous / negative stride view
            xv = make(tuple(2 * s for s in shape), dtype, rng)[
                tuple(slice(None, None, -2) for _ in shape)]
            call(tag + "/fwt-view", lambda: wavelet.fwt(
                xv, wave_name=wv, axes=axes, level=level), inputs=(xv,))

            # --- operator level
            try:
                W = linop.Wavelet(shape, axes=axes, wave_name=wv,
                                  level=level)
            except BaseException as e:  # noqa
                rec(tag, "Wavelet-ctor-EXC", type(e).__name__)
                continue
            op_state(tag + "/W", W)
            WH = W.H
            op_state(tag + "/WH", WH)
            op_state(tag + "/WHH", WH.H)
            rec(tag, "H-cached", W.H is WH, WH.H is WH.H)
            c = call(tag + "/W(x)", W, x, inputs=(x,))
            c = call(tag + "/W*x", lambda: W * x, inputs=(x,))
            if c is not None:
                call(tag + "/WH(c)", WH, c, inputs=(c,))
                call(tag + "/WHH(WH(c))", lambda: WH.H(WH(c)), inputs=(c,))
            call(tag + "/N(x)", W.N, x, inputs=(x,))
            op_state(tag + "/W-after", W)
            V = linop.InverseWavelet(shape, axes=axes, wave_name=wv,
                                     level=level)
            op_state(tag + "/V", V)
            if c is not None:
                call(tag + "/V(c)", V, c, inputs=(c,))
            call(tag + "/V.H(x)", V.H, x, inputs=(x,))
            # wrong-shaped inputs
            bad = make(tuple(s + 1 for s in shape), dtype, rng)
            call(tag + "/W(bad)", W, bad, inputs=(bad,))
            call(tag + "/V(bad)", V, bad, inputs=(bad,))

    # positional constructor arguments, defaults
    for args in [((12,),), ((12,), None, "db2"), ((11, 4), (0,), "sym2", 1),
                 ([10, 3], [0], "haar", 2)]:
        W = linop.Wavelet(*args)
        V = linop.InverseWavelet(*args)
        op_state("pos%r/W" % (args,), W)
        op_state("pos%r/V" % (args,), V)
        x = make(tuple(args[0]), np.complex128, rng)
        c = call("pos%r/W(x)" % (args,), W, x, inputs=(x,))
        call("pos%r/V(c)" % (args,), V, c, inputs=(c,))
    call("defaults/gws", wavelet.get_wavelet_shape, (21, 10))
    xd = make((21, 10), np.float64, rng)
    yd = call("defaults/fwt", wavelet.fwt, xd, inputs=(xd,))
    call("defaults/iwt", wavelet.iwt, yd, (21, 10),
         wavelet.get_wavelet_shape((21, 10))[1], inputs=(yd,))

    # several differently configured operators alive at the same time,
    # built (together with their adjoints) before any of them is applied;
    # other linops built on same-shaped arrays in between
    for shape in [(32, 16), (8, 15), (9,)]:
        cfgs = [dict(wave_name="haar", axes=None, level=1),
                dict(wave_name="haar", axes=(0,), level=2),
                dict(wave_name="db2", axes=(-1,), level=1),
                dict(wave_name="haar", axes=None, level=3),
                dict(wave_name="sym2", axes=None, level=None)]
        ops = [linop.Wavelet(shape, **c) for c in cfgs]
        adjs = [W.H for W in ops]
        if len(shape) == 2:
            m, p = shape
            M = linop.MatMul([p + 1, p], make((m, p + 1), np.float64, rng))
            M.H
            R = linop.RightMatMul([m, p], make((m, p), np.float64, rng).T)
            R.H
        inv = [linop.InverseWavelet(shape, **c) for c in cfgs[::-1]][::-1]
        x = make(shape, np.complex128, rng)
        for j, (W, WH, V) in enumerate(zip(ops, adjs, inv)):
            tag = "multi%s/%d" % (shape, j)
            op_state(tag + "/W", W)
            op_state(tag + "/WH", WH)
            c = call(tag + "/W(x)", W, x, inputs=(x,))
            if c is not None:
                call(tag + "/WH(c)", WH, c, inputs=(c,))
                call(tag + "/V(c)", V, c, inputs=(c,))
            call(tag + "/V.H(x)", V.H, x, inputs=(x,))

    # invalid inputs
    x = make((8, 6), np.float64, rng)
    inval = [
        ("badwave-gws", lambda: wavelet.get_wavelet_shape((8, 6), "nope")),
        ("badwave-fwt", lambda: wavelet.fwt(x, "nope")),
        ("badwave-W", lambda: linop.Wavelet((8, 6), wave_name="nope")),
        ("badwave-V", lambda: linop.InverseWavelet((8, 6), wave_name=3)),
        ("badaxes-gws", lambda: wavelet.get_wavelet_shape((8, 6), "db2",
                                                          (2,))),
        ("badaxes-fwt", lambda: wavelet.fwt(x, "db2", (5,))),
        ("dupaxes-fwt", lambda: wavelet.fwt(x, "db2", (0, 0))),
        ("badaxes-W", lambda: linop.Wavelet((8, 6), axes=(3,))),
        ("neglevel-gws", lambda: wavelet.get_wavelet_shape((8, 6), "db2",
                                                           None, -1)),
        ("neglevel-fwt", lambda: wavelet.fwt(x, "db2", None, -1)),
        ("neglevel-W", lambda: linop.Wavelet((8, 6), level=-2)),
        ("level0-fwt", lambda: wavelet.fwt(x, "db2", None, 0)),
        ("level0-gws", lambda: wavelet.get_wavelet_shape((8, 6), "db2",
                                                         None, 0)),
        ("floatlevel-fwt", lambda: wavelet.fwt(x, "db2", None, 1.5)),
        ("notarray-fwt", lambda: wavelet.fwt([1.0, 2.0, 3.0, 4.0], "haar")),
        ("none-fwt", lambda: wavelet.fwt(None)),
        ("noneshape-gws", lambda: wavelet.get_wavelet_shape(None)),
        ("intshape-gws", lambda: wavelet.get_wavelet_shape(8)),
        ("floatshape-gws", lambda: wavelet.get_wavelet_shape((8.0,))),
        ("zeroshape-gws", lambda: wavelet.get_wavelet_shape((0, 4), "haar")),
        ("zeroshape-W", lambda: linop.Wavelet((0, 4))),
        ("emptyshape-gws", lambda: wavelet.get_wavelet_shape(())),
        ("0d-fwt", lambda: wavelet.fwt(np.array(1.0))),
        ("badslices-iwt", lambda: wavelet.iwt(x, (8, 6), [], "db2")),
        ("noneslices-iwt", lambda: wavelet.iwt(x, (8, 6), None, "db2")),
        ("wrongslices-iwt", lambda: wavelet.iwt(
            x, (8, 6), wavelet.get_wavelet_shape((20, 20), "db2")[1],
            "db2")),
        ("bigoshape-iwt", lambda: wavelet.iwt(
            wavelet.fwt(x, "db2"), (12, 9),
            wavelet.get_wavelet_shape((8, 6), "db2")[1], "db2")),
        ("W(list)", lambda: linop.Wavelet((4,), wave_name="haar")(
            [1.0, 2.0, 3.0, 4.0])),
        ("W*scalar", lambda: repr(2 * linop.Wavelet((4,),
                                                    wave_name="haar"))),
        ("W missing arg", lambda: linop.Wavelet()),
        ("V missing arg", lambda: linop.InverseWavelet()),
        ("W bad kw", lambda: linop.Wavelet((4,), wavelet="haar")),
    ]
    for tag, f in inval:
        call("invalid/" + tag, f, inputs=(x,))

    print("records:", NREC[0], "ok calls:", NOK[0], "raising calls:", NEXC[0])
    print("DIGEST", H.hexdigest())
    return 0


if __name__ == "__main__":
    sys.exit(main())
