"""Equivalence demonstration for the stacking operators (Hstack / Vstack /
Diag and the shape / split-index computation behind them).

Prints a SHA256 digest of: advertised shapes, stored split indices, output
values (10 significant digits), dtypes, shapes, exception types for invalid
operands / inputs, and a digest of the caller's input arrays after each call.
The digest must be identical before and after a behaviour-preserving refactor.
"""
import hashlib
import itertools
import sys
import warnings

import numpy as np

from sigpy import linop

warnings.simplefilter("ignore")

H = hashlib.sha256()
NREC = [0]


def rec(*items):
    NREC[0] += 1
    H.update(("|".join(str(i) for i in items) + "\n").encode())


def fmt_array(a):
    a = np.asarray(a)
    if np.issubdtype(a.dtype, np.complexfloating):
        parts = [a.real.ravel(), a.imag.ravel()]
    else:
        parts = [a.ravel()]
    out = []
    for p in parts:
        p = p.astype(np.float64) + 0.0
        out.append(",".join("%.9e" % v for v in p))
    return ";".join(out)


def rec_array(tag, a):
    rec(tag, type(a).__name__, a.dtype.str, tuple(a.shape), fmt_array(a))


def rec_exc(tag, e):
    chain = []
    while e is not None:
        chain.append(type(e).__name__)
        e = e.__cause__
    rec(tag, "EXC", ">".join(chain))


def ints(seq):
    return [int(v) for v in seq]


def describe(tag, op):
    rec(tag, type(op).__name__, ints(op.oshape), ints(op.ishape), repr(op))
    for name in ("indices", "iindices", "oindices"):
        if hasattr(op, name):
            vals = getattr(op, name)
            rec(tag, name, ints(vals), [type(v).__name__ for v in vals])
    for name in ("axis", "iaxis", "oaxis", "nops"):
        if hasattr(op, name):
            rec(tag, name, repr(getattr(op, name)))


def make_input(rng, shape, dtype):
    shape = ints(shape)
    if np.issubdtype(dtype, np.integer):
        return rng.randint(-5, 6, size=shape).astype(dtype)
    x = rng.standard_normal(shape)
    if np.issubdtype(dtype, np.complexfloating):
        x = x + 1j * rng.standard_normal(shape)
    return x.astype(dtype)


DTYPES = [np.float32, np.float64, np.complex64, np.complex128, np.int32]


def exercise(tag, build, rng, dtypes=DTYPES, adjoint=True):
    try:
        op = build()
    except Exception as e:
        rec_exc(tag + ":build", e)
        return None
    describe(tag, op)
    ops = [("fwd", op)]
    if adjoint:
        try:
            ops.append(("adj", op.H))
            describe(tag + ":adj", op.H)
        except Exception as e:
            rec_exc(tag + ":adjbuild", e)
    for which, A in ops:
        for dtype in dtypes:
            x = make_input(rng, A.ishape, dtype)
            x0 = x.copy()
            for rep in range(2):  # repeated calls
                try:
                    y = A(x)
                    rec_array("{}:{}:{}:{}".format(tag, which, dtype.__name__, rep), y)
                except Exception as e:
                    rec_exc("{}:{}:{}:{}".format(tag, which, dtype.__name__, rep), e)
            rec_array(tag + ":input-after", x)
            rec(tag, "input-unchanged", bool(np.array_equal(x, x0)))
    return op


def main():
    rng = np.random.RandomState(1234)

    # ---- building blocks -------------------------------------------------
    W = [rng.standard_normal((m, r)) for m, r in [(2, 3), (4, 2), (1, 4)]]
    Wc = [w + 1j * rng.standard_normal(w.shape) for w in W]
    V = [rng.standard_normal((c, k)) for c, k in [(3, 2), (2, 4), (4, 1)]]

    def rows(cplx=False):  # [m_i, 3] <- [r_i, 3]
        ws = Wc if cplx else W
        return [linop.MatMul([w.shape[1], 3], w) for w in ws]

    def cols():  # [2, k_i] <- [2, c_i]
        return [linop.RightMatMul([2, v.shape[0]], v) for v in V]

    def same_in():  # all [4, 3] in, [m, 3] out
        return [
            linop.Resize([5, 3], [4, 3]),
            linop.MatMul([4, 3], rng.standard_normal((2, 4))),
            linop.Identity([4, 3]),
        ]

    def same_out():  # [4, 3] out, different in
        return [
            linop.Resize([4, 3], [2, 3]),
            linop.MatMul([5, 3], rng.standard_normal((4, 5))),
            linop.Identity([4, 3]),
        ]

    def cube(n):  # 3-D blocks differing along the middle axis
        return linop.Multiply([2, n, 3], rng.standard_normal((2, n, 3)))

    axes2 = [-2, -1, 0, 1, None]

    # ---- Diag: all axis combinations, real and complex blocks -----------
    for oaxis, iaxis in itertools.product(axes2, axes2):
        for name, mk in [("rows", rows), ("rowsC", lambda: rows(True)), ("cols", cols)]:
            exercise(
                "Diag/{}/o{}/i{}".format(name, oaxis, iaxis),
                lambda: linop.Diag(mk(), oaxis=oaxis, iaxis=iaxis),
                rng,
            )

    # ---- Vstack / Hstack -------------------------------------------------
    for axis in axes2 + [2, -3, 5]:
        exercise(
            "Vstack/same_in/{}".format(axis),
            lambda: linop.Vstack(same_in(), axis=axis),
            rng,
        )
        exercise(
            "Hstack/same_out/{}".format(axis),
            lambda: linop.Hstack(same_out(), axis=axis),
            rng,
        )
        exercise(
            "Vstack/rows/{}".format(axis),
            lambda: linop.Vstack(rows(), axis=axis),
            rng,
        )
        exercise(
            "Hstack/cols/{}".format(axis),
            lambda: linop.Hstack(cols(), axis=axis),
            rng,
        )

    # ---- 3-D blocks, every axis -----------------------------------------
    for axis in [-3, -2, -1, 0, 1, 2, None, 3, -4]:
        blocks = lambda: [cube(1), cube(3), cube(2)]  # noqa: E731
        exercise("Diag3/{}".format(axis), lambda: linop.Diag(blocks(), oaxis=axis, iaxis=axis), rng, dtypes=[np.float64, np.complex64])
        exercise("Diag3o/{}".format(axis), lambda: linop.Diag(blocks(), oaxis=axis), rng, dtypes=[np.float32])
        exercise("Diag3i/{}".format(axis), lambda: linop.Diag(blocks(), iaxis=axis), rng, dtypes=[np.complex128])
        exercise("Vstack3/{}".format(axis), lambda: linop.Vstack([linop.Resize([2, n, 3], [2, 2, 3]) for n in (1, 3, 2)], axis=axis), rng, dtypes=[np.float64, np.complex64])
        exercise("Hstack3/{}".format(axis), lambda: linop.Hstack([linop.Resize([2, 2, 3], [2, n, 3]) for n in (1, 3, 2)], axis=axis), rng, dtypes=[np.float64, np.complex64])

    # ---- single block, tuple of blocks, nesting, algebra on top ----------
    exercise("single/H", lambda: linop.Hstack([linop.Identity([3, 2])], axis=1), rng)
    exercise("single/V", lambda: linop.Vstack([linop.Identity([3, 2])]), rng)
    exercise("single/D", lambda: linop.Diag([linop.Identity([3, 2])], oaxis=0, iaxis=-1), rng)
    exercise("tuple/V", lambda: linop.Vstack(tuple(same_in()), axis=0), rng)
    exercise("tuple/H", lambda: linop.Hstack(tuple(same_out())), rng)
    exercise("tuple/D", lambda: linop.Diag(tuple(rows()), oaxis=0, iaxis=0), rng)

    def nested():
        D = linop.Diag(rows(), oaxis=0, iaxis=0)  # [7,3] <- [9,3]
        Vs = linop.Vstack([D, 2j * D, D - 0.5 * D], axis=-1)  # [7,9] <- [9,3]
        Hs = linop.Hstack([Vs, -Vs], axis=0)  # [7,9] <- [18,3]
        return linop.Transpose([7, 9]) * Hs + linop.Transpose([7, 9]) * Hs * 3

    exercise("nested", nested, rng)
    exercise("fd", lambda: linop.FiniteDifference([4, 5]), rng)
    exercise(
        "1d/none-vs-0",
        lambda: linop.Diag([linop.Identity([2]), linop.Resize([3], [5]), linop.Identity([1])], oaxis=0),
        rng,
    )

    # ---- invalid operands -------------------------------------------------
    I43, I53, I44, I4, I433 = (linop.Identity(s) for s in ([4, 3], [5, 3], [4, 4], [4], [4, 3, 3]))
    bad = {
        "H/oshape-differs": lambda: linop.Hstack([I43, I53], axis=0),
        "V/ishape-differs": lambda: linop.Vstack([I43, I53], axis=0),
        "H/off-axis": lambda: linop.Hstack([linop.Resize([4, 3], [2, 3]), linop.Resize([4, 3], [2, 4])], axis=0),
        "V/off-axis": lambda: linop.Vstack([linop.Resize([2, 3], [4, 3]), linop.Resize([2, 4], [4, 3])], axis=0),
        "H/ndim": lambda: linop.Hstack([linop.Reshape([12], [4, 3]), linop.Reshape([12], [12])], axis=0),
        "V/ndim": lambda: linop.Vstack([linop.Reshape([4, 3], [12]), linop.Reshape([12], [12])], axis=0),
        "D/off-axis-in": lambda: linop.Diag([I43, I44], oaxis=0, iaxis=0),
        "D/off-axis-out": lambda: linop.Diag([I43, I44], oaxis=0, iaxis=1),
        "D/off-axis-out2": lambda: linop.Diag([I43, I44], oaxis=0),
        "D/off-axis-in2": lambda: linop.Diag([I43, I44], iaxis=0),
        "D/ndim": lambda: linop.Diag([I43, I433], oaxis=0, iaxis=0),
        "D/ndim-flat-ok": lambda: linop.Diag([I43, I433, I4]),
        "H/empty": lambda: linop.Hstack([]),
        "V/empty": lambda: linop.Vstack([], axis=0),
        "D/empty": lambda: linop.Diag([]),
        "H/axis-str": lambda: linop.Hstack([I43, I43], axis="0"),
        "V/axis-float": lambda: linop.Vstack([I43, I43], axis=1.0),
        "D/axis-float": lambda: linop.Diag([I43, I43], oaxis=0.0, iaxis=1.5),
        "H/not-linop": lambda: linop.Hstack([I43, 3], axis=0),
        "V/np-axis": lambda: linop.Vstack([I43, I53.H * I53 * linop.Resize([5, 3], [4, 3])], axis=np.int64(-1)),
    }
    for tag, build in bad.items():
        exercise("bad/" + tag, build, rng, dtypes=[np.float64, np.complex64])

    # ---- invalid inputs to valid operators -------------------------------
    ops = {
        "H": linop.Hstack(same_out(), axis=0),
        "Hn": linop.Hstack(same_out()),
        "V": linop.Vstack(same_in(), axis=0),
        "D": linop.Diag(rows(), oaxis=0, iaxis=0),
        "Dn": linop.Diag(rows()),
    }
    for tag, A in ops.items():
        n = len(A.ishape)
        candidates = [
            [s + 1 for s in ints(A.ishape)],
            ints(A.ishape)[::-1] if n > 1 else [ints(A.ishape)[0] - 1],
            ints(A.ishape) + [1],
            [int(np.prod(ints(A.ishape)))] if n > 1 else [ints(A.ishape)[0], 1],
        ]
        for k, shape in enumerate(candidates):
            x = make_input(rng, shape, np.complex128)
            try:
                rec_array("badin/{}/{}".format(tag, k), A(x))
            except Exception as e:
                rec_exc("badin/{}/{}".format(tag, k), e)
            try:
                rec_array("badin*/{}/{}".format(tag, k), A * x)
            except Exception as e:
                rec_exc("badin*/{}/{}".format(tag, k), e)
        for k, obj in enumerate([None, [1.0, 2.0], "x"]):
            try:
                r = A(obj)
                rec("badobj/{}/{}".format(tag, k), type(r).__name__)
            except Exception as e:
                rec_exc("badobj/{}/{}".format(tag, k), e)

    # non-contiguous / strided / Fortran inputs
    D = linop.Diag(rows(), oaxis=None, iaxis=0)
    base = make_input(rng, [18, 6], np.complex128)
    for k, x in enumerate([base[::2, ::2], np.asfortranarray(base[:9, :3]), base[:9, :3][::-1]]):
        x0 = x.copy()
        try:
            rec_array("strided/{}".format(k), D(x))
        except Exception as e:
            rec_exc("strided/{}".format(k), e)
        rec("strided-unchanged", bool(np.array_equal(x, x0)))

    # pickle round trip and class identity (the class hierarchy is touched)
    import pickle

    for tag, A in sorted(ops.items()):
        B = pickle.loads(pickle.dumps(A))
        rec("pickle", tag, type(B).__name__, type(B).__module__, repr(B) == repr(A))
        rec("pickle", tag, isinstance(B, linop.Linop), sorted(k for k in vars(B)) == sorted(k for k in vars(A)))
        x = make_input(rng, A.ishape, np.complex64)
        rec_array("pickle/" + tag, B(x))
        rec_array("pickle-adj/" + tag, B.H(make_input(rng, A.oshape, np.float32)))
        rec("pickle", tag, bool(np.array_equal(A(x), B(x))))

    print("records:", NREC[0])
    print("DIGEST", H.hexdigest())
    return 0


if __name__ == "__main__":
    sys.exit(main())
