"""Equivalence demo for C05 refactor n1 (fourier._fftc/_ifftc merged into one
parametrised private helper). Prints a SHA256 digest of the behaviour of
sp.fft / sp.ifft (and of the private _fftc/_ifftc wrappers) over a spread of
inputs. The digest must be identical on the pristine and the refactored tree.
"""
import hashlib
import itertools
import warnings

import numpy as np

import sigpy as sp
from sigpy import fourier

warnings.simplefilter("ignore")

H = hashlib.sha256()


def put(*items):
    for it in items:
        H.update(repr(it).encode())
        H.update(b"|")


def put_array(a):
    a = np.asarray(a)
    put(str(a.dtype), a.shape)
    flat = a.ravel()
    if np.iscomplexobj(flat):
        vals = np.stack([flat.real, flat.imag], -1).ravel()
    else:
        vals = flat.astype(np.float64)
    put(["%.9e" % v for v in vals])


def make(rng, shape, dtype):
    if np.issubdtype(dtype, np.complexfloating):
        x = rng.randn(*shape) + 1j * rng.randn(*shape)
    elif np.issubdtype(dtype, np.floating):
        x = rng.randn(*shape)
    elif dtype == np.bool_:
        x = rng.randn(*shape) > 0
    else:
        x = rng.randint(-5, 6, size=shape)
    return x.astype(dtype)


def run(tag, func, x, **kw):
    before = x.copy()
    try:
        y = func(x, **kw)
    except Exception as e:  # noqa
        put(tag, "EXC", type(e).__name__)
    else:
        put(tag, "OK")
        put_array(y)
    put("input-after")
    put_array(x)
    put("input-unchanged", bool(np.array_equal(before, x, equal_nan=True)))


def main():
    rng = np.random.RandomState(1234)
    funcs = [("fft", sp.fft), ("ifft", sp.ifft)]
    shapes = [(1,), (2,), (5,), (8,), (3, 4), (5, 1), (4, 5, 6), (2, 3, 1, 5)]
    dtypes = [np.complex64, np.complex128, np.float32, np.float64, np.int32]

    def axes_sets(ndim):
        out = [None, (), (0,), (-1,)]
        if ndim >= 2:
            out += [(0, -1), (-1, 0), (1,), (-2,), [0, 1]]
        if ndim >= 3:
            out += [(0, 2), (-3, -1), range(-2, 0), tuple(range(ndim))]
        return out

    # 1. axes / center / norm sweep
    for (name, f), shape, dtype in itertools.product(funcs, shapes, dtypes):
        x = make(rng, shape, dtype)
        for axes in axes_sets(len(shape)):
            for center in (True, False):
                for norm in ("ortho", None):
                    run(
                        (name, shape, str(np.dtype(dtype)), repr(axes),
                         center, norm),
                        f, x, axes=axes, center=center, norm=norm,
                    )

    # 2. oshape (pad / crop / mixed / equal), centred, with axes subsets
    oshape_cases = [
        ((3,), [(5,), [4], (2,), (1,), (3,), [3]]),
        ((4,), [(7,), (6,), (3,), (1,)]),
        ((4, 5), [(6, 7), (3, 4), (6, 2), [4, 5], (1, 9), (5, 5)]),
        ((3, 4, 5), [(4, 4, 4), (3, 8, 2), (1, 1, 1), (6, 5, 7)]),
        ((2, 1, 3, 2), [(3, 2, 2, 4)]),
    ]
    for (name, f), (shape, oshapes) in itertools.product(funcs, oshape_cases):
        for dtype in (np.complex64, np.complex128, np.float64):
            x = make(rng, shape, dtype)
            for oshape in oshapes:
                for axes in [None, (-1,), (0,), tuple(range(len(shape)))]:
                    for norm in ("ortho", None):
                        run(
                            (name, "oshape", shape, repr(oshape), repr(axes),
                             norm, str(np.dtype(dtype))),
                            f, x, oshape=oshape, axes=axes, norm=norm,
                        )

    # 3. private wrappers directly (positional and keyword use)
    x = make(rng, (4, 5), np.complex128)
    for name, f in [("_fftc", fourier._fftc), ("_ifftc", fourier._ifftc)]:
        run((name, "default"), f, x)
        run((name, "kw"), f, x, oshape=(6, 3), axes=(-1,), norm=None)
        put(name, "pos")
        put_array(f(x, (5, 5), (0,), "ortho"))
        put_array(f(x, None, None, None))

    # 4. non-contiguous / strided / Fortran inputs, repeated calls
    base = make(rng, (6, 8), np.complex64)
    for name, f in funcs:
        for view_name, v in [
            ("T", base.T),
            ("step", base[::2, 1::3]),
            ("neg", base[::-1, ::-1]),
            ("F", np.asfortranarray(base)),
        ]:
            for rep in range(2):
                run((name, view_name, rep), f, v, axes=(-1,))
                run((name, view_name, rep, "o"), f, v, oshape=(5, 9))

    # 5. round trip and norm preservation
    for shape in [(5,), (4, 7), (3, 4, 5)]:
        x = make(rng, shape, np.complex128)
        for axes in [None, (-1,), (0,)]:
            for center in (True, False):
                y = sp.fft(x, axes=axes, center=center)
                put_array(sp.ifft(y, axes=axes, center=center))
                put("%.9e" % np.linalg.norm(y))

    # 6. invalid inputs -> exception types
    x = make(rng, (3, 4), np.complex64)
    bad = [
        dict(axes=(2,)),
        dict(axes=(-3,)),
        dict(axes=3),
        dict(axes="a"),
        dict(oshape=(3,)),
        dict(oshape=(3, 4, 5)),
        dict(oshape=(0, 4)),
        dict(oshape=(-1, 4)),
        dict(oshape=5),
        dict(norm="bogus"),
        dict(norm="forward"),
        dict(norm="backward"),
        dict(axes=(0, 0)),
        dict(oshape=(2.0, 4)),
        dict(center=False, oshape=(5, 6)),
        dict(center=False, oshape=(5,), axes=(0,)),
        dict(center=False, axes=(5,)),
    ]
    for (name, f), kw in itertools.product(funcs, bad):
        run((name, "bad", repr(sorted(kw.items()))), f, x, **kw)
    for name, f in funcs:
        for obj in ([1.0, 2.0, 3.0], None, 3.0, np.float64(2.0),
                    np.array(1.0 + 2j), np.array(["a", "b"])):
            try:
                y = f(obj)
                put(name, "obj", repr(obj), "OK")
                put_array(y)
            except Exception as e:  # noqa
                put(name, "obj", repr(obj), "EXC", type(e).__name__)

    print(H.hexdigest())


if __name__ == "__main__":
    main()
