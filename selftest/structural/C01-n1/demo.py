"""C01 / round 4 / refactor n1: equivalence digest for Hstack / Vstack / Diag.

Exercises the stacking operators (constructor shape logic, forward, adjoint,
adjoint of adjoint, repeated calls, invalid arguments) on real and complex data
of several dtypes and prints one SHA256 digest of everything observed.
"""
import hashlib
import sys

import numpy as np

from sigpy import linop

H = hashlib.sha256()


def rec(*items):
    for it in items:
        H.update(repr(it).encode())
        H.update(b"|")


def rec_array(tag, a):
    a = np.asarray(a)
    rec(tag, str(a.dtype), tuple(a.shape))
    flat = np.ascontiguousarray(a).ravel()
    if np.iscomplexobj(flat):
        parts = [flat.real, flat.imag]
    else:
        parts = [flat]
    for p in parts:
        for v in p.astype(np.float64):
            H.update(("%.9e," % v).encode())


def rec_call(tag, f, *args):
    try:
        out = f(*args)
    except Exception as e:  # noqa
        chain = [type(e).__name__]
        c = e.__cause__
        while c is not None:
            chain.append(type(c).__name__)
            c = c.__cause__
        rec(tag, "EXC", chain)
        return None
    return out


def rand(rng, shape, dtype):
    if np.issubdtype(dtype, np.complexfloating):
        return (rng.randn(*shape) + 1j * rng.randn(*shape)).astype(dtype)
    return rng.randn(*shape).astype(dtype)


def exercise(tag, make, rng):
    A = rec_call(tag + ":ctor", make)
    if A is None:
        return
    rec(tag, A.ishape, A.oshape, repr(A),
        getattr(A, "indices", None), getattr(A, "iindices", None),
        getattr(A, "oindices", None))
    for dtype in [np.float32, np.float64, np.complex64, np.complex128]:
        x = rand(rng, A.ishape, dtype)
        y = rand(rng, A.oshape, dtype)
        x0, y0 = x.copy(), y.copy()
        for rep in range(2):
            out = rec_call(tag + ":fwd", A, x)
            if out is not None:
                rec_array(tag + ":fwd%d" % rep, out)
            out = rec_call(tag + ":adj", lambda v: A.H(v), y)
            if out is not None:
                rec_array(tag + ":adj%d" % rep, out)
            out = rec_call(tag + ":adjadj", lambda v: A.H.H(v), x)
            if out is not None:
                rec_array(tag + ":adjadj%d" % rep, out)
        rec(tag, A.H.ishape, A.H.oshape, A.H.H.ishape, A.H.H.oshape)
        rec_array(tag + ":x_after", x)
        rec_array(tag + ":y_after", y)
        rec(np.array_equal(x, x0), np.array_equal(y, y0))
    # wrong input shape
    bad = np.zeros([s + 1 for s in A.ishape])
    rec_call(tag + ":badshape", A, bad)


def main():
    rng = np.random.RandomState(1234)
    w23 = rng.randn(2, 3) + 1j * rng.randn(2, 3)
    w43 = rng.randn(4, 3) + 1j * rng.randn(4, 3)
    w25 = rng.randn(2, 5)

    Id = linop.Identity
    M = linop.Multiply

    def ops_same_o():  # same oshape [2,3] (Hstack / Diag)
        return [
            Id([2, 3]),
            M([2, 3], w23),
            linop.Resize([2, 3], [4, 3]),
            linop.Reshape([2, 3], [3, 2]),
            linop.FFT([2, 3], axes=(-1,)),
        ]

    def ops_same_i():  # same ishape [2,3] (Vstack)
        return [
            Id([2, 3]),
            M([2, 3], w23),
            linop.Resize([4, 3], [2, 3]),
            linop.Resize([2, 5], [2, 3]),
            linop.Transpose([2, 3]),
        ]

    o = ops_same_o()
    i = ops_same_i()
    cases = []
    for axis in [None, 0, 1, -1, -2]:
        cases.append(("H2 ax=%s" % axis,
                      lambda axis=axis: linop.Hstack([o[0], o[1]], axis=axis)))
        cases.append(("H3 ax=%s" % axis,
                      lambda axis=axis: linop.Hstack([o[1], o[2], o[0]],
                                                     axis=axis)))
        cases.append(("H4mix ax=%s" % axis,
                      lambda axis=axis: linop.Hstack([o[3], o[1], o[4], o[2]],
                                                     axis=axis)))
        cases.append(("V2 ax=%s" % axis,
                      lambda axis=axis: linop.Vstack([i[0], i[1]], axis=axis)))
        cases.append(("V3 ax=%s" % axis,
                      lambda axis=axis: linop.Vstack([i[1], i[2], i[0]],
                                                     axis=axis)))
        cases.append(("V3b ax=%s" % axis,
                      lambda axis=axis: linop.Vstack([i[3], i[0], i[1]],
                                                     axis=axis)))
        cases.append(("V4mix ax=%s" % axis,
                      lambda axis=axis: linop.Vstack([i[4], i[1], i[2], i[3]],
                                                     axis=axis)))
        for oaxis in [None, 0, -1]:
            cases.append(("D ia=%s oa=%s" % (axis, oaxis),
                          lambda axis=axis, oaxis=oaxis: linop.Diag(
                              [i[0], M([2, 3], w23), Id([2, 3])],
                              oaxis=oaxis, iaxis=axis)))
            cases.append(("Dmix ia=%s oa=%s" % (axis, oaxis),
                          lambda axis=axis, oaxis=oaxis: linop.Diag(
                              [linop.Resize([4, 3], [2, 3]), M([4, 3], w43),
                               M([2, 5], w25)],
                              oaxis=oaxis, iaxis=axis)))
    cases.append(("H1", lambda: linop.Hstack([M([2, 3], w23)], axis=1)))
    cases.append(("V1", lambda: linop.Vstack([M([2, 3], w23)])))
    cases.append(("V 1d", lambda: linop.Vstack(
        [Id([5]), M([5], 2.5), linop.Resize([3], [5])], axis=0)))
    cases.append(("H 1d", lambda: linop.Hstack(
        [Id([5]), M([5], 2 - 1j), linop.Resize([5], [3])], axis=-1)))
    cases.append(("FD", lambda: linop.FiniteDifference([3, 4, 2])))
    cases.append(("FD axes", lambda: linop.FiniteDifference([3, 4], axes=(-1,))))
    # invalid constructions
    cases.append(("H bad ndim", lambda: linop.Hstack(
        [Id([2, 3]), linop.Reshape([2, 3], [6])], axis=0)))
    cases.append(("H bad other", lambda: linop.Hstack(
        [Id([2, 3]), linop.Reshape([2, 3], [3, 2])], axis=0)))
    cases.append(("H bad oshape", lambda: linop.Hstack(
        [Id([2, 3]), Id([3, 2])], axis=0)))
    cases.append(("V bad ndim", lambda: linop.Vstack(
        [Id([6]), linop.Reshape([2, 3], [6])], axis=0)))
    cases.append(("V bad other", lambda: linop.Vstack(
        [Id([6]), linop.Reshape([2, 3], [6]), linop.Reshape([3, 2], [6])],
        axis=1)))
    cases.append(("V bad axis", lambda: linop.Vstack([Id([6]), Id([6])],
                                                      axis="x")))
    cases.append(("D bad i", lambda: linop.Diag(
        [Id([2, 3]), Id([3, 2])], iaxis=0, oaxis=None)))
    cases.append(("D bad o", lambda: linop.Diag(
        [Id([2, 3]), Id([3, 2])], iaxis=None, oaxis=1)))
    cases.append(("H empty", lambda: linop.Hstack([], axis=0)))

    for tag, make in cases:
        exercise(tag, make, rng)

    # the private helpers directly
    for f in [linop._hstack_params, linop._vstack_params]:
        for shapes, axis in [
            ([[2, 3], [4, 3]], 0), ([[2, 3], [4, 3]], -2),
            ([[2, 3], [2, 5], [2, 1]], 1), ([(2, 3), (4, 3)], None),
            ([[2, 3], [4, 3]], 1), ([[2, 3], [6]], 0), ([[2, 3]], 5),
            ([[], []], 0), ([[3]], None),
        ]:
            out = rec_call(f.__name__, f, shapes, axis)
            rec(f.__name__, shapes, axis, out,
                None if out is None else [type(v).__name__ for v in out[1]])

    print("n1 digest:", H.hexdigest())
    return 0


if __name__ == "__main__":
    sys.exit(main())
