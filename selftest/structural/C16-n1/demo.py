"""C16 / round 4 / n1 - equivalence digest for the k-space weighting helper
shared by SenseRecon, L1WaveletRecon and TotalVariationRecon."""
import hashlib
import warnings

import numpy as np

import sigpy as sp
import sigpy.mri as mr

warnings.simplefilter("ignore")
H = hashlib.sha256()
COUNT = {"ok": 0, "exc": 0}


def rnd(a):
    a = np.asarray(a)
    if a.dtype.kind == "c":
        return np.stack([rnd(a.real), rnd(a.imag)])
    if a.dtype.kind != "f":
        return a
    a = a.astype(np.float64)
    out = np.zeros_like(a)
    nz = np.isfinite(a) & (a != 0)
    e = np.floor(np.log10(np.abs(a[nz])))
    out[nz] = np.round(a[nz] / 10.0**e, 9) * 10.0**e
    out[~np.isfinite(a)] = a[~np.isfinite(a)]
    return out


def put(tag, v):
    if isinstance(v, np.ndarray):
        H.update(
            ("%s|%s|%s|" % (tag, v.dtype, v.shape)).encode()
            + np.ascontiguousarray(rnd(v)).tobytes()
        )
    else:
        H.update(("%s|%r|" % (tag, v)).encode())


def run(tag, cls, y, mps, args, kw):
    inputs = [y, mps] + [v for v in kw.values() if isinstance(v, np.ndarray)]
    np.random.seed(0)
    try:
        app = cls(y, mps, *args, show_pbar=False, **kw)
        put(tag + ":y", app.y)
        put(tag + ":y_is_input", app.y is y)
        put(tag + ":A", repr(app.A))
        put(tag + ":ishape", app.A.ishape)
        put(tag + ":oshape", app.A.oshape)
        np.random.seed(1)
        x = sp.randn(app.A.ishape, dtype=np.complex128)
        put(tag + ":Ax", app.A(x))
        put(tag + ":AHy", app.A.H(app.y))
        out = app.run()
        put(tag + ":out", out)
        COUNT["ok"] += 1
    except Exception as e:
        c = e
        while c.__cause__ is not None:
            c = c.__cause__
        put(tag + ":exc", type(e).__name__ + "/" + type(c).__name__)
        COUNT["exc"] += 1
    for i, a in enumerate(inputs):
        put(tag + ":in%d" % i, a)


def main():
    rng = np.random.RandomState(123)
    apps = [
        ("sense", mr.app.SenseRecon, (), {}),
        ("sense_l2", mr.app.SenseRecon, (0.05,), {}),
        ("sense_gm", mr.app.SenseRecon, (0.01,), {"solver": "GradientMethod"}),
        ("sense_pd", mr.app.SenseRecon, (),
         {"solver": "PrimalDualHybridGradient"}),
        ("sense_admm", mr.app.SenseRecon, (0.02,), {"solver": "ADMM"}),
        ("l1w", mr.app.L1WaveletRecon, (0.01,), {"wave_name": "haar"}),
        ("l1w_db", mr.app.L1WaveletRecon, (0.003,), {}),
        ("tv", mr.app.TotalVariationRecon, (0.01,), {}),
        ("tv_admm", mr.app.TotalVariationRecon, (0.02,), {"solver": "ADMM"}),
    ]
    for ishape, nc in [((8, 8), 4), ((7, 5), 3), ((4, 6, 5), 2)]:
        mps = mr.sim.birdcage_maps((nc,) + ishape)
        img = rng.randn(*ishape) + 1j * rng.randn(*ishape)
        ksp = sp.fft(mps * img, axes=range(-len(ishape), 0))
        mask = (rng.rand(*ishape) > 0.3).astype(np.float64)
        npts = 3 * int(np.prod(ishape)) // 2
        coord = (rng.rand(npts, len(ishape)) - 0.5) * np.array(ishape)
        dcf = rng.rand(npts) + 0.1
        ksp_nc = sp.nufft(mps * img, coord)
        for dtype in [np.complex128, np.complex64]:
            for name, cls, args, kw0 in apps:
                for cname, y, extra in [
                    ("cart_est", (ksp * mask).astype(dtype), {}),
                    ("cart_w", ksp.astype(dtype), {"weights": mask.copy()}),
                    ("cart_wsoft", ksp.astype(dtype),
                     {"weights": rng.rand(*ishape)}),
                    ("cart_wcplx", ksp.astype(dtype),
                     {"weights": (mask * (1 + 0j))}),
                    ("cart_wscalar", ksp.astype(dtype), {"weights": 0.25}),
                    ("cart_wcoil", ksp.astype(dtype),
                     {"weights": rng.rand(nc, *ishape)}),
                    ("cart_batch", (ksp * mask).astype(dtype),
                     {"coil_batch_size": 2}),
                    ("nc", ksp_nc.astype(dtype), {"coord": coord}),
                    ("nc_dcf", ksp_nc.astype(dtype),
                     {"coord": coord, "weights": dcf.copy()}),
                    ("nc_dcf_batch", ksp_nc.astype(dtype),
                     {"coord": coord, "weights": dcf.copy(),
                      "coil_batch_size": 1}),
                    ("nc_transp", ksp_nc.astype(dtype),
                     {"coord": coord, "transp_nufft": True}),
                    ("dev_int", (ksp * mask).astype(dtype), {"device": -1}),
                ]:
                    kw = dict(kw0)
                    kw.update(extra)
                    kw["max_iter"] = 4
                    tag = "%s/%s/%s/%s/%s" % (
                        ishape, np.dtype(dtype), name, cname, sorted(kw))
                    run(tag, cls, y, mps.astype(dtype), args, kw)
                    if cname == "cart_est":  # repeated call, same arrays
                        run(tag + "#2", cls, y, mps.astype(dtype), args, kw)

        # real-valued and invalid inputs
        for name, cls, args, kw0 in apps[:1] + apps[5:6] + apps[7:8]:
            for cname, y, extra in [
                ("real_y", np.abs(ksp) * mask, {}),
                ("real_y32", (np.abs(ksp) * mask).astype(np.float32), {}),
                ("int_w", ksp, {"weights": mask.astype(int)}),
                ("bool_w", ksp, {"weights": mask.astype(bool)}),
                ("neg_w", ksp, {"weights": -mask}),
                ("bad_w_shape", ksp, {"weights": np.ones(3)}),
                ("str_w", ksp, {"weights": "abc"}),
                ("list_y", ksp.tolist(), {}),
                ("none_y", None, {}),
                ("bad_dev", ksp, {"device": "gpu"}),
                ("dev_1", ksp, {"device": 1}),
                ("bad_coord", ksp, {"coord": np.zeros((4, 7))}),
                ("y_wrong_shape", ksp[:, 1:], {}),
                ("zero_y", np.zeros_like(ksp), {}),
                ("nan_y", ksp * np.nan, {}),
            ]:
                kw = dict(kw0)
                kw.update(extra)
                kw["max_iter"] = 3
                tag = "%s/inv/%s/%s" % (ishape, name, cname)
                if isinstance(y, np.ndarray):
                    run(tag, cls, y, mps, args, kw)
                else:
                    try:
                        cls(y, mps, *args, show_pbar=False, **kw)
                        put(tag, "no exception")
                    except Exception as e:
                        put(tag + ":exc", type(e).__name__)

    print("cases run to completion: %(ok)d, cases raising: %(exc)d" % COUNT)
    print("sha256:", H.hexdigest())


if __name__ == "__main__":
    main()
