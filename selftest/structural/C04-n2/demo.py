"""C04 / n2 equivalence demo: the Identity normal-operator shortcuts of
Reshape, Transpose, FFT, IFFT, Circshift (and Identity itself), alone, in
compositions and inside LinearLeastSquares.

Prints one SHA256 digest over: values (rounded to 10 significant digits),
dtypes, shapes, type names / reprs / identity relations of the operators
involved, exception types for invalid inputs, and the bytes of the caller's
arrays after each call.
"""
import hashlib
import pickle
import sys

import numpy as np

from sigpy import app, linop

H = hashlib.sha256()
VERBOSE = "--verbose" in sys.argv


def _round_sig(a, sig=10):
    a = np.asarray(a)
    if np.iscomplexobj(a):
        return _round_sig(a.real, sig) + 1j * _round_sig(a.imag, sig)
    a = a.astype(np.float64)
    out = np.zeros_like(a)
    nz = (a != 0) & np.isfinite(a)
    mag = np.floor(np.log10(np.abs(a[nz])))
    scale = 10.0 ** (sig - 1 - mag)
    out[nz] = np.round(a[nz] * scale) / scale
    out[~np.isfinite(a)] = a[~np.isfinite(a)]
    return out + 0.0


def put(tag, value):
    H.update(tag.encode())
    if isinstance(value, np.ndarray):
        H.update(str(value.dtype).encode())
        H.update(str(value.shape).encode())
        H.update(np.ascontiguousarray(_round_sig(value)).tobytes())
    else:
        H.update(repr(value).encode())
    if VERBOSE:
        print("  %-48s %s" % (tag, getattr(value, "shape", value)))


def raw(tag, a):
    H.update(tag.encode())
    H.update(str(a.dtype).encode() + str(a.shape).encode())
    H.update(np.ascontiguousarray(a).tobytes())


def attempt(tag, fn):
    try:
        out = fn()
    except Exception as e:  # noqa
        put(tag + ":exc", type(e).__name__)
        return None
    put(tag, out if isinstance(out, np.ndarray) else repr(type(out)))
    return out


def describe(tag, A):
    N = A.N
    put(tag + "-cls", type(A).__name__)
    put(tag + "-repr", repr(A))
    put(tag + "-Ncls", type(N).__name__)
    put(tag + "-Nrepr", repr(N))
    put(tag + "-Nshapes", (N.ishape, N.oshape, type(N.ishape).__name__))
    put(tag + "-Ncached", A.N is N)
    put(tag + "-N-own-shape-list", N.ishape is A.ishape)
    put(tag + "-NN", (A.N.N is N, A.N.H is N))
    put(tag + "-isinst", (isinstance(A, linop.Linop), isinstance(N, linop.Identity)))
    put(tag + "-HNcls", (type(A.H).__name__, type(A.H.N).__name__, A.H.N.ishape))
    put(tag + "-state", sorted(A.__dict__.keys()))
    B = pickle.loads(pickle.dumps(A))
    put(tag + "-pickle", (repr(B), type(B).__name__, type(B.N).__name__))


def exercise(tag, A, rng):
    describe(tag, A)
    for dt in [np.float32, np.float64, np.complex64, np.complex128]:
        x = rng.randn(*A.ishape)
        if np.issubdtype(dt, np.complexfloating):
            x = x + 1j * rng.randn(*A.ishape)
        x = x.astype(dt)
        t = "%s-%s" % (tag, np.dtype(dt).name)
        y = attempt(t + "-N", lambda: A.N(x))
        put(t + "-N-aliases-x", y is x)
        attempt(t + "-N2", lambda: A.N * x)
        attempt(t + "-HA", lambda: A.H(A(x)))
        attempt(t + "-HxA", lambda: (A.H * A)(x))
        attempt(t + "-HN", lambda: A.H.N(A(x)))
        raw(t + "-x-after", x)
    attempt(tag + "-badshape", lambda: A.N(np.zeros([2] * 5)))
    attempt(tag + "-badtype", lambda: A.N("abc"))
    attempt(tag + "-list", lambda: A.N([1.0, 2.0]))


def main():
    rng = np.random.RandomState(11)

    ops = [
        ("Identity", lambda: linop.Identity([3, 4])),
        ("Reshape", lambda: linop.Reshape([6, 2], [3, 4])),
        ("Reshape-tuple", lambda: linop.Reshape((12,), (3, 4))),
        ("Transpose-none", lambda: linop.Transpose([3, 4, 2])),
        ("Transpose-axes", lambda: linop.Transpose([3, 4, 2], axes=(2, 0, 1))),
        ("Transpose-neg", lambda: linop.Transpose([3, 4, 2], axes=(-1, 0, -2))),
        ("FFT", lambda: linop.FFT([5, 4])),
        ("FFT-axes", lambda: linop.FFT([5, 4], axes=(-1,))),
        ("FFT-range", lambda: linop.FFT([2, 5, 4], axes=range(-2, 0))),
        ("FFT-nocenter", lambda: linop.FFT([5, 4], axes=[0], center=False)),
        ("FFT-1d-odd", lambda: linop.FFT([7])),
        ("IFFT", lambda: linop.IFFT([5, 4])),
        ("IFFT-axes", lambda: linop.IFFT([3, 6], axes=(0,), center=False)),
        ("Circshift", lambda: linop.Circshift([5, 4], [1, -2])),
        ("Circshift-axes", lambda: linop.Circshift([5, 4], [3], axes=[-1])),
        ("Circshift-big", lambda: linop.Circshift([5], [13], axes=[0])),
    ]
    for tag, make in ops:
        for rep in range(2):
            A = attempt(tag + "-make%d" % rep, make)
            if A is not None:
                exercise("%s.%d" % (tag, rep), A, rng)

    # invalid constructions
    attempt("bad-Reshape", lambda: linop.Reshape([0], [3]))
    attempt("bad-Transpose", lambda: linop.Transpose([3, 4], axes=(0, 0)).N)
    attempt("bad-FFT", lambda: linop.FFT([-1]))
    attempt("bad-Circshift", lambda: linop.Circshift([4], [1, 2], axes=[0]).N(
        np.zeros(4)))

    # compositions, sums, stacks
    F = linop.FFT([4, 6])
    R = linop.Reshape([24], [4, 6])
    T = linop.Transpose([4, 6])
    C = linop.Circshift([4, 6], [1], axes=[0])
    mult = rng.randn(4, 6) + 1j * rng.randn(4, 6)
    M = linop.Multiply([4, 6], mult)
    combos = [
        ("R*F", R * F),
        ("T*C*F", T * C * F),
        ("F*M", F * M),
        ("2F", 2 * F),
        ("F+C", F + C),
        ("F-C", F - C),
        ("V", linop.Vstack([F, C, M])),
        ("Hs", linop.Hstack([F, C], axis=0)),
        ("D", linop.Diag([F, T], oaxis=None, iaxis=None)),
        ("Conj", linop.Conj(F)),
    ]
    for tag, A in combos:
        put(tag + "-Nrepr", repr(A.N))
        put(tag + "-Ncls", type(A.N).__name__)
        for dt in [np.float64, np.complex64, np.complex128]:
            x = rng.randn(*A.ishape)
            if np.issubdtype(dt, np.complexfloating):
                x = x + 1j * rng.randn(*A.ishape)
            x = x.astype(dt)
            t = "%s-%s" % (tag, np.dtype(dt).name)
            attempt(t + "-N", lambda: A.N(x))
            attempt(t + "-HA", lambda: A.H(A(x)))
            raw(t + "-x", x)

    # LinearLeastSquares through A.N with Identity-normal operators
    x_true = rng.randn(4, 6) + 1j * rng.randn(4, 6)
    for tag, A in [("F", F), ("C", C), ("T", T), ("R", R), ("F*M", F * M)]:
        y = A(x_true)
        y0 = y.copy()
        for solver, kw in [
            ("ConjugateGradient", {}),
            ("ConjugateGradient", {"lamda": 0.1}),
            ("GradientMethod", {"lamda": 0.05, "max_power_iter": 5}),
            ("GradientMethod", {"alpha": 0.5, "accelerate": False}),
            ("ADMM", {"lamda": 0.1, "rho": 0.5, "max_cg_iter": 3}),
        ]:
            np.random.seed(5)  # MaxEig draws its start vector from np.random
            t = "lls-%s-%s-%s" % (tag, solver, sorted(kw.items()))
            attempt(
                t,
                lambda: app.LinearLeastSquares(
                    A, y, solver=solver, max_iter=7, show_pbar=False, **kw
                ).run(),
            )
            raw(t + "-y", y)
        put("lls-%s-y-untouched" % tag, bool(np.array_equal(y, y0)))

    print("SHA256", H.hexdigest())


if __name__ == "__main__":
    main()
