"""C01 / round 4 / refactor n2: equivalence digest for Multiply / MatMul /
RightMatMul (broadcasting shape rules, forward, adjoint, adjoint of adjoint).

Exercises the operators on real and complex data of several dtypes and many
broadcasting patterns (incl. size-1 axes, scalars, more/fewer multiplier dims,
adjoint=True, invalid shapes, repeated calls) and prints one SHA256 digest of
all values / dtypes / shapes / exception types / input arrays after the calls.
"""
import hashlib
import sys

import numpy as np

from sigpy import linop

H = hashlib.sha256()


def rec(*items):
    for it in items:
        H.update(repr(it).encode())
        H.update(b"|")


def rec_array(tag, a):
    a = np.asarray(a)
    rec(tag, str(a.dtype), tuple(a.shape))
    flat = np.ascontiguousarray(a).ravel()
    parts = [flat.real, flat.imag] if np.iscomplexobj(flat) else [flat]
    for p in parts:
        for v in p.astype(np.float64):
            H.update(("%.9e," % v).encode())


def rec_call(tag, f, *args):
    try:
        return f(*args)
    except Exception as e:  # noqa
        chain = [type(e).__name__]
        c = e.__cause__
        while c is not None:
            chain.append(type(c).__name__)
            c = c.__cause__
        rec(tag, "EXC", chain, str(e) if len(chain) == 1 else "")
        return None


def rand(rng, shape, dtype):
    if np.issubdtype(dtype, np.complexfloating):
        return (rng.randn(*shape) + 1j * rng.randn(*shape)).astype(dtype)
    return rng.randn(*shape).astype(dtype)


DTYPES = [np.float32, np.float64, np.complex64, np.complex128]


def exercise(tag, make, rng, param):
    A = rec_call(tag + ":ctor", make)
    if A is None:
        return
    rec(tag, A.ishape, A.oshape, repr(A), repr(A.H), repr(A.H.H))
    p0 = None if np.isscalar(param) else np.array(param, copy=True)
    for dtype in DTYPES:
        x = rand(rng, A.ishape, dtype)
        y = rand(rng, A.oshape, dtype)
        x0, y0 = x.copy(), y.copy()
        for rep in range(2):
            for name, f, v in [("fwd", A, x), ("adj", A.H, y),
                               ("adjadj", A.H.H, x), ("nrm", A.N, x)]:
                out = rec_call(tag + ":" + name, f, v)
                if out is not None:
                    rec_array("%s:%s%d" % (tag, name, rep), out)
        rec_array(tag + ":x_after", x)
        rec_array(tag + ":y_after", y)
        rec(np.array_equal(x, x0), np.array_equal(y, y0))
    if p0 is not None:
        rec_array(tag + ":param_after", param)
        rec(np.array_equal(p0, param))
    bad = np.zeros([s + 1 for s in A.ishape])
    rec_call(tag + ":badshape", A, bad)


def main():
    rng = np.random.RandomState(4321)
    cases = []

    # Multiply: (ishape, mult shape or scalar)
    mult_cases = [
        ([2], 1.1), ([2, 3], 1), ([2, 3], 0), ([2, 3], 2 - 3j), ([4], -1),
        ([2], [2]), ([2], [2, 2]), ([3, 4], [3, 4]), ([3, 4], [4]),
        ([3, 4], [1, 4]), ([3, 4], [3, 1]), ([3, 1], [3, 4]), ([1, 4], [3, 4]),
        ([1, 1], [3, 4]), ([4], [2, 3, 4]), ([3, 4], [2, 3, 4]),
        ([2, 3, 4], [3, 4]), ([2, 1, 4], [5, 3, 1]), ([1], [3]), ([3], [1]),
        ([1], [1]), ([2, 1, 1, 3], [4, 1]), ([5, 1, 3], [2, 1, 4, 1]),
        ([3, 4], [3, 5]), ([3, 4], [2, 4]), ([2, 3], [3, 2, 2]),
    ]
    for ishape, m in mult_cases:
        for cplx in ([False] if np.isscalar(m) else [False, True]):
            for conj in [False, True]:
                if np.isscalar(m):
                    mult = m
                else:
                    mult = rand(rng, m, np.complex128 if cplx else np.float64)
                tag = "Mul i=%s m=%s c=%s conj=%s" % (ishape, m, cplx, conj)
                cases.append((tag, lambda ishape=ishape, mult=mult, conj=conj:
                              linop.Multiply(ishape, mult, conj=conj), mult))

    # MatMul / RightMatMul: (ishape, mat shape)
    mm_cases = [
        ([2, 3], [4, 2]), ([5, 2, 3], [5, 4, 2]), ([5, 2, 3], [4, 2]),
        ([2, 3], [5, 4, 2]), ([1, 2, 3], [5, 4, 2]), ([5, 2, 3], [1, 4, 2]),
        ([6, 1, 2, 3], [5, 4, 2]), ([1, 1, 2, 3], [6, 5, 4, 2]),
        ([2, 1], [2, 2]), ([3, 3], [3, 3]), ([2, 3], [4, 3]), ([3], [4, 3]),
        ([5, 2, 3], [6, 4, 2]), ([3, 2], [4, 2]),
    ]
    rmm_cases = [
        ([3, 2], [2, 4]), ([5, 3, 2], [5, 2, 4]), ([5, 3, 2], [2, 4]),
        ([3, 2], [5, 2, 4]), ([1, 3, 2], [5, 2, 4]), ([5, 3, 2], [1, 2, 4]),
        ([6, 1, 3, 2], [5, 2, 4]), ([1, 2], [2, 2]), ([3, 3], [3, 3]),
        ([3, 2], [3, 4]), ([2], [2, 4]), ([5, 3, 2], [6, 2, 4]),
        ([2, 3], [2, 4]),
    ]
    for cls, cs in [(linop.MatMul, mm_cases), (linop.RightMatMul, rmm_cases)]:
        for ishape, mshape in cs:
            for cplx in [False, True]:
                for adjoint in [False, True]:
                    mat = rand(rng, mshape,
                               np.complex128 if cplx else np.float64)
                    tag = "%s i=%s m=%s c=%s adj=%s" % (
                        cls.__name__, ishape, mshape, cplx, adjoint)
                    cases.append((tag, lambda cls=cls, ishape=ishape, mat=mat,
                                  adjoint=adjoint: cls(ishape, mat,
                                                       adjoint=adjoint), mat))

    for tag, make, param in cases:
        exercise(tag, make, rng, param)

    # scalar * Linop / Linop * scalar go through Multiply as well
    A = linop.FFT([3, 4], axes=(-1,))
    for T in [2 * A, A * (1 - 1j), -A, A - 0.5 * A]:
        exercise("tree " + repr(T), lambda T=T: T, rng, 0)

    # the private shape helpers under their linop.* names
    helpers = [
        (linop._get_multiply_oshape, 2), (linop._get_matmul_oshape, 3),
        (linop._get_right_matmul_oshape, 3),
    ]
    shape_pairs = [([2, 3], [3]), ([2, 3], (2, 3)), ((3,), [2, 3]),
                   ([2, 3], [4, 3]), ([5, 2, 3], [4, 2]), ([2, 3], [5, 3, 4]),
                   ([3], [3]), ([], []), ([2, 3], [])]
    for f, nargs in helpers:
        for a, b in shape_pairs:
            for adj in ([None] if nargs == 2 else [False, True]):
                args = (a, b) if nargs == 2 else (a, b, adj)
                a0, b0 = repr(a), repr(b)
                out = rec_call(f.__name__, f, *args)
                rec(f.__name__, args, out, type(out).__name__,
                    repr(a) == a0, repr(b) == b0)
    for f in [linop._get_multiply_adjoint_sum_axes,
              linop._get_matmul_adjoint_sum_axes]:
        for o, i, m in [([2, 3], [3], [2, 3]), ([2, 3], [2, 1], [3]),
                        ([5, 4, 3], [1, 2, 3], [5, 4, 2]),
                        ([6, 5, 4, 3], [2, 3], [6, 5, 4, 2]),
                        ([2, 3], [2, 3], [2, 3]), ([1, 1], [1, 1], [1])]:
            out = rec_call(f.__name__, f, o, i, m)
            rec(f.__name__, o, i, m, out, type(out).__name__)

    print("n2 digest:", H.hexdigest())
    return 0


if __name__ == "__main__":
    sys.exit(main())
