"""C19 / n2 equivalence demo: digest of calc_ripples / dzrf (all pulse types x
filter types, several sizes, ripples, flags, invalid inputs).  Same digest
expected before and after the refactor."""
import hashlib
import warnings

import numpy as np

import sigpy.mri.rf as rf

H = hashlib.sha256()


def r10(v):
    v = np.asarray(v)
    if np.iscomplexobj(v):
        return r10(v.real) + 1j * r10(v.imag)
    v = v.astype(np.float64)
    out = np.zeros_like(v)
    nz = np.isfinite(v) & (v != 0)
    mag = np.floor(np.log10(np.abs(v[nz])))
    out[nz] = np.round(v[nz] / 10**mag, 9) * 10**mag
    out[~np.isfinite(v)] = v[~np.isfinite(v)]
    return out


def put(tag, obj):
    H.update(tag.encode())
    if isinstance(obj, (tuple, list)):
        H.update(type(obj).__name__.encode() + str(len(obj)).encode())
        for i, o in enumerate(obj):
            put("%s[%d]" % (tag, i), o)
        return
    H.update(type(obj).__name__.encode())
    arr = np.asarray(obj)
    H.update(str(arr.dtype).encode())
    H.update(str(arr.shape).encode())
    if arr.dtype.kind in "fciub":
        vals = r10(arr)
        H.update(np.array2string(np.ravel(vals), precision=9,
                                 threshold=10**9,
                                 floatmode="maxprec").encode())
    else:
        H.update(repr(obj).encode())


def raw(tag, *arrs):
    for i, arr in enumerate(arrs):
        if isinstance(arr, np.ndarray):
            H.update(("%s.in%d" % (tag, i)).encode())
            H.update(str(arr.dtype).encode() + str(arr.shape).encode())
            H.update(np.ascontiguousarray(arr).tobytes())


def call(tag, fn, *args, **kw):
    try:
        with warnings.catch_warnings():
            warnings.simplefilter("ignore")
            out = fn(*args, **kw)
        put(tag, out)
    except Exception as e:  # noqa
        H.update((tag + ":EXC:" + type(e).__name__ + ":" + str(e)[:60]).encode())
    raw(tag, *args)
    raw(tag, *kw.values())


ptypes = ["st", "ex", "se", "inv", "sat"]
ftypes = ["ls", "ms", "pm", "min", "max"]

# calc_ripples: values, python/numpy scalar types, array-valued ripples
for pt in ptypes + ["EX", "", None, 3, "exc", ("ex",)]:
    call("cr-default-" + repr(pt), rf.slr.calc_ripples, pt)
    for d1, d2 in ((0.01, 0.01), (1e-3, 5e-2), (0, 0.01), (0.01, -0.04),
                   (np.float32(0.02), np.float64(0.003)), (1, 2),
                   (np.array([0.01, 0.02]), np.array([0.001, 0.01])),
                   ("a", 0.01), (0.01, None)):
        call("cr-" + repr(pt), rf.slr.calc_ripples, pt, d1, d2)
call("cr-noarg", rf.slr.calc_ripples)
call("cr-kw", rf.slr.calc_ripples, d2=0.02, ptype="sat", d1=0.03)

# dzrf: every ptype x ftype, several sizes / tb / ripples, repeated calls
for pt in ptypes:
    for ft in ftypes:
        for (n, tb, d1, d2) in ((64, 4, 0.01, 0.01), (48, 6, 0.005, 0.02),
                                (128, 8, 0.01, 0.001)):
            call("dzrf-%s-%s" % (pt, ft), rf.slr.dzrf, n, tb, pt, ft, d1, d2)
        call("dzrf-cancel-%s-%s" % (pt, ft), rf.slr.dzrf, 64, 4, pt, ft,
             0.01, 0.01, True)
        call("dzrf-again-%s-%s" % (pt, ft), rf.slr.dzrf, 64, 4, pt, ft)
    call("dzrf-kw-" + pt, rf.slr.dzrf, ptype=pt)
call("dzrf-default", rf.slr.dzrf)
call("dzrf-odd-pm", rf.slr.dzrf, 63, 4, "ex", "pm")
call("dzrf-odd-ms", rf.slr.dzrf, 31, 6, "se", "ms")
call("dzrf-odd-ls", rf.slr.dzrf, 63, 4, "ex", "ls")
call("dzrf-npint", rf.slr.dzrf, np.int64(32), np.float64(4.0), "inv", "min")
call("dzrf-tb-odd-ms", rf.slr.dzrf, 64, 5, "st", "ms")
call("dzrf-cancel-kw", rf.slr.dzrf, 32, 4, "ex", cancel_alpha_phs=1)

# invalid inputs: order of the two "not recognized" errors, bad values
call("bad-ft", rf.slr.dzrf, 64, 4, "ex", "xx")
call("bad-pt", rf.slr.dzrf, 64, 4, "xx", "ls")
call("bad-both", rf.slr.dzrf, 64, 4, "xx", "yy")
call("bad-ft-none", rf.slr.dzrf, 64, 4, "st", None)
call("bad-ft-case", rf.slr.dzrf, 64, 4, "st", "LS")
call("bad-ft-arr", rf.slr.dzrf, 64, 4, "st", np.array(["ls", "ms"]))
call("bad-pt-arr", rf.slr.dzrf, 64, 4, np.array(["st", "ex"]), "ls")
call("bad-n0", rf.slr.dzrf, 0, 4, "ex", "ls")
call("bad-nfloat", rf.slr.dzrf, 64.0, 4, "ex", "pm")
call("bad-d1", rf.slr.dzrf, 64, 4, "ex", "ls", -0.01, 0.01)
call("bad-d-str", rf.slr.dzrf, 64, 4, "ex", "ls", "a", 0.01)
call("bad-tb", rf.slr.dzrf, 64, 400, "ex", "ls")
call("names", lambda: sorted(rf.slr.__all__))
call("private-not-exported", lambda: [k for k in ("_dz_beta",)
                                      if k in rf.slr.__all__ or hasattr(rf, k)])

print(H.hexdigest())
