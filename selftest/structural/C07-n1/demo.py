"""Equivalence demo for the C07 structural refactors (n1 / n2).

Exercises sigpy.interpolate / sigpy.gridding / linop.Interpolate / linop.Gridding
(and the private kernel functions reachable as sigpy.interp._spline_kernel /
_kaiser_bessel_kernel) on a spread of inputs and prints one SHA256 digest of
everything observable: values (10 significant digits), dtypes, shapes,
exception type names for invalid inputs, and the caller's arrays after each
call.  The digest must be identical on the pristine and the refactored tree.
"""
import hashlib
import pickle
import sys

import numpy as np

import sigpy as sp
from sigpy import interp, linop

H = hashlib.sha256()
NREC = [0]


def fmt(v):
    return np.format_float_scientific(float(v), precision=9, unique=False)


def put(*items):
    for it in items:
        H.update(str(it).encode())
        H.update(b"|")
    NREC[0] += 1


def put_array(tag, a):
    a = np.asarray(a)
    put(tag, a.dtype.str, a.shape)
    flat = a.ravel()
    if np.iscomplexobj(flat):
        vals = np.stack([flat.real, flat.imag], -1).ravel()
    else:
        vals = flat
    H.update(",".join(fmt(v) for v in vals).encode())
    H.update(b"|")


def put_obj(tag, o):
    if isinstance(o, np.ndarray):
        put_array(tag, o)
    elif isinstance(o, (list, tuple)):
        put(tag, type(o).__name__, len(o))
        for k, e in enumerate(o):
            put_obj("%s[%d]" % (tag, k), e)
    else:
        put(tag, type(o).__name__, repr(o))


def call(tag, f, *args, **kwargs):
    """Run f, record result or exception type, then the args afterwards."""
    try:
        out = f(*args, **kwargs)
        put_obj(tag + ":out", out)
    except BaseException as e:  # noqa
        chain = [type(e).__name__]
        c = e.__cause__
        while c is not None:
            chain.append(type(c).__name__)
            c = c.__cause__
        put(tag + ":exc", ">".join(chain))
        out = None
    for k, a in enumerate(args):
        put_obj("%s:arg%d" % (tag, k), a)
    for k in sorted(kwargs):
        put_obj("%s:kw_%s" % (tag, k), kwargs[k])
    return out


def rand(rng, shape, dtype):
    dtype = np.dtype(dtype)
    a = rng.standard_normal(shape)
    if dtype.kind == "c":
        a = a + 1j * rng.standard_normal(shape)
    if dtype.kind in "iu":
        a = np.round(3 * a)
    return a.astype(dtype)


def main():
    rng = np.random.RandomState(2024)

    # ---- private kernels (still reachable through sigpy.interp) ----------
    for x in [-1.5, -1.0, -0.7, -1 / 3, -0.2, 0.0, 0.1, 1 / 3, 0.34, 0.999, 1.0, 1.0000001]:
        for order in [0, 1, 2, 0.0, 1.0, 2.0]:
            call("spk", interp._spline_kernel, x, order)
        for beta in [0.0, 0.5, 2.34, 3.75, 3.7500001, 9.1, 13.9]:
            call("kbk", interp._kaiser_bessel_kernel, x, beta)
    put("names", sorted(interp.__all__), interp.KERNELS)
    put(
        "tables",
        sorted(interp._interpolate),
        sorted(interp._gridding),
        [len(interp._interpolate[k]) for k in interp.KERNELS],
        [len(interp._gridding[k]) for k in interp.KERNELS],
    )

    grids = {
        1: [[7], [1], [4]],
        2: [[5, 4], [1, 6], [3, 1]],
        3: [[4, 3, 2], [2, 1, 3], [1, 1, 1]],
    }
    kernel_cfgs = [
        ("spline", 2, 1),
        ("spline", 1, 0),
        ("spline", 3, 2),
        ("spline", 3.5, 2.0),
        ("spline", np.float32(2.5), np.int64(1)),
        ("kaiser_bessel", 4, 9.1),
        ("kaiser_bessel", 2.5, 0.0),
        ("kaiser_bessel", 6, 13.9),
    ]
    dtypes = [np.float32, np.float64, np.complex64, np.complex128]
    batches = [(), (1,), (2,), (2, 3)]
    n = 0
    for ndim in (1, 2, 3):
        per_axis = [
            ("spline", tuple([2, 3, 4][:ndim]), tuple([1, 2, 0][:ndim])),
            ("spline", [3.0, 1.5, 2.5][:ndim], np.array([2, 0, 1][:ndim])),
            ("kaiser_bessel", np.array([4.0, 3.0, 2.5][:ndim]), (9.1, 2.34, 0.5)[:ndim]),
            # longer than ndim: the trailing entries are used
            ("spline", (9, 2, 3, 4), (7, 1, 2, 0)),
        ]
        for gi, grid in enumerate(grids[ndim]):
            for ci, (kernel, width, param) in enumerate(kernel_cfgs + per_axis):
                n += 1
                dtype = dtypes[n % 4]
                batch = batches[(n // 2) % 4]
                cdtype = [np.float64, np.float32, np.float64][n % 3]
                pts = [(6,), (2, 3), ()][(n // 3) % 3]
                coord = rng.uniform(-9, 12, size=pts + (ndim,))
                if pts == (6,):
                    coord[0] = 1.5
                    coord[1] = -2.0
                    coord[3] = coord[2]
                    coord[4] = 1e4 + 0.25
                coord = coord.astype(cdtype)
                x = rand(rng, batch + tuple(grid), dtype)
                y = rand(rng, batch + pts, dtype)
                tag = "f%d" % n
                for rep in range(2):  # repeated calls
                    call(tag + "i", sp.interpolate, x, coord, kernel=kernel, width=width, param=param)
                    shape = [list, tuple, np.array][n % 3](batch + tuple(grid))
                    call(tag + "g", sp.gridding, y, coord, shape, kernel=kernel, width=width, param=param)
                # positional arguments + defaults
                if ci == 0:
                    call(tag + "id", sp.interpolate, x, coord)
                    call(tag + "gd", sp.gridding, y, coord, list(batch) + grid)
                    call(tag + "ip", interp.interpolate, x, coord, "kaiser_bessel", 3, 2.34)
                    call(tag + "gp", interp.gridding, y, coord, list(batch) + grid, "kaiser_bessel", 3, 2.34)

                # linear operators
                if ci % 3 == 0:
                    ishape = list(batch) + grid
                    A = linop.Interpolate(ishape, coord, kernel=kernel, width=width, param=param)
                    put(tag + "A", repr(A), A.ishape, A.oshape, sorted(A.__dict__))
                    call(tag + "A*", A, x)
                    call(tag + "AH*", A.H, y)
                    call(tag + "AHH*", A.H.H, x)
                    call(tag + "AN*", A.N, x)
                    put(tag + "AH", repr(A.H), type(A.H).__name__, A.H.H is A.H.H, A.H is A.H)
                    G = linop.Gridding(ishape, coord, kernel=kernel, width=width, param=param)
                    put(tag + "G", repr(G), G.ishape, G.oshape, sorted(G.__dict__))
                    call(tag + "G*", G, y)
                    call(tag + "GH*", G.H, x)
                    A2 = pickle.loads(pickle.dumps(A))
                    call(tag + "A2*", A2, x)
                    call(tag + "A*bad", A, np.zeros((3, 3, 3, 3, 3)))

    # ---- non-contiguous / integer / odd inputs ---------------------------
    base = rand(rng, (2, 10, 8), np.complex128)
    xs = base[:, ::2, ::-1]  # non-contiguous view
    coord = rng.uniform(-3, 7, size=(5, 2))
    call("nc_i", sp.interpolate, xs, coord, kernel="kaiser_bessel", width=3, param=4.0)
    coord_f = np.asfortranarray(rng.uniform(-3, 7, size=(5, 2)))
    call("nc_c", sp.interpolate, xs, coord_f, width=(3, 2), param=(2, 1))
    ys = rand(rng, (2, 10), np.float64)[:, ::2]
    call("nc_g", sp.gridding, ys, coord_f, (2, 5, 8), width=3, param=2)
    xi = rand(rng, (3, 6), np.int64)
    call("int_i", sp.interpolate, xi, rng.uniform(0, 5, size=(4, 1)))
    call("int_c", sp.interpolate, rand(rng, (3, 6), np.float64), np.array([[0], [2], [7], [-1]]), width=2.5, param=1)
    call("int_g", sp.gridding, rand(rng, (3, 4), np.float64), np.array([[0], [2], [7], [-1]]), [3, 6], width=3, param=2)
    call("bool_p", sp.interpolate, rand(rng, (6,), np.float64), coord[:, :1], param=True, width=np.float64(3))
    call("nan_c", sp.gridding, rand(rng, (2,), np.float32), np.array([[0.5], [2.0]], np.float32), [5], width=4.0, param=2)

    # ---- invalid inputs ---------------------------------------------------
    x = rand(rng, (2, 5, 4), np.float64)
    y = rand(rng, (2, 5), np.float64)
    coord = rng.uniform(-3, 7, size=(5, 2))
    call("bad_kernel_i", sp.interpolate, x, coord, kernel="gauss")
    call("bad_kernel_g", sp.gridding, y, coord, [2, 5, 4], kernel="gauss")
    call("bad_kernel_none", sp.interpolate, x, coord, kernel=None)
    call("bad_ndim4_i", sp.interpolate, rand(rng, (2, 2, 2, 2), np.float64), rng.uniform(0, 1, size=(3, 4)))
    call("bad_ndim4_g", sp.gridding, rand(rng, (3,), np.float64), rng.uniform(0, 1, size=(3, 4)), [2, 2, 2, 2])
    call("bad_rank_i", sp.interpolate, rand(rng, (5,), np.float64), coord)
    call("bad_size_g", sp.gridding, rand(rng, (2, 4), np.float64), coord, [2, 5, 4])
    call("bad_shape_g", sp.gridding, y, coord, [4])
    call("bad_param_str", sp.interpolate, x, coord, param="abc")
    call("bad_width_str", sp.gridding, y, coord, [2, 5, 4], width="wide")
    call("bad_param_ragged", sp.interpolate, x, coord, param=[[1, 2], [3]])
    call("bad_width_cplx", sp.interpolate, x, coord, width=2 + 1j)
    call("bad_param_cplx", sp.gridding, y, coord, [2, 5, 4], param=(1j, 1))
    call("bad_input_list", sp.interpolate, [[1.0, 2.0]], coord[:, :1])
    call("bad_coord_list", sp.interpolate, x, [[0.5, 0.5]])
    call("bad_shape_none", sp.gridding, y, coord, None)
    call("bad_both", sp.interpolate, x, coord, width="wide", param="abc")
    call("bad_both_g", sp.gridding, y, coord, [2, 5, 4], kernel="gauss", width="wide", param="abc")
    call("bad_linop_shape", linop.Interpolate, [2, 0, 4], coord)
    call("bad_linop_shape_g", linop.Gridding, [2, -5, 4], coord)
    call("bad_linop_kernel", lambda: linop.Interpolate([2, 5, 4], coord, kernel="gauss") * x)
    call("bad_linop_kernel_g", lambda: linop.Gridding([2, 5, 4], coord, kernel="gauss") * y)

    print("records:", NREC[0])
    print("DIGEST", H.hexdigest())


if __name__ == "__main__":
    main()
    sys.exit(0)
