"""Equivalence demo for refactor n2 (stopping rule of GradientMethod and
PrimalDualHybridGradient moved into a private base class, redundant
PowerMethod._done removed).  Prints a SHA256 digest over done() values
(including their Python / NumPy type), iteration counters, residuals,
variables, caller arrays after the run and exception types.
"""
import hashlib
import warnings

import numpy as np

import sigpy as sp
from sigpy import alg, app, linop, prox

warnings.simplefilter("ignore")
H = hashlib.sha256()
N_REC = [0]


def fmt(v):
    if v is None:
        return "None"
    a = np.asarray(v)
    parts = [type(v).__name__, str(a.dtype), str(a.shape)]
    flat = a.reshape(-1)
    if np.iscomplexobj(flat):
        flat = np.stack([flat.real, flat.imag], -1).reshape(-1)
    if flat.dtype == bool:
        parts += [str(bool(t)) for t in flat]
    else:
        parts += ["%.9e" % float(t) for t in flat]
    return " ".join(parts)


def rec(tag, v):
    N_REC[0] += 1
    H.update((tag + ": " + fmt(v) + "\n").encode())


def rec_exc(tag, fn):
    try:
        fn()
        H.update((tag + ": no exception\n").encode())
    except Exception as e:  # noqa
        H.update((tag + ": " + type(e).__name__ + "\n").encode())
    N_REC[0] += 1


def soft(t, z):
    mag = np.abs(z)
    sgn = np.where(mag == 0, 0, z / np.where(mag == 0, 1, mag))
    return (np.maximum(mag - t, 0) * sgn).astype(z.dtype)


def trace(tag, a, names, resid_name="resid", extra_updates=2):
    """Interleave done()/update() for max_iter + extra_updates updates,
    whatever done() says; done() is also polled repeatedly."""
    total = int(min(a.max_iter, 50)) + extra_updates
    for k in range(total):
        rec(tag + " done@%d" % k, a.done())
        rec(tag + " _done@%d" % k, a._done())
        a.update()
        rec(tag + " iter", a.iter)
        if resid_name is not None:
            rec(tag + " resid", getattr(a, resid_name))
        for nm in names:
            rec(tag + " " + nm, getattr(a, nm))
    rec(tag + " done@end", a.done())


def canonical(tag, a, names, resid_name="resid"):
    """while not alg.done(): alg.update()"""
    cnt = 0
    while not a.done():
        a.update()
        cnt += 1
        if cnt > 500:
            break
    rec(tag + " updates", cnt)
    rec(tag + " iter", a.iter)
    if resid_name is not None:
        rec(tag + " resid", getattr(a, resid_name))
    for nm in names:
        rec(tag + " " + nm, getattr(a, nm))


rng = np.random.RandomState(0)
MAX_ITERS = [0, 1, 5, np.int64(3), np.int32(0), 2.5, np.float64(4.0), np.inf]
TOLS = [0, 0.0, 1e-3, 0.3, np.float32(0.3), np.float64(0), -1.0, np.inf, np.nan]

# ------------------------------------------------------------ GradientMethod
for dtype in [np.float32, np.float64, np.complex64, np.complex128]:
    cplx = np.issubdtype(dtype, np.complexfloating)
    for shape in [(6,), (2, 3), (1,)]:
        n = int(np.prod(shape))
        mat = rng.randn(n + 2, n) + (1j * rng.randn(n + 2, n) if cplx else 0)
        mat = mat.astype(dtype)
        y = (rng.randn(n + 2) + (1j * rng.randn(n + 2) if cplx else 0)).astype(dtype)
        alpha = float(1 / np.linalg.norm(mat, 2) ** 2)

        def gradf(v, mat=mat, y=y, shape=shape):
            return (mat.conj().T @ (mat @ v.reshape(-1) - y)).reshape(shape)

        for accelerate in [False, True]:
            for proxg in [None, lambda t, v: soft(0.4 * t, v),
                          lambda t, v: soft(1e3 * t, v)]:  # last: x stays at 0
                for mi in MAX_ITERS:
                    for tol in ([0, 1e-3, 0.3] if mi not in (5,) else TOLS):
                        if mi == np.inf and not tol > 0:
                            continue
                        x = np.zeros(shape, dtype)
                        tag = "gm %s %s acc%d p%s mi=%r tol=%r" % (
                            np.dtype(dtype).name, shape, accelerate,
                            "N" if proxg is None else "Y", mi, tol)
                        a = alg.GradientMethod(
                            gradf, x, alpha, proxg=proxg, accelerate=accelerate,
                            max_iter=mi, tol=tol)
                        if mi == np.inf:
                            canonical(tag, a, ["x"])
                        else:
                            trace(tag, a, ["x"])
                        rec(tag + " caller x", x)
                        rec(tag + " caller y", y)
                        # canonical loop from a random point
                        if mi != np.inf:
                            x = (rng.randn(*shape)).astype(dtype)
                            a = alg.GradientMethod(
                                gradf, x, alpha, proxg=proxg,
                                accelerate=accelerate, max_iter=mi, tol=tol)
                            canonical(tag + " canon", a, ["x"])

# ----------------------------------------------------------------------- PDHG
for dtype in [np.float32, np.float64, np.complex128]:
    cplx = np.issubdtype(dtype, np.complexfloating)
    for xshape, ushape in [((4,), (6,)), ((2, 2), (3, 1, 2))]:
        nx, nu = int(np.prod(xshape)), int(np.prod(ushape))
        mat = (rng.randn(nu, nx) + (1j * rng.randn(nu, nx) if cplx else 0)).astype(dtype)
        y = (rng.randn(*ushape) + (1j * rng.randn(*ushape) if cplx else 0)).astype(dtype)
        L = float(np.linalg.norm(mat, 2))

        def A(v, mat=mat, ushape=ushape):
            return (mat @ v.reshape(-1)).reshape(ushape)

        def AH(v, mat=mat, xshape=xshape):
            return (mat.conj().T @ v.reshape(-1)).reshape(xshape)

        def proxfc(s, v, y=y):
            return ((v - s * y) / (1 + s)).astype(v.dtype)

        for lam in [0.3, 1e3]:
            def proxg(t, v, lam=lam):
                return soft(lam * t, v)

            for step in [0.9 / L, 1e-3 / L]:
                for extra in [dict(), dict(gamma_primal=0.1), dict(gamma_dual=1.0)]:
                    for mi in MAX_ITERS:
                        for tol in ([0, 1e-2] if mi not in (5,) else TOLS):
                            if mi == np.inf and not tol > 0:
                                continue
                            x = np.zeros(xshape, dtype)
                            u = np.zeros(ushape, dtype)
                            tag = "pdhg %s %s lam%g st%.1e %s mi=%r tol=%r" % (
                                np.dtype(dtype).name, xshape, lam, step * L,
                                sorted(extra), mi, tol)
                            a = alg.PrimalDualHybridGradient(
                                proxfc, proxg, A, AH, x, u, step, step,
                                max_iter=mi, tol=tol, **extra)
                            if mi == np.inf:
                                canonical(tag, a, ["x", "u"])
                            else:
                                trace(tag, a, ["x", "u", "tau", "sigma"])
                            rec(tag + " caller x", x)
                            rec(tag + " caller u", u)

# ---------------------------------------------------------------- PowerMethod
for dtype in [np.float32, np.float64, np.complex64]:
    cplx = np.issubdtype(dtype, np.complexfloating)
    for shape in [(5,), (5, 1), (2, 3)]:
        n = int(np.prod(shape))
        B = rng.randn(n, n) + (1j * rng.randn(n, n) if cplx else 0)
        M = (B.conj().T @ B).astype(dtype)
        for mi in MAX_ITERS + [30]:
            if mi == np.inf:
                continue
            x = (rng.randn(*shape) + (1j * rng.randn(*shape) if cplx else 0)).astype(dtype)
            tag = "pm %s %s mi=%r" % (np.dtype(dtype).name, shape, mi)
            a = alg.PowerMethod(
                lambda v, M=M, shape=shape: (M @ v.reshape(-1)).reshape(shape),
                x, max_iter=mi)
            trace(tag, a, ["x", "max_eig"], resid_name=None)
            rec(tag + " caller x", x)
        x = np.ones(shape, dtype)
        a = alg.PowerMethod(
            lambda v, M=M, shape=shape: (M @ v.reshape(-1)).reshape(shape), x,
            norm_func=lambda v: float(np.abs(v).max()))
        canonical("pm normfunc %s %s" % (np.dtype(dtype).name, shape), a,
                  ["x", "max_eig"], resid_name=None)
        rec("pm default max_iter", a.max_iter)

# the other algorithms keep their own rules; record them too
Mspd = rng.randn(5, 5)
Mspd = Mspd.T @ Mspd + np.eye(5)
bvec = rng.randn(5)
for mi in [0, 1, 3, np.int64(2), 20]:
    for tol in [0, 1e-6, np.float64(1e-3)]:
        x = np.zeros(5)
        a = alg.ConjugateGradient(lambda v: Mspd @ v, bvec, x, max_iter=mi, tol=tol)
        trace("cg mi=%r tol=%r" % (mi, tol), a, ["x"])
x = np.zeros(5)
a = alg.ConjugateGradient(lambda v: -v, bvec, x, max_iter=5)
trace("cg negdef", a, ["x", "not_positive_definite"])
x = np.zeros(5)
a = alg.NewtonsMethod(lambda v: Mspd @ v - bvec,
                      lambda v: (lambda w: np.linalg.solve(Mspd, w)), x, max_iter=3)
trace("newton", a, ["x"], resid_name="residual")
a = alg.AltMin(lambda: None, lambda: None, max_iter=2)
trace("altmin", a, [], resid_name=None)

# ------------------------------------------------------------ invalid inputs
def gm_none_tol():
    a = alg.GradientMethod(lambda v: v, np.ones(2), 0.5, max_iter=3, tol=None)
    a.update()
    a.done()


def gm_none_tol_at_max_iter():
    a = alg.GradientMethod(lambda v: v, np.ones(2), 0.5, max_iter=0, tol=None)
    rec("gm_none_tol_at_max_iter done", a.done())


def gm_str_max_iter():
    a = alg.GradientMethod(lambda v: v, np.ones(2), 0.5, max_iter="3")
    a.done()


def gm_array_tol():
    a = alg.GradientMethod(lambda v: v, np.ones(2), 0.5, max_iter=3,
                           tol=np.array([0.0, 1.0]))
    a.update()
    a.done()


def gm_array_alpha():
    a = alg.GradientMethod(lambda v: v, np.ones(2), np.array([0.5, 0.25]),
                           max_iter=3)
    a.update()
    rec("gm_array_alpha resid", a.resid)
    a.done()


def pdhg_none_tol():
    a = alg.PrimalDualHybridGradient(
        lambda s, v: v, lambda t, v: v, lambda v: v, lambda v: v,
        np.ones(2), np.ones(2), 0.1, 0.1, max_iter=2, tol=None)
    a.update()
    a.done()


def pdhg_none_max_iter():
    a = alg.PrimalDualHybridGradient(
        lambda s, v: v, lambda t, v: v, lambda v: v, lambda v: v,
        np.ones(2), np.ones(2), 0.1, 0.1, max_iter=None)
    a.done()


def pm_none_max_iter():
    a = alg.PowerMethod(lambda v: v, np.ones(2), max_iter=None)
    a.done()


def gm_deleted_resid():
    a = alg.GradientMethod(lambda v: v, np.ones(2), 0.5, max_iter=3)
    del a.resid
    a.done()


def base_update():
    alg.Alg(3).update()


for f in [gm_none_tol, gm_none_tol_at_max_iter, gm_str_max_iter, gm_array_tol,
          gm_array_alpha, pdhg_none_tol, pdhg_none_max_iter, pm_none_max_iter,
          gm_deleted_resid, base_update]:
    rec_exc("invalid " + f.__name__, f)

# class relations visible to users
for c in [alg.PowerMethod, alg.GradientMethod, alg.PrimalDualHybridGradient,
          alg.ConjugateGradient]:
    rec("issubclass " + c.__name__, issubclass(c, alg.Alg))
    rec("public names " + c.__name__,
        len([k for k in dir(c) if not k.startswith("_")]))
    H.update((",".join(k for k in dir(c) if not k.startswith("_")) + "\n").encode())

# ----------------------------------------------------------------------- Apps
n = 5
_A = np.eye(n) + 0.1 * rng.randn(n, n)
for dtype in [np.float64, np.complex64]:
    Aop = linop.MatMul([n, 1], _A.astype(dtype))
    y = rng.randn(n, 1).astype(dtype)
    for solver in ["GradientMethod", "PrimalDualHybridGradient"]:
        for kw in [dict(), dict(lamda=0.1), dict(proxg=prox.L1Reg([n, 1], 0.05)),
                   dict(proxg=prox.L1Reg([n, 1], 1e3)),
                   dict(tol=1e-2), dict(tol=0, max_iter=np.int64(7)),
                   dict(accelerate=False, tol=1e-1)]:
            if solver != "GradientMethod" and "accelerate" in kw:
                continue
            np.random.seed(5)
            kw = dict(kw)
            kw.setdefault("max_iter", 15)
            l = app.LinearLeastSquares(Aop, y, solver=solver, show_pbar=False, **kw)
            out = l.run()
            tag = "lls %s %s %s" % (np.dtype(dtype).name, solver, sorted(kw.items(), key=str))
            rec(tag + " out", out)
            rec(tag + " iter", l.alg.iter)
            rec(tag + " resid", l.alg.resid)
            rec(tag + " ntime", len(l.time))
            rec(tag + " y", y)
    for mi in [0, 1, 30, np.int64(4)]:
        np.random.seed(6)
        m = app.MaxEig(Aop.H * Aop, dtype=dtype, max_iter=mi, show_pbar=False)
        rec("maxeig %s %r" % (np.dtype(dtype).name, mi), m.run())
        rec("maxeig x", m.x)
        rec("maxeig iter", m.alg.iter)

print("records:", N_REC[0])
print("digest:", H.hexdigest())
