"""C19 / n1 equivalence demo: digest of abrm / abrm_nd (and, as bystanders,
abrm_hp / abrm_ptx) over a spread of inputs.  Same digest expected before and
after the refactor."""
import hashlib
import warnings

import numpy as np

import sigpy.mri.rf as rf

H = hashlib.sha256()


def r10(v):
    v = np.asarray(v)
    if np.iscomplexobj(v):
        return r10(v.real) + 1j * r10(v.imag)
    v = v.astype(np.float64)
    out = np.zeros_like(v)
    nz = np.isfinite(v) & (v != 0)
    mag = np.floor(np.log10(np.abs(v[nz])))
    out[nz] = np.round(v[nz] / 10**mag, 9) * 10**mag
    out[~np.isfinite(v)] = v[~np.isfinite(v)]
    return out


def put(tag, obj):
    H.update(tag.encode())
    if isinstance(obj, (tuple, list)):
        for i, o in enumerate(obj):
            put("%s[%d]" % (tag, i), o)
        return
    arr = np.asarray(obj)
    H.update(str(arr.dtype).encode())
    H.update(str(arr.shape).encode())
    vals = r10(arr)
    H.update(np.array2string(np.ravel(vals), precision=9, threshold=10**9,
                             floatmode="maxprec").encode())


def raw(tag, *arrs):
    for i, arr in enumerate(arrs):
        if isinstance(arr, np.ndarray):
            H.update(("%s.in%d" % (tag, i)).encode())
            H.update(str(arr.dtype).encode() + str(arr.shape).encode())
            H.update(np.ascontiguousarray(arr).tobytes())


def call(tag, fn, *args, **kw):
    try:
        with warnings.catch_warnings():
            warnings.simplefilter("ignore")
            out = fn(*args, **kw)
        put(tag, out)
    except Exception as e:  # noqa
        H.update((tag + ":EXC:" + type(e).__name__).encode())
    raw(tag, *args)


rng = np.random.default_rng(7)
k = 0
for nt in (1, 2, 7, 64, 255):
    for dtype in (np.complex128, np.complex64, np.float64, np.float32):
        amp = (0.05, 0.5, 4.0)[k % 3]
        k += 1
        p = rng.standard_normal(nt) * amp
        if np.issubdtype(dtype, np.complexfloating):
            p = p + 1j * rng.standard_normal(nt) * amp
        p = p.astype(dtype)
        for x in (np.arange(-4, 4, 0.5), np.arange(-3, 4),  # float / int pos.
                  np.array([0.0]), np.linspace(-20, 20, 33).astype(np.float32)):
            for bal in (False, True, 1, 0):
                call("abrm", rf.sim.abrm, p, x, bal)
            call("abrm-default", rf.sim.abrm, p, x)
            call("abrm-again", rf.sim.abrm, p, x)
        for nd in (1, 2, 3):
            xs = rng.uniform(-2, 2, (9, nd))
            g = rng.standard_normal((nt, nd)) * 0.7
            call("abrm_nd", rf.sim.abrm_nd, p, xs, g)
            call("abrm_nd-zero-g", rf.sim.abrm_nd, p, xs, np.zeros((nt, nd)))
            call("abrm_nd-intx", rf.sim.abrm_nd, p,
                 np.round(xs * 2).astype(np.int64), g)
            call("abrm_nd-f32", rf.sim.abrm_nd, p, xs.astype(np.float32),
                 g.astype(np.float32))
        # zero pulse
        z = np.zeros(nt, dtype=dtype)
        call("abrm-zero", rf.sim.abrm, z, np.arange(-2, 2, 0.25), True)
        call("abrm_nd-zero", rf.sim.abrm_nd, z, np.zeros((5, 2)),
             np.zeros((nt, 2)))

# designed pulse
pulse = rf.slr.dzrf(64, 6, "ex", "ls", 0.01, 0.01)
call("abrm-dz", rf.sim.abrm, pulse, np.arange(-12, 12, 0.1), True)
call("abrm_nd-dz", rf.sim.abrm_nd, pulse, np.arange(-12, 12, 0.1)[:, None],
     np.ones((64, 1)) * 2 * np.pi / 64)

# bystanders in the same module
p = (rng.standard_normal(16) + 1j * rng.standard_normal(16)) * 0.3
call("abrm_hp", rf.sim.abrm_hp, p, np.ones(16) * 0.3, np.arange(-5, 5, 0.5), 0.1)
xx, yy = np.meshgrid(np.linspace(-1, 1, 4), np.linspace(-1, 1, 4))
xg = np.stack((xx.ravel(), yy.ravel()), 1)
call("abrm_ptx", rf.sim.abrm_ptx, p[None, :] * 1e-3, xg,
     rng.standard_normal((16, 2)), 4e-6, rng.standard_normal(16) * 50)

# invalid inputs
p = (rng.standard_normal(8) + 1j * rng.standard_normal(8))
call("bad-abrm-2dx", rf.sim.abrm, p, np.ones((4, 2)))
call("bad-abrm-list", rf.sim.abrm, list(p), [0.0, 1.0])
call("bad-abrm-none", rf.sim.abrm, p, None)
call("bad-abrm-str", rf.sim.abrm, "abc", np.arange(3.0))
call("bad-abrm_nd-shape", rf.sim.abrm_nd, p, np.ones((5, 3)), np.ones((8, 2)))
call("bad-abrm_nd-short-g", rf.sim.abrm_nd, p, np.ones((5, 2)), np.ones((4, 2)))
call("bad-abrm_nd-1dx", rf.sim.abrm_nd, p, np.ones(5), np.ones((8, 1)))
call("bad-abrm_nd-1dg", rf.sim.abrm_nd, p, np.ones((5, 1)), np.ones(8))
call("bad-abrm_nd-2drf", rf.sim.abrm_nd, p[:, None], np.ones((5, 1)),
     np.ones((8, 1)))
call("bad-abrm-2drf", rf.sim.abrm, p[None, :], np.arange(4.0))
call("names", lambda: np.array(sorted(rf.sim.__all__)).astype("S"))

print(H.hexdigest())
