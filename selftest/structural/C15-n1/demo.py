"""Equivalence demo for refactor n1 (PrimalDualHybridGradient._update split into
private step methods).  Prints a SHA256 digest over every observable result:
done() traces, iteration counters, residuals, primal / dual / extrapolated
variables, step sizes (which the algorithm may update in place), the caller's
input arrays after the run, and exception types for invalid inputs.
"""
import hashlib
import warnings

import numpy as np

import sigpy as sp
from sigpy import alg, app, linop, prox

warnings.simplefilter("ignore")
H = hashlib.sha256()
N_REC = [0]


def fmt(v):
    if v is None:
        return "None"
    a = np.asarray(v)
    parts = [type(v).__name__, str(a.dtype), str(a.shape)]
    flat = a.reshape(-1)
    if np.iscomplexobj(flat):
        flat = np.stack([flat.real, flat.imag], -1).reshape(-1)
    if flat.dtype == bool:
        parts += [str(bool(t)) for t in flat]
    else:
        parts += ["%.9e" % float(t) for t in flat]
    return " ".join(parts)


def rec(tag, v):
    N_REC[0] += 1
    H.update((tag + ": " + fmt(v) + "\n").encode())


def rec_exc(tag, fn):
    try:
        fn()
        H.update((tag + ": no exception\n").encode())
    except Exception as e:  # noqa
        c = e.__cause__
        H.update(
            (tag + ": " + type(e).__name__ + "/" + type(c).__name__ + "\n").encode()
        )
    N_REC[0] += 1


def soft(t, z):
    mag = np.abs(z)
    with np.errstate(divide="ignore", invalid="ignore"):
        sgn = np.where(mag == 0, 0, z / np.where(mag == 0, 1, mag))
    return (np.maximum(mag - t, 0) * sgn).astype(z.dtype)


def trace(tag, a, extra_updates=2, names=("x", "u", "x_ext", "tau", "sigma")):
    """Interleave done()/update() up to max_iter + extra_updates updates."""
    total = int(a.max_iter) + extra_updates
    for k in range(total):
        rec(tag + " done@%d" % k, a.done())
        if k % 3 == 2:
            rec(tag + " done-again@%d" % k, a.done())
        a.update()
        rec(tag + " iter", a.iter)
        rec(tag + " resid", a.resid)
        for nm in names:
            rec(tag + " " + nm, getattr(a, nm))
    rec(tag + " done@end", a.done())


rng = np.random.RandomState(0)

# ------------------------------------------------------------------ raw Alg
cases = []
for dtype in [np.float32, np.float64, np.complex64, np.complex128]:
    for xshape, ushape in [((5,), (7,)), ((3, 2), (4, 1, 2)), ((1,), (1,))]:
        cases.append((dtype, xshape, ushape))

for ci, (dtype, xshape, ushape) in enumerate(cases):
    nx, nu = int(np.prod(xshape)), int(np.prod(ushape))
    mat = rng.randn(nu, nx)
    if np.issubdtype(dtype, np.complexfloating):
        mat = mat + 1j * rng.randn(nu, nx)
    mat = mat.astype(dtype)
    y = (rng.randn(*ushape) + (1j * rng.randn(*ushape) if
         np.issubdtype(dtype, np.complexfloating) else 0)).astype(dtype)
    L = np.linalg.norm(mat, 2)
    lamda = 0.3

    def A(v, mat=mat, ushape=ushape):
        return (mat @ v.reshape(-1)).reshape(ushape)

    def AH(v, mat=mat, xshape=xshape):
        return (mat.conj().T @ v.reshape(-1)).reshape(xshape)

    def proxfc(s, v, y=y):
        return ((v - s * y) / (1 + s)).astype(v.dtype)

    def proxg(t, v, lamda=lamda):
        return soft(lamda * t, v)

    rdt = np.zeros(1, dtype).real.dtype
    configs = [
        dict(tau=0.9 / L, sigma=0.9 / L),
        dict(tau=float(0.5 / L**2), sigma=1, theta=0.5),
        dict(tau=np.full(xshape, 0.9 / L, rdt), sigma=np.full(ushape, 0.9 / L, rdt)),
        dict(tau=0.9 / L, sigma=0.9 / L, gamma_primal=0.2),
        dict(tau=0.9 / L, sigma=0.9 / L, gamma_dual=1.0),
        dict(tau=np.full(xshape, 0.9 / L), sigma=np.full(ushape, 0.9 / L),
             gamma_primal=0.2),
        dict(tau=np.full(xshape, 0.9 / L), sigma=np.full(ushape, 0.9 / L),
             gamma_dual=1.0),
        dict(tau=0.9 / L, sigma=0.9 / L, gamma_primal=0.2, gamma_dual=1.0),
        dict(tau=1e-3 / L, sigma=1e-3 / L, tol=1e-2),  # small steps, x stalls at 0
        dict(tau=0.9 / L, sigma=0.9 / L, tol=0.5),
    ]
    for gi, cfg in enumerate(configs):
        for max_iter in ([0, 1, 4] if gi < 2 else [3]):
            for init in ["zero", "rand"]:
                if init == "zero":
                    x = np.zeros(xshape, dtype)
                    u = np.zeros(ushape, dtype)
                else:
                    x = rng.randn(*xshape).astype(dtype)
                    u = rng.randn(*ushape).astype(dtype)
                cfg2 = {k: (v.copy() if isinstance(v, np.ndarray) else v)
                        for k, v in cfg.items()}
                tag = "alg c%d g%d m%d %s" % (ci, gi, max_iter, init)
                a = alg.PrimalDualHybridGradient(
                    proxfc, proxg, A, AH, x, u, max_iter=max_iter, **cfg2
                )
                trace(tag, a)
                rec(tag + " caller x", x)
                rec(tag + " caller u", u)
                rec(tag + " caller tau", cfg2["tau"])
                rec(tag + " caller sigma", cfg2["sigma"])
                rec(tag + " caller y", y)
                rec(tag + " caller mat", mat)

# Prox / Linop objects instead of functions, Fortran-ordered state
mat = rng.randn(6, 4)
Aop = linop.MatMul([4, 1], mat)
y = rng.randn(6, 1)
x = np.zeros([4, 1], order="F")
u = np.zeros([6, 1])
a = alg.PrimalDualHybridGradient(
    prox.L2Reg([6, 1], 1, y=-y), prox.L1Reg([4, 1], 0.1), Aop, Aop.H, x, u,
    0.2, 0.2, max_iter=5,
)
trace("objs", a)
rec("objs x", x)

# ------------------------------------------------------------ invalid inputs
def bad_shape():
    a = alg.PrimalDualHybridGradient(
        lambda s, v: v, lambda t, v: v, lambda v: np.ones(3), lambda v: v[:2],
        np.zeros(2), np.zeros(4), 0.1, 0.1, max_iter=2)
    a.update()


def bad_prox_shape():
    a = alg.PrimalDualHybridGradient(
        prox.L2Reg([5], 1), prox.NoOp([2]), lambda v: np.ones(4), lambda v: v[:2],
        np.zeros(2), np.zeros(4), 0.1, 0.1, max_iter=2)
    a.update()


def int_tau_accel():
    a = alg.PrimalDualHybridGradient(
        lambda s, v: v, lambda t, v: v, lambda v: v, lambda v: v,
        np.zeros(2), np.zeros(2), np.ones(2, dtype=int), 0.1, gamma_primal=1.0,
        max_iter=2)
    a.update()


def list_x():
    a = alg.PrimalDualHybridGradient(
        lambda s, v: v, lambda t, v: v, lambda v: v, lambda v: v,
        [0.0, 0.0], np.zeros(2), 0.1, 0.1)
    a.update()


def complex_into_real():
    a = alg.PrimalDualHybridGradient(
        lambda s, v: v, lambda t, v: v, lambda v: 1j * v, lambda v: v,
        np.zeros(2), np.zeros(2), 0.1, 0.1, max_iter=2)
    a.update()


def none_tau():
    a = alg.PrimalDualHybridGradient(
        lambda s, v: v, lambda t, v: v, lambda v: v, lambda v: v,
        np.zeros(2), np.zeros(2), None, 0.1, max_iter=2)
    a.update()


def state_after_failure():
    x = np.ones(2)
    u = np.ones(2)

    def bad_proxg(t, v):
        raise KeyError("boom")

    a = alg.PrimalDualHybridGradient(
        lambda s, v: 0.5 * v, bad_proxg, lambda v: v, lambda v: v,
        x, u, 0.1, 0.1, max_iter=2)
    try:
        a.update()
    finally:
        rec("failure x", x)
        rec("failure u", u)
        rec("failure iter", a.iter)
        rec("failure resid", a.resid)


for f in [bad_shape, bad_prox_shape, int_tau_accel, list_x, complex_into_real,
          none_tau, state_after_failure]:
    rec_exc("invalid " + f.__name__, f)

# ----------------------------------------------------------------- the Apps
np.random.seed(3)
n = 5
_A = np.eye(n) + 0.1 * rng.randn(n, n)
for dtype in [np.float64, np.complex64]:
    Aop = linop.MatMul([n, 1], _A.astype(dtype))
    y = (rng.randn(n, 1)).astype(dtype)
    G = linop.FiniteDifference([n, 1], axes=[0])
    kws = [
        dict(),
        dict(lamda=0.1),
        dict(lamda=0.1, z=np.ones([n, 1], dtype)),
        dict(proxg=prox.L1Reg([n, 1], 0.05)),
        dict(proxg=prox.L1Reg(G.oshape, 0.05), G=G),
        dict(proxg=prox.L1Reg(G.oshape, 0.05), G=G, lamda=0.1),
        dict(tau=np.full([n, 1], 0.3)),
        dict(sigma=np.full([n, 1], 0.5)),
        dict(tau=0.2, sigma=0.2, tol=1e-3),
        dict(x=np.ones([n, 1], dtype), tau=0.2, sigma=0.2),
    ]
    for ki, kw in enumerate(kws):
        kw = {k: (v.copy() if isinstance(v, np.ndarray) else v) for k, v in kw.items()}
        np.random.seed(10 + ki)
        l = app.LinearLeastSquares(
            Aop, y, solver="PrimalDualHybridGradient", max_iter=12,
            show_pbar=False, **kw)
        out = l.run()
        tag = "lls %s k%d" % (np.dtype(dtype).name, ki)
        rec(tag + " out", out)
        rec(tag + " iter", l.alg.iter)
        rec(tag + " resid", l.alg.resid)
        rec(tag + " u", l.alg.u)
        rec(tag + " tau", l.alg.tau)
        rec(tag + " sigma", l.alg.sigma)
        rec(tag + " y", y)
        for k in ("tau", "sigma", "x", "z"):
            if isinstance(kw.get(k), np.ndarray):
                rec(tag + " caller " + k, kw[k])

    np.random.seed(7)
    c = app.L2ConstrainedMinimization(
        Aop, y, prox.L1Reg([n, 1], 1.0), 0.1, max_iter=9, show_pbar=False)
    rec("l2cm out", c.run())
    rec("l2cm u", c.u)
    rec("l2cm resid", c.alg.resid)
    c = app.L2ConstrainedMinimization(
        Aop, y, prox.L1Reg(G.oshape, 1.0), 0.1, G=G, max_iter=9, tau=0.1,
        sigma=0.1, show_pbar=False)
    rec("l2cm G out", c.run())
    rec("l2cm G resid", c.alg.resid)

print("records:", N_REC[0])
print("digest:", H.hexdigest())
