"""Equivalence digest for sigpy.mri.samp (poisson / _poisson / radial / spiral).

Prints one SHA256 over: values (10 significant digits), dtypes, shapes, exception
types for invalid inputs, numpy global RNG state after each call, and digests of
the caller's argument arrays after each call.
"""
import hashlib
import signal
import sys

import numpy as np

import sigpy.mri as mr
from sigpy.mri import samp

H = hashlib.sha256()


def put(*items):
    for it in items:
        H.update(repr(it).encode())
        H.update(b"|")


def put_arr(a):
    a = np.asarray(a)
    put(str(a.dtype), a.shape)
    if a.dtype.kind == "c":
        v = np.stack([a.real, a.imag]).astype(np.float64)
    else:
        v = a.astype(np.float64)
    H.update(np.char.mod("%.9e", v.ravel()).astype("S").tobytes())


def rng_digest():
    st = np.random.get_state()
    return hashlib.sha256(
        repr(st[0]).encode() + st[1].tobytes() + repr(st[2:]).encode()
    ).hexdigest()


def call(label, f, *args, **kw):
    put(label)
    try:
        out = f(*args, **kw)
    except Exception as e:  # noqa
        put("EXC", type(e).__name__)
        out = None
    else:
        put_arr(out)
    put(rng_digest())
    for a in list(args) + list(kw.values()):
        if isinstance(a, np.ndarray):
            put_arr(a)
        elif isinstance(a, (list, tuple)):
            put(type(a).__name__, repr(a))
    return out


def _alarm(*_):
    print("TIMEOUT")
    sys.exit(2)


def main():
    signal.signal(signal.SIGALRM, _alarm)
    signal.alarm(170)
    np.random.seed(2024)
    np.random.randn(3)  # leave a cached gaussian in the global state

    shapes = [(64, 64), (48, 80), (80, 48), (33, 47), (16, 16), (128, 96)]
    n = 0
    for shape in shapes:
        for accel, calib, seed, dtype, crop, tol in [
            (4, (0, 0), 0, np.complex128, True, 0.1),
            (3, (8, 6), 80, np.float32, True, 0.1),
            (2.5, (7, 9), np.int64(3), float, False, 0.2),
            (6, [4, 4], 11, np.complex64, True, 0.3),
            (1.7, (10, 10), np.uint8(5), np.int32, False, 0.1),
            (8, (2, 2), 123456789, bool, True, 0.5),
        ]:
            n += 1
            call(
                "poisson%d" % n,
                samp.poisson,
                shape,
                accel,
                calib=calib,
                dtype=dtype,
                crop_corner=crop,
                seed=seed,
                tol=tol,
            )
    # positional / package-level spelling, list shape, ndarray shape + calib
    call("pos", mr.poisson, [40, 56], 3, (6, 6), np.float64, True, False, 9, 20, 0.2)
    sh = np.array([48, 40])
    cb = np.array([6, 8])
    call("ndarr", samp.poisson, sh, 3, calib=cb, seed=2, dtype=float, tol=0.2)
    call("maxatt", samp.poisson, (50, 50), 5, seed=4, max_attempts=5, tol=0.3)
    call("maxattf", samp.poisson, (50, 50), 5, seed=4, max_attempts=12.0, tol=0.3)
    call("retdens", samp.poisson, (32, 32), 2, return_density=True, seed=1, tol=0.2)
    # repeated calls / seed=None directly after a seeded call (numba state is
    # then deterministic)
    a = call("rep1", samp.poisson, (64, 64), 4, seed=7, dtype=float)
    b = call("rep2", samp.poisson, (64, 64), 4, seed=7, dtype=float)
    put("same", bool(np.array_equal(a, b)), a is b)
    call("seednone", samp.poisson, (40, 40), 2, seed=None, dtype=float, tol=0.5)
    # invalid inputs
    call("bad_accel1", samp.poisson, (32, 32), 1)
    call("bad_accel0", samp.poisson, (32, 32), 0.5, seed=None)
    call("bad_shape3", samp.poisson, (8, 32, 32), 3)
    call("bad_shape1", samp.poisson, (32,), 3)
    call("bad_calib", samp.poisson, (32, 32), 3, calib=())
    call("bad_calib1", samp.poisson, (32, 32), 3, calib=(4,), seed=3, dtype=float, tol=0.3)
    call("bad_dtype", samp.poisson, (32, 32), 3, dtype="nope", tol=0.3)
    call("bad_seed", samp.poisson, (32, 32), 3, seed="x")
    call("bad_gen", samp.poisson, (i for i in (32, 32)), 3)
    call("bad_none", samp.poisson, None, 3)
    call("bad_accel_str", samp.poisson, (32, 32), "3")
    call("unreach", samp.poisson, (16, 16), 12, calib=(12, 12), seed=0, tol=0.1)
    # the kernel itself
    rx = np.full((24, 30), 1.5)
    ry = np.full((24, 30), 2.0)
    call("kern1", samp._poisson, 30, 24, 30, rx, ry, (4, 6), 3)
    call("kern2", samp._poisson, 30, 24, 10, rx, ry, (0, 0), 0)
    call("kern3", samp._poisson, 30, 24, 10, rx, ry, (5, 5), None)
    call("kern_kw", samp._poisson, 30, 24, 10, rx, ry, (5, 5), seed=np.int64(4))
    put(type(samp._poisson).__name__, samp._poisson.__name__, samp._poisson.py_func.__name__)
    put(sorted(samp.__all__), mr.poisson is samp.poisson, samp.poisson.__name__, samp.poisson.__module__)
    import inspect

    put(str(inspect.signature(samp.poisson)), str(inspect.signature(samp._poisson.py_func)))
    # other public functions of the module
    call("radial2", samp.radial, (5, 8, 2), (16, 16))
    call("radial2n", samp.radial, (5, 8, 2), (16, 16), golden=False, dtype=np.float32)
    call("radial3", samp.radial, (4, 6, 3), (8, 8, 8))
    call("radial_bad", samp.radial, (4, 6, 3), (8, 8))
    call("spiral", samp.spiral, 0.24, 64, 1, 1, 4, 1.5, 0.03, 150)
    print(H.hexdigest())


if __name__ == "__main__":
    main()
