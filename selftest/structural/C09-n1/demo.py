"""C09 / n1 equivalence demo: array_to_blocks / blocks_to_array (+ linops).

Prints one SHA256 digest over values (10 significant digits), dtypes, shapes,
exception types for invalid inputs and the state of the caller's arrays after
each call. The digest must be identical on the pristine and refactored tree.
"""
import hashlib
import itertools
import pickle

import numpy as np

import sigpy as sp
from sigpy import block, linop

H = hashlib.sha256()


def put(*items):
    for it in items:
        H.update(repr(it).encode())
        H.update(b"|")


def canon(a):
    a = np.asarray(a)
    put("arr", str(a.dtype), a.shape)
    flat = a.ravel()
    if np.issubdtype(a.dtype, np.complexfloating):
        for v in flat:
            put("%.9e" % v.real, "%.9e" % v.imag)
    elif np.issubdtype(a.dtype, np.floating):
        for v in flat:
            put("%.9e" % v)
    else:
        for v in flat:
            put(str(v))


def make(shape, dtype, seed):
    rng = np.random.RandomState(seed)
    n = int(np.prod(shape)) if len(shape) else 1
    if np.issubdtype(dtype, np.complexfloating):
        x = rng.randn(n) + 1j * rng.randn(n)
    elif np.issubdtype(dtype, np.floating):
        x = rng.randn(n)
    elif dtype == np.bool_:
        x = rng.rand(n) > 0.5
    else:
        x = rng.randint(-50, 50, size=n)
    return x.astype(dtype).reshape(shape)


def call(tag, f, *args, inputs=()):
    put(tag)
    try:
        out = f(*args)
    except Exception as e:  # noqa
        put("EXC", type(e).__name__)
        out = None
    else:
        canon(out)
    for a in inputs:
        canon(a)
    return out


dtypes = [
    np.float32,
    np.float64,
    np.complex64,
    np.complex128,
    np.int32,
    np.int64,
    np.bool_,
]

# (batch_shape, spatial shape, blk_shape, blk_strides)
configs = [
    ((), (6,), [2], [2]),
    ((), (7,), [3], [2]),
    ((), (9,), [2], [4]),  # gapped, non dividing
    ((), (5,), [5], [1]),
    ((), (5,), [1], [1]),
    ((2,), (8,), (3,), (3,)),
    ((2, 3), (7,), [4], [1]),
    ((), (5, 6), [2, 3], [2, 3]),
    ((), (5, 6), [3, 2], [1, 2]),
    ((), (7, 4), [2, 2], [3, 1]),
    ((3,), (6, 5), (4, 2), (2, 3)),
    ((1, 2), (4, 4), [4, 4], [4, 4]),
    ((), (4, 5, 6), [2, 2, 2], [2, 2, 2]),
    ((), (5, 4, 6), [3, 2, 4], [1, 2, 2]),
    ((2,), (5, 5, 5), [2, 3, 1], [3, 1, 2]),
    ((), (3, 7, 4), np.array([1, 3, 2]), np.array([2, 2, 3])),
    ((), (3, 3), [5, 2], [7, 1]),  # block larger than array, 0 blocks
]

seed = 0
for (bshape, sshape, B, S), dtype in itertools.product(configs, dtypes):
    seed += 1
    ishape = tuple(bshape) + tuple(sshape)
    x = make(ishape, dtype, seed)
    x0 = x
    y = call(("a2b", ishape, list(B), list(S)), block.array_to_blocks, x, B, S,
             inputs=(x,))
    # repeated call gives the same
    call("a2b-again", block.array_to_blocks, x, B, S, inputs=(x,))
    assert x is x0
    if y is not None:
        w = make(y.shape, dtype, seed + 1000)
        call(("b2a", ishape), block.blocks_to_array, w, ishape, B, S,
             inputs=(w,))
        call(("b2a-list-oshape", ishape), block.blocks_to_array, w,
             list(ishape), B, S, inputs=(w,))
        call("b2a-again", sp.blocks_to_array, w, ishape, B, S, inputs=(w,))

# non-contiguous / Fortran-ordered / sliced inputs
for dtype in [np.float64, np.complex64]:
    x = make((6, 7), dtype, 77)
    call("a2b-T", block.array_to_blocks, x.T, [3, 2], [2, 2], inputs=(x,))
    call("a2b-F", block.array_to_blocks, np.asfortranarray(x), [2, 3], [1, 3],
         inputs=(x,))
    call("a2b-slice", block.array_to_blocks, x[::2, 1::2], [2, 2], [1, 1],
         inputs=(x,))
    y = block.array_to_blocks(x, [3, 2], [2, 2])
    call("b2a-F", block.blocks_to_array, np.asfortranarray(y), [6, 7], [3, 2],
         [2, 2], inputs=(y,))
    call("b2a-bigger-oshape", block.blocks_to_array, y, [9, 9], [3, 2],
         [2, 2], inputs=(y,))
    call("b2a-batch-from-oshape", block.blocks_to_array,
         np.stack([y, 2 * y]), [2, 6, 7], [3, 2], [2, 2], inputs=(y,))

# linops (forward, adjoint, normal, composition, pickling)
for (bshape, sshape, B, S) in configs:
    ishape = list(bshape) + list(sshape)
    for dtype in [np.float32, np.complex128]:
        seed += 1
        x = make(ishape, dtype, seed)
        try:
            A = linop.ArrayToBlocks(ishape, B, S)
        except Exception as e:  # noqa
            put("A2B-init-EXC", type(e).__name__)
            continue
        put("A2B", A.ishape, A.oshape, repr(A), repr(A.H), repr(A.N))
        y = call("A2B-apply", A, x, inputs=(x,))
        call("A2B-H", A.H, y, inputs=(y,))
        call("A2B-N", A.N, x, inputs=(x,))
        call("A2B-HH", A.H.H, x, inputs=(x,))
        A2 = pickle.loads(pickle.dumps(A))
        call("A2B-pickled", A2, x, inputs=(x,))
        Bop = linop.BlocksToArray(ishape, B, S)
        put("B2A", Bop.ishape, Bop.oshape, repr(Bop), repr(Bop.H))
        call("B2A-apply", Bop, y, inputs=(y,))
        call("B2A-wrong-shape", Bop, x[..., :1], inputs=(x,))

# invalid inputs
x = make((4, 5, 6, 3), np.float64, 5)
bad = [
    ("len-mismatch", (x, [2, 2], [2])),
    ("ndim4", (x, [1, 1, 1, 1], [1, 1, 1, 1])),
    ("ndim0", (x, [], [])),
    ("ndim5-on-4d", (x, [1] * 5, [1] * 5)),
    ("zero-stride", (x, [2], [0])),
    ("neg-num-blks", (x, [9], [1])),
    ("float-blk", (x, [2.0], [1])),
    ("float-stride", (x, [2], [1.5])),
    ("None-blk", (x, None, [1])),
    ("not-array", ([1, 2, 3, 4], [2], [2])),
    ("scalar-blk", (x, 2, 2)),
    ("0d-input", (np.float64(3.0), [1], [1])),
]
for tag, args in bad:
    call(("bad-a2b", tag), block.array_to_blocks, *args, inputs=(x,))

y = make((2, 3, 2), np.complex128, 6)
bad = [
    ("len-mismatch", (y, [2, 6], [2], [2, 2])),
    ("ndim4", (make((1,) * 8, np.float64, 1), [1] * 4, [1] * 4, [1] * 4)),
    ("ndim0", (y, [2, 3, 2], [], [])),
    ("zero-stride", (y, [2, 6], [2], [0])),
    ("oshape-too-small", (y, [2, 3], [2], [2])),
    ("oshape-batch-mismatch", (y, [3, 6], [2], [2])),
    ("oshape-None", (y, None, [2], [2])),
    ("not-array", ([[1, 2]], [2], [2], [2])),
]
for tag, args in bad:
    call(("bad-b2a", tag), block.blocks_to_array, *args, inputs=(y,))

print(H.hexdigest())
