"""Equivalence demo for the C08 structural refactors (n1 / n2).

Exercises sigpy.conv (convolve, both adjoints, _get_convolve_params) and the
four Convolve* linops on a spread of shapes / modes / strides / dtypes, valid
and invalid, and prints one SHA256 digest of everything observable: values
(10 significant digits), dtypes, shapes, exception types + messages, operator
shapes / reprs, and the caller's arrays after each call.
"""
import hashlib
import itertools
import pickle
import warnings

import numpy as np

import sigpy as sp
from sigpy import conv, linop

warnings.simplefilter("ignore")

H = hashlib.sha256()
N_ITEMS = [0]


def put(*items):
    for it in items:
        H.update(repr(it).encode())
        H.update(b"|")
        N_ITEMS[0] += 1


def fmt(x):
    x = np.asarray(x)
    if x.dtype.kind == "c":
        flat = np.stack([x.real.ravel(), x.imag.ravel()], -1).ravel()
    else:
        flat = x.ravel()
    return ",".join(
        np.format_float_scientific(float(v) + 0.0, precision=9, unique=False)
        for v in flat
    )


def put_arr(tag, x):
    if isinstance(x, np.ndarray):
        put(tag, "ndarray", x.dtype.str, x.shape, x.flags.c_contiguous, fmt(x))
    else:
        put(tag, type(x).__name__, repr(x))


def attempt(tag, fn, *inputs):
    """Run fn, record result or exception, and the inputs afterwards."""
    try:
        out = fn()
    except Exception as e:  # noqa
        chain = []
        while e is not None:
            chain.append((type(e).__name__, str(e)))
            e = e.__cause__
        put(tag, "EXC", chain)
        out = None
    else:
        if isinstance(out, tuple):
            put(tag, "tuple", [(type(o).__name__, repr(o)) for o in out])
        else:
            put_arr(tag, out)
    for k, a in enumerate(inputs):
        put_arr(tag + "/in%d" % k, a)
    return out


def rnd(rng, shape, dtype):
    x = rng.standard_normal(shape)
    if np.dtype(dtype).kind == "c":
        x = x + 1j * rng.standard_normal(shape)
    return x.astype(dtype)


def main():
    rng = np.random.RandomState(2024)
    dtypes = [np.float32, np.float64, np.complex64, np.complex128]

    # ---- shape bookkeeping, valid and invalid --------------------------
    param_cases = [
        ((5,), (3,), "full", None, False),
        ((5,), (3,), "valid", (2,), False),
        ((3,), (5,), "valid", None, False),
        ((3,), (5,), "full", [3], False),
        ((4, 5), (5, 4), "valid", None, False),
        ((5, 4), (4, 5), "valid", None, False),
        ((2, 3, 4, 5), (2, 3), "full", (2, 3), False),
        ((2, 3, 4, 5), (6, 3, 2, 3), "valid", (1, 2), True),
        ((2, 3, 4, 5), (6, 2, 2, 3), "valid", None, True),
        ((4, 5), (2, 3), "same", None, False),
        ((4, 5), (2, 3), "full", (1,), False),
        ((4, 5), (2, 3), "full", (1, 1, 1), False),
        ((4, 5), (2, 3), "full", 2, False),
        ((5,), (1, 1, 3), "full", None, True),
        ([4, 5], [2, 3], "valid", [2, 2], False),
        (np.array([4, 5]), np.array([2, 3]), "full", np.array([2, 1]), False),
        ((7, 6, 5), (3, 2, 1), "full", (2, 2, 2), False),
        ((7, 6, 5), (3, 2, 1), "valid", (3, 1, 2), False),
        ((1, 7, 6, 5), (2, 1, 3, 2, 1), "valid", (3, 1, 2), 1),
        ((4, 5), (2, 3), "VALID", None, False),
        ((4, 5), (2, 3), None, None, False),
        ((2, 4, 5), (3, 3, 2, 3), "nope", (1,), True),
    ]
    for k, (ds, fs, mode, st, mc) in enumerate(param_cases):
        for rep in range(2):
            attempt("params%d.%d" % (k, rep),
                    lambda: conv._get_convolve_params(ds, fs, mode, st, mc))

    # ---- functions -----------------------------------------------------
    shape_cases = [
        # data shape, filt shape, multi_channel
        ((6,), (3,), False),
        ((3,), (3,), False),
        ((2, 5), (2,), False),
        ((5, 4), (2, 3), False),
        ((2, 1, 5, 4), (3, 2), False),
        ((3, 5, 4), (2, 3, 2, 2), True),
        ((2, 2, 5, 4), (1, 2, 3, 1), True),
        ((2, 4, 3, 4), (2, 2, 2, 2, 2), True),
        ((3, 3), (4, 4), False),  # filter longer than data
        ((4, 3), (3, 4), False),  # mixed
        ((2, 5), (3, 3, 2), True),  # channel mismatch
    ]
    stride_cases = {1: [None, (2,), (3,)], 2: [None, (2, 1), (2, 3), [1, 2]],
                    3: [None, (2, 1, 2)]}
    for ci, (dshape, fshape, mc) in enumerate(shape_cases):
        D = len(fshape) - 2 * mc
        for mode, strides, dtype in itertools.product(
            ["full", "valid"], stride_cases[D], dtypes
        ):
            tag = "f%d/%s/%s/%s" % (ci, mode, strides, np.dtype(dtype).name)
            data = rnd(rng, dshape, dtype)
            filt = rnd(rng, fshape, dtype)
            out = attempt(
                tag + "/conv",
                lambda: sp.convolve(data, filt, mode=mode, strides=strides,
                                    multi_channel=mc),
                data, filt)
            if out is None:
                # still poke the adjoints with some array
                y = rnd(rng, (2, 2), dtype)
            else:
                y = rnd(rng, out.shape, dtype)
            for rep in range(2):
                attempt(
                    tag + "/dadj%d" % rep,
                    lambda: sp.convolve_data_adjoint(
                        y, filt, list(dshape), mode=mode, strides=strides,
                        multi_channel=mc),
                    y, filt)
                attempt(
                    tag + "/fadj%d" % rep,
                    lambda: sp.convolve_filter_adjoint(
                        y, data, list(fshape), mode=mode, strides=strides,
                        multi_channel=mc),
                    y, data)

    # mixed dtypes and odd inputs
    data = rnd(rng, (2, 5, 4), np.complex128)
    filt32 = rnd(rng, (2, 2), np.float32)
    attempt("mix/cplx-data-real-filt",
            lambda: sp.convolve(data, filt32, mode="valid", strides=(2, 1)),
            data, filt32)
    rdata = rnd(rng, (5, 4), np.float64)
    cfilt = rnd(rng, (2, 2), np.complex64)
    attempt("mix/real-data-cplx-filt", lambda: sp.convolve(rdata, cfilt),
            rdata, cfilt)
    attempt("mix/int", lambda: sp.convolve(np.arange(12).reshape(3, 4),
                                           np.arange(4).reshape(2, 2)))
    nc = np.asfortranarray(rnd(rng, (5, 4), np.float64))[::2]
    attempt("mix/noncontig", lambda: sp.convolve(nc, rdata[:2, :2]), nc)
    attempt("mix/badmode", lambda: sp.convolve(rdata, rdata[:2, :2], mode="same"))
    attempt("mix/badmode-adj", lambda: sp.convolve_data_adjoint(
        rdata, rdata[:2, :2], (6, 5), mode="circ"))
    attempt("mix/badstride", lambda: sp.convolve(rdata, rdata[:2, :2],
                                                 strides=(2,)))
    attempt("mix/badshape-adj", lambda: sp.convolve_data_adjoint(
        rdata, rdata[:2, :2], (9, 9)))
    attempt("mix/badshape-fadj", lambda: sp.convolve_filter_adjoint(
        rdata, rdata, (9, 9), mode="valid"))

    # ---- linops --------------------------------------------------------
    lin_cases = [
        ([5, 4], [2, 3], False, None),
        ([2, 5, 4], [2, 3], False, (2, 2)),
        ([3, 5, 4], [2, 3, 2, 3], True, None),
        ([2, 3, 5, 4], [2, 3, 2, 3], True, [2, 1]),
        ((7,), (3,), False, (2,)),
        ((3, 3), (4, 4), False, None),   # invalid in valid mode
        ((4, 3), (3, 4), False, None),   # mixed
        ((2, 5), (3, 3, 2), True, None),  # channel mismatch
        ((5, 4), (2, 3), False, (1, 2, 3)),  # bad strides
    ]
    for li, (dshape, fshape, mc, strides) in enumerate(lin_cases):
        for mode, dtype in itertools.product(["full", "valid", "same"],
                                             [np.float32, np.complex128]):
            tag = "L%d/%s/%s" % (li, mode, np.dtype(dtype).name)
            data = rnd(rng, tuple(dshape), dtype)
            filt = rnd(rng, tuple(fshape), dtype)
            makers = [
                ("CD", lambda: linop.ConvolveData(
                    dshape, filt, mode=mode, strides=strides,
                    multi_channel=mc)),
                ("CDA", lambda: linop.ConvolveDataAdjoint(
                    dshape, filt, mode=mode, strides=strides,
                    multi_channel=mc)),
                ("CF", lambda: linop.ConvolveFilter(
                    fshape, data, mode=mode, strides=strides,
                    multi_channel=mc)),
                ("CFA", lambda: linop.ConvolveFilterAdjoint(
                    fshape, data, mode=mode, strides=strides,
                    multi_channel=mc)),
            ]
            for name, mk in makers:
                try:
                    A = mk()
                except Exception as e:  # noqa
                    put(tag, name, "EXC", type(e).__name__, str(e))
                    continue
                put(tag, name, repr(A), A.oshape, A.ishape,
                    type(A.oshape).__name__, sorted(vars(A).keys()),
                    A.mode, A.strides, A.multi_channel,
                    isinstance(A, linop.Linop), type(A).__name__)
                put(tag, name, "H", repr(A.H), type(A.H).__name__,
                    repr(A.H.H), type(A.H.H).__name__, repr(A.N),
                    A.H is A.H)
                put(tag, name, "pickle",
                    repr(pickle.loads(pickle.dumps(A))))
                x = rnd(rng, tuple(A.ishape), dtype)
                y = rnd(rng, tuple(A.oshape), dtype)
                for rep in range(2):
                    attempt(tag + name + "/A%d" % rep, lambda: A(x), x, filt, data)
                    attempt(tag + name + "/AH%d" % rep, lambda: A.H(y), y, filt,
                            data)
                attempt(tag + name + "/AHH", lambda: A.H.H(x), x)
                attempt(tag + name + "/N", lambda: A.N(x), x)
                attempt(tag + name + "/bad", lambda: A(y[..., :-1]))
                attempt(tag + name + "/scaled", lambda: (2j * A - A)(x), x)

    print("items hashed:", N_ITEMS[0])
    print("DIGEST", H.hexdigest())


if __name__ == "__main__":
    main()
