"""Equivalence demo (C11 structural refactors n1 / n2).

Exercises sigpy.thresh and sigpy.prox on a spread of inputs and prints a
SHA256 digest over: results rounded to 10 significant digits, their dtypes and
shapes, exception types (and the type of the chained cause) for invalid
inputs, and a digest of the caller's input arrays after each call.
The digest must be identical on the pristine and on the refactored tree.
"""
import hashlib
import warnings

import numpy as np

import sigpy as sp
from sigpy import linop, prox, thresh

warnings.simplefilter("ignore")
H = hashlib.sha256()
NREC = [0]


def _fmt(v):
    return np.format_float_scientific(float(v), precision=9, unique=False)


def put(tag, obj):
    NREC[0] += 1
    H.update(("|%s:" % tag).encode())
    if isinstance(obj, np.ndarray) or isinstance(obj, np.generic):
        a = np.asarray(obj)
        H.update(("%s%s" % (a.dtype.str, a.shape)).encode())
        flat = a.ravel()
        if np.iscomplexobj(flat):
            parts = [_fmt(c.real) + "," + _fmt(c.imag) for c in flat]
        elif flat.dtype == bool or flat.dtype.kind not in "iuf":
            parts = [repr(c) for c in flat.tolist()]
        else:
            parts = [_fmt(c) for c in flat]
        H.update(";".join(parts).encode())
    else:
        H.update(repr(obj).encode())


def call(tag, f, *args):
    """Run f(*args); record result or exception, then the args afterwards."""
    try:
        out = f(*args)
        put(tag, out if isinstance(out, (np.ndarray, np.generic))
            else type(out).__name__ + repr(out))
    except Exception as e:  # noqa
        put(tag + "!exc", type(e).__name__ + "<-"
            + type(e.__cause__).__name__)
        out = None
    for k, a in enumerate(args):
        if isinstance(a, np.ndarray):
            put(tag + "@arg%d" % k, a)
    return out


rng = np.random.RandomState(20240611)


def rnd(shape, dtype):
    x = rng.randn(*shape)
    if np.issubdtype(dtype, np.complexfloating):
        x = x + 1j * rng.randn(*shape)
    if np.issubdtype(dtype, np.integer):
        x = np.round(3 * x)
    return x.astype(dtype)


DTYPES = [np.float32, np.float64, np.complex64, np.complex128, np.int64,
          np.int32]
SHAPES = [[1], [5], [6], [3, 4], [2, 3, 2], [4, 1]]

# ------------------------------------------------------------ thresh functions
for dt in DTYPES:
    for sh in SHAPES:
        x = rnd(sh, dt)
        x.ravel()[0] = 0  # exact zero
        if x.size > 2:
            x.ravel()[1] = 1  # exactly on the threshold lamda=1
        for lam in [0, 0.5, 1, 1.0, 2.5, np.float32(0.75), np.float64(1e3),
                    -0.5, np.abs(rnd(sh, np.float64)),
                    np.abs(rnd(sh[-1:], np.float32))]:
            tg = "%s%s" % (np.dtype(dt).str, sh)
            call("soft" + tg, thresh.soft_thresh, lam, x)
            call("hard" + tg, thresh.hard_thresh, lam, x)
            call("soft2" + tg, sp.soft_thresh, lam, x)  # repeated call
        for eps in [0.1, 1, 1.0, 7.5, 1e6, float(np.abs(x).sum()),
                    float(np.abs(x).max())]:
            tg = "%s%s" % (np.dtype(dt).str, sh)
            call("l1p" + tg, thresh.l1_proj, eps, x)
            call("linf" + tg, thresh.linf_proj, eps, x)
            call("linfb" + tg, thresh.linf_proj, eps, x, rnd(sh, dt))
            call("linfb0" + tg, thresh.linf_proj, eps, x, 0.25)
            call("l2p" + tg, thresh.l2_proj, eps, x)
            call("l2pa" + tg, thresh.l2_proj, eps, x, (-1,))
            call("l2pa0" + tg, thresh.l2_proj, eps, x, [0])
            call("l2pbad" + tg, thresh.l2_proj, eps, x, 0)
        call("l1p0", thresh.l1_proj, 0, x)
        call("l1pneg", thresh.l1_proj, -1.0, x)

# non-contiguous / list / scalar / invalid inputs
base = rnd([6, 8], np.complex128)
for v in [base[::2, ::3], base.T, base[::-1], base.real[:, 1]]:
    for lam in [0.3, np.abs(v)]:
        call("softnc", thresh.soft_thresh, lam, v)
        call("hardnc", thresh.hard_thresh, lam, v)
    call("l1nc", thresh.l1_proj, 1.5, v)
    call("linfnc", thresh.linf_proj, 0.4, v)
    call("l2nc", thresh.l2_proj, 0.4, v, (-1,))
for bad in [[-2, -1, 0, 1, 2], (1.5, -0.2), 3.0, -2, 1 + 2j, None, "abc",
            np.array(2.5), np.array([]), np.array(["a", "b"]),
            np.array([True, False]), [[1, 2], [3]]]:
    call("softbad", thresh.soft_thresh, 1, bad)
    call("hardbad", thresh.hard_thresh, 1, bad)
    call("linfbad", thresh.linf_proj, 1, bad)
    call("l1bad", thresh.l1_proj, 1, bad)
    call("l2bad", thresh.l2_proj, 1, bad)
for badlam in [None, "x", [1, 2], np.ones(3), 1j, np.ones([2, 2])]:
    x = rnd([5], np.float64)
    call("softbadlam", thresh.soft_thresh, badlam, x)
    call("hardbadlam", thresh.hard_thresh, badlam, x)
call("softkw", lambda x: thresh.soft_thresh(lamda=0.5, input=x),
     rnd([4], np.float64))
call("hardkw", lambda x: thresh.hard_thresh(lamda=0.5, input=x),
     rnd([4], np.float64))
call("softpos3", lambda x: thresh.soft_thresh(0.5, x, x), rnd([4], np.float64))

# psd
for dt in [np.float64, np.complex128, np.float32, np.int64]:
    for n in [1, 2, 3, 5]:
        a = rnd([n, n], dt)
        call("psd", thresh.psd_proj, a)
        call("psdsym", thresh.psd_proj, a + a.conj().T)
        call("psdfeas", thresh.psd_proj, a @ a.conj().T)
    call("psdI", thresh.psd_proj, -np.eye(3).astype(dt))
call("psdbad", thresh.psd_proj, rnd([2, 3], np.float64))
call("psdbad1", thresh.psd_proj, rnd([4], np.float64))

# ------------------------------------------------------------------ Prox layer
ALPHAS = [0.1, 1, 1.0, 2.5, np.float32(0.5), None]


def all_proxs(sh, dt):
    z = rnd(sh, dt)
    b = rnd(sh, dt)
    lo = -np.abs(rnd(sh, np.float64))
    hi = np.abs(rnd(sh, np.float64))
    ps = [
        ("NoOp", prox.NoOp(sh)),
        ("L1Reg", prox.L1Reg(sh, 0.7)),
        ("L1Reg0", prox.L1Reg(sh, 0)),
        ("L1RegW", prox.L1Reg(sh, np.abs(rnd(sh, np.float64)))),
        ("L1Proj", prox.L1Proj(sh, 1.3)),
        ("L1ProjBig", prox.L1Proj(sh, 1e4)),
        ("L2Reg", prox.L2Reg(sh, 0.9)),
        ("L2Regy", prox.L2Reg(sh, 0.9, y=z)),
        ("L2Regs", prox.L2Reg(sh, 0.9, y=0.5)),
        ("L2Regh", prox.L2Reg(sh, 0.9, y=z, proxh=prox.L1Reg(sh, 0.2))),
        ("L2Reghh", prox.L2Reg(sh, 0, proxh=prox.L2Proj(sh, 1.0))),
        ("L2Proj", prox.L2Proj(sh, 1.1)),
        ("L2Projy", prox.L2Proj(sh, 1.1, y=z)),
        ("L2Projax", prox.L2Proj(sh, 0.8, axes=(-1,))),
        ("L2Projax0", prox.L2Proj(sh, 0.8, y=z, axes=[0])),
        ("LInf", prox.LInfProj(sh, 0.6)),
        ("LInfb", prox.LInfProj(sh, 0.6, bias=b)),
        ("LInfbs", prox.LInfProj(sh, 0.6, bias=0.3, axes=(0,))),
        ("Box", prox.BoxConstraint(sh, -0.5, 0.75)),
        ("Boxa", prox.BoxConstraint(sh, lo, hi)),
        ("Box0", prox.BoxConstraint(sh, 0, np.inf)),
    ]
    out = list(ps)
    for name, p in ps:
        out.append(("Conj" + name, prox.Conj(p)))
    out.append(("ConjConj", prox.Conj(prox.Conj(prox.L1Reg(sh, 0.7)))))
    F = linop.FFT(sh)
    out.append(("UTfft", prox.UnitaryTransform(prox.L1Reg(sh, 0.4), F)))
    out.append(("UTfftProj", prox.UnitaryTransform(prox.L1Proj(sh, 0.9), F)))
    out.append(("UTid", prox.UnitaryTransform(prox.LInfProj(sh, 0.4),
                                              linop.Identity(sh))))
    if len(sh) > 1:
        T = linop.Transpose(sh)
        out.append(("UTtr", prox.UnitaryTransform(
            prox.L2Proj(T.oshape, 0.7, axes=(-1,)), T)))
        out.append(("UTtrl1", prox.UnitaryTransform(
            prox.L1Proj(T.oshape, 0.7), T)))
    return out


for dt in [np.float64, np.complex128, np.float32, np.complex64, np.int64]:
    for sh in SHAPES:
        ps = all_proxs(sh, dt)
        for name, p in ps:
            put("repr", repr(p))
            put("shape", p.shape)
            y = rnd(sh, dt)
            y.ravel()[0] = 0
            for al in ALPHAS:
                tg = "%s%s%s" % (name, np.dtype(dt).str, sh)
                o = call(tg, p, al, y)
                if o is not None:
                    call(tg + "idem", p, al, o)
            # repeated call, array-valued step
            call(name + "arr", p, np.full(sh, 0.5), y)
            call(name + "again", p, 0.3, y)
            # invalid inputs
            call(name + "badshape", p, 1.0, rnd([7], dt))
            call(name + "badshape2", p, 1.0, rnd([s + 1 for s in sh], dt))
            call(name + "badlist", p, 1.0, y.tolist())
            call(name + "badnone", p, 1.0, None)
            call(name + "badalpha", p, "a", y)
            call(name + "zeroalpha", p, 0, y)

# Stack nestings
for dt in [np.float64, np.complex128, np.float32]:
    shs = [[4], [2, 3], [3, 3], [1]]
    blocks = [
        prox.L1Reg(shs[0], 0.5),
        prox.Conj(prox.L2Proj(shs[1], 0.8, axes=(-1,))),
        prox.PsdProj(shs[2]),
        prox.L2Reg(shs[3], 2.0, y=0.1, proxh=prox.BoxConstraint(shs[3], 0, 1)),
    ]
    S = prox.Stack(blocks)
    put("Srepr", repr(S))
    put("Sshapes", (S.shape, S.shapes, S.nops))
    n = int(S.shape[0])
    y = rnd([n], dt)
    for al in [0.2, 1.0, np.float32(2.0)]:
        call("Stack", S, al, y)
        call("ConjStack", prox.Conj(S), al, y)
        call("StackStack", prox.Stack([S, prox.Conj(S)]), al,
             np.concatenate([y, y[::-1]]))
    av = np.abs(rnd([n], np.float64)) + 0.1
    call("StackArr", S, av, y)
    call("StackArr2", S, av, y)
    call("ConjStackArr", prox.Conj(S), av, y)
    call("Stackbad", S, 1.0, rnd([n + 1], dt))
    call("Stackbad2", S, 1.0, rnd([n - 1], dt))
    call("Stackbadal", S, np.ones(n - 2), y)
    call("Stack2d", S, 1.0, rnd([n, 1], dt))
call("Stackempty", prox.Stack, [])

# PsdProj prox
for dt in [np.float64, np.complex128, np.int64]:
    for n in [1, 2, 4]:
        P = prox.PsdProj([n, n])
        a = rnd([n, n], dt)
        call("PsdP", P, None, a)
        call("PsdP1", P, 1.0, a + a.conj().T)
        call("PsdConj", prox.Conj(P), 0.7, a + a.conj().T)
    call("PsdPbad", prox.PsdProj([3, 3]), 1.0, rnd([3, 2], dt))
    call("PsdPbad2", prox.PsdProj([3]), 1.0, rnd([3], dt))

# wildcard shapes / constructor misuse
call("wild", prox.L1Reg([-1, 3], 0.5), 1.0, rnd([5, 3], np.float64))
call("wildbad", prox.L1Reg([-1, 3], 0.5), 1.0, rnd([5, 4], np.float64))
call("ctor1", lambda: prox.L1Reg(5, 0.5))
call("ctor2", lambda: prox.L2Proj([3], 1.0, 0.5, (0,), 1))
call("ctor3", lambda: prox.LInfProj([3]))
call("ctor4", lambda: prox.PsdProj([3, 3], "name").repr_str)
call("ctor5", lambda: prox.Prox([2], repr_str="x")(1.0, np.zeros(2)))
call("ctor6", lambda: sorted(
    k for k in vars(prox.L2Proj([3], 1.0, y=2)).keys()))
call("ctor7", lambda: sorted(
    k for k in vars(prox.LInfProj([3], 1.0)).keys()))
call("ctor8", lambda: sorted(k for k in vars(prox.L1Reg([3], 1.0)).keys()))
call("ctor9", lambda: sorted(k for k in vars(prox.L1Proj([3], 1.0)).keys()))
call("pub_thresh", lambda: sorted(thresh.__all__))
call("pub_sp", lambda: [hasattr(sp, k) for k in thresh.__all__])
call("subcls", lambda: [issubclass(getattr(prox, k), prox.Prox)
                        for k in ["L1Reg", "L1Proj", "L2Proj", "LInfProj",
                                  "PsdProj", "BoxConstraint", "Stack", "Conj",
                                  "UnitaryTransform", "L2Reg", "NoOp"]])

print("records:", NREC[0])
print("DIGEST", H.hexdigest())
