"""C09 / n2 equivalence demo: Downsample / Upsample / ArrayToBlocks /
BlocksToArray linops (constructor state, forward, adjoint, normal, pickling).

Prints one SHA256 digest over values (10 significant digits), dtypes, shapes,
instance state, exception types for invalid inputs and the state of the
caller's arrays / lists after each call. The digest must be identical on the
pristine and refactored tree.
"""
import hashlib
import pickle

import numpy as np

from sigpy import linop

H = hashlib.sha256()


def put(*items):
    for it in items:
        H.update(repr(it).encode())
        H.update(b"|")


def canon(a):
    a = np.asarray(a)
    put("arr", str(a.dtype), a.shape)
    flat = a.ravel()
    if np.issubdtype(a.dtype, np.complexfloating):
        for v in flat:
            put("%.9e" % v.real, "%.9e" % v.imag)
    elif np.issubdtype(a.dtype, np.floating):
        for v in flat:
            put("%.9e" % v)
    else:
        for v in flat:
            put(str(v))


def make(shape, dtype, seed):
    rng = np.random.RandomState(seed)
    n = int(np.prod(shape)) if len(shape) else 1
    if np.issubdtype(dtype, np.complexfloating):
        x = rng.randn(n) + 1j * rng.randn(n)
    elif np.issubdtype(dtype, np.floating):
        x = rng.randn(n)
    else:
        x = rng.randint(-50, 50, size=n)
    return x.astype(dtype).reshape(shape)


def call(tag, f, *args, inputs=()):
    put(tag)
    try:
        out = f(*args)
    except Exception as e:  # noqa
        put("EXC", type(e).__name__)
        cause = e.__cause__
        put("CAUSE", type(cause).__name__ if cause is not None else None)
        out = None
    else:
        if isinstance(out, linop.Linop):
            state(out)
        else:
            canon(out)
    for a in inputs:
        if isinstance(a, np.ndarray):
            canon(a)
        else:
            put("obj", type(a).__name__, a)
    return out


def state(A):
    """Everything observable about a linop instance."""
    put(type(A).__name__, isinstance(A, linop.Linop), repr(A))
    put(A.ishape, A.oshape, type(A.ishape).__name__, type(A.oshape).__name__)
    d = vars(A)
    put("keys", list(d.keys()))
    for k, v in d.items():
        if isinstance(v, linop.Linop):
            put(k, "linop", type(v).__name__)
        elif isinstance(v, np.ndarray):
            put(k)
            canon(v)
        else:
            put(k, type(v).__name__, v)


def exercise(tag, A, dtypes, seed):
    state(A)
    for dtype in dtypes:
        x = make(A.ishape, dtype, seed)
        y = call((tag, "apply"), A, x, inputs=(x,))
        call((tag, "apply-again"), A.apply, x, inputs=(x,))
        call((tag, "mul"), A.__mul__, x, inputs=(x,))
        w = make(A.oshape, dtype, seed + 1)
        call((tag, "H"), A.H, w, inputs=(w,))
        call((tag, "H.H"), A.H.H, x, inputs=(x,))
        call((tag, "N"), A.N, x, inputs=(x,))
        call((tag, "scaled"), 2j * A, x, inputs=(x,))
        call((tag, "sum"), A + A, x, inputs=(x,))
        call((tag, "pickled"), pickle.loads(pickle.dumps(A)), x, inputs=(x,))
        call((tag, "bad-ishape"), A, w.reshape(-1)[: max(w.size - 1, 1)],
             inputs=(w,))
        if y is not None and y.size:
            put("view", np.shares_memory(x, y))
    state(A)
    state(A.H)
    put("H-cached", A.H is A.H, A.N is A.N)


DT = [np.float32, np.float64, np.complex64, np.complex128, np.int64]
seed = 0

# ---------------------------------------------------------------- resampling
samp = [
    ([5], [2], None),
    ([5], [2], [1]),
    ([6], [3], [2]),
    ([7], [1], None),
    ([7], [4], [3]),
    ((4, 5), (2, 3), None),
    ((4, 5), [2, 3], (1, 2)),
    ([3, 6, 5], [1, 2, 2], [0, 1, 0]),
    ([3, 6, 5], [2, 2], None),  # fewer factors than dims
    ([6, 5], [2, 1], [4, 0]),  # shift >= factor
    ([6, 4], np.array([2, 2]), np.array([1, 0])),
    ([9], [2], [-1]),  # negative shift
    ([2, 2], [5, 5], None),  # factor larger than the array
]
for full, f, s in samp:
    for cls in [linop.Downsample, linop.Upsample]:
        seed += 1
        put(cls.__name__, full, f, s)
        f_in, s_in = f, s
        A = call("init", cls, full, f, s, inputs=(full, f, s))
        if A is None:
            continue
        put("alias", A.factors is f_in, s_in is None or A.shift is s_in)
        put("H-alias", A.H.factors is A.factors, A.H.shift is A.shift)
        exercise(cls.__name__, A, DT, seed)

# keyword / positional spellings
call("kw-down", lambda: linop.Downsample(ishape=[8], factors=[3], shift=[1]))
call("kw-up", lambda: linop.Upsample(oshape=[8], factors=[3], shift=[1]))
call("pos-down", lambda: linop.Downsample([8], [3], [1]))
call("pos-up", lambda: linop.Upsample([8], [3], [1]))

bad_samp = [
    ("none-factors", ([5], None, None)),
    ("int-shape", (5, [2], None)),
    ("int-factors", ([5], 2, None)),
    ("zero-factor", ([5], [0], None)),
    ("neg-factor", ([5], [-2], None)),
    ("big-shift", ([5], [2], [7])),
    ("empty", ([], [], None)),
    ("zero-dim", ([0], [2], None)),
    ("float-factor", ([5], [2.0], None)),
    ("str-shape", ("ab", [2, 2], None)),
    ("short-shift", ([4, 4], [2, 2], [1])),
]
for tag, args in bad_samp:
    for cls in [linop.Downsample, linop.Upsample]:
        A = call((cls.__name__, "bad", tag), cls, *args)
        if A is not None:
            try:
                x = make(A.ishape, np.float64, 3)
            except Exception as e:  # noqa
                put("make-EXC", type(e).__name__)
                continue
            call((cls.__name__, "bad-apply", tag), A, x, inputs=(x,))
for cls in [linop.Downsample, linop.Upsample]:
    call((cls.__name__, "no-args"), cls)
    call((cls.__name__, "too-many"), cls, [4], [2], [0], 1)
    call((cls.__name__, "old-kw"), lambda c=cls: c(shape=[4], factors=[2]))

# -------------------------------------------------------------------- blocks
blks = [
    ([6], [2], [2]),
    ([7], [3], [2]),
    ([9], [2], [4]),
    ((2, 8), (3,), (3,)),
    ([2, 3, 7], [4], [1]),
    ([5, 6], [2, 3], [2, 3]),
    ([5, 6], [3, 2], [1, 2]),
    ((3, 6, 5), (4, 2), (2, 3)),
    ([4, 5, 6], [2, 2, 2], [2, 2, 2]),
    ([2, 5, 5, 5], [2, 3, 1], [3, 1, 2]),
    ([3, 7, 4], np.array([1, 3, 2]), np.array([2, 2, 3])),
    ([5, 5, 5, 5], [2, 2, 2, 2], [2, 2, 2, 2]),  # D = 4: init ok, apply fails
]
for full, b, s in blks:
    for cls in [linop.ArrayToBlocks, linop.BlocksToArray]:
        seed += 1
        put(cls.__name__, full, b, s)
        A = call("init", cls, full, b, s, inputs=(full, b, s))
        if A is None:
            continue
        put("alias", A.blk_shape is b, A.blk_strides is s)
        put("H-alias", A.H.blk_shape is b, A.H.blk_strides is s)
        exercise(cls.__name__, A, DT[1:4], seed)

call("kw-a2b", lambda: linop.ArrayToBlocks(
    ishape=[8], blk_shape=[3], blk_strides=[2]))
call("kw-b2a", lambda: linop.BlocksToArray(
    oshape=[8], blk_shape=[3], blk_strides=[2]))

bad_blks = [
    ("blk-too-big", ([3, 3], [5, 2], [7, 1])),
    ("neg-num", ([3], [9], [1])),
    ("zero-stride", ([5], [2], [0])),
    ("len-mismatch", ([5, 5], [2, 2], [2])),
    ("none-blk", ([5], None, [1])),
    ("int-blk", ([5], 2, 2)),
    ("int-shape", (5, [2], [2])),
    ("empty-blk", ([5], [], [])),
    ("float-blk", ([5], [2.0], [1])),
    ("blk-longer-than-shape", ([5], [2, 2], [1, 1])),
]
for tag, args in bad_blks:
    for cls in [linop.ArrayToBlocks, linop.BlocksToArray]:
        A = call((cls.__name__, "bad", tag), cls, *args)
        if A is not None:
            try:
                x = make(A.ishape, np.float64, 3)
            except Exception as e:  # noqa
                put("make-EXC", type(e).__name__)
                continue
            call((cls.__name__, "bad-apply", tag), A, x, inputs=(x,))
for cls in [linop.ArrayToBlocks, linop.BlocksToArray]:
    call((cls.__name__, "no-args"), cls)
    call((cls.__name__, "too-many"), cls, [4], [2], [2], 1)

# compositions across the two families
A = linop.ArrayToBlocks([6, 8], [2, 4], [2, 2]) * linop.Upsample(
    [6, 8], [2, 2], shift=[1, 0]
)
state(A)
x = make(A.ishape, np.complex128, 99)
y = call("compose", A, x, inputs=(x,))
call("compose-H", A.H, y, inputs=(y,))
call("compose-N", A.N, x, inputs=(x,))

print(H.hexdigest())
