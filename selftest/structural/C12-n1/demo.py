"""Equivalence demo for structural refactors of sigpy.alg.ConjugateGradient.

Runs the solver on a spread of systems / options and prints a SHA256 digest of
everything observable: every iterate, residual vector, search direction,
scalars, flags, attribute names, aliasing relations, dtypes, shapes, exception
types for invalid inputs, and the caller's arrays after the call.
"""
import hashlib
import sys
import warnings

import numpy as np

import sigpy as sp
from sigpy import alg

H = hashlib.sha256()


def r10(a):
    a = np.asarray(a)
    if a.dtype.kind == "c":
        return r10(a.real) + "|" + r10(a.imag)
    if a.dtype.kind not in "fiub":
        return repr(a.tolist())
    out = []
    for v in a.astype(np.float64).ravel():
        out.append("%.9e" % v if np.isfinite(v) else repr(v))
    return ",".join(out)


def rec(*items):
    for it in items:
        if isinstance(it, np.ndarray):
            s = "arr[%s,%s,%s]" % (it.dtype, it.shape, r10(it))
        elif isinstance(it, (np.generic,)):
            s = "npscalar[%s,%s]" % (type(it).__name__, r10(it))
        elif isinstance(it, float):
            s = "float[%s]" % r10(it)
        else:
            s = "%s[%r]" % (type(it).__name__, it)
        H.update(s.encode())
        H.update(b";")


def hpd(rng, n, cplx, cond):
    M = rng.standard_normal((n, n))
    if cplx:
        M = M + 1j * rng.standard_normal((n, n))
    Q, _ = np.linalg.qr(M)
    A = (Q * np.geomspace(1.0, cond, n)) @ Q.conj().T
    return (A + A.conj().T) / 2


def snapshot(cg, tag):
    rec(tag, cg.iter, cg.max_iter, cg.not_positive_definite, cg.resid)
    rec(type(cg.resid).__name__, type(cg.rzold).__name__, cg.rzold)
    rec(cg.x, cg.r, cg.p)
    rec(cg.p is cg.r, np.shares_memory(cg.p, cg.r), cg.done())
    if hasattr(cg, "alpha"):
        rec(type(cg.alpha).__name__, cg.alpha)
    rec(sorted(vars(cg).keys()))
    rec(sorted(k for k in dir(type(cg)) if not k.startswith("_")))


def run(tag, Af, b, x, P=None, nsteps=None, **kw):
    b0 = b.copy()
    try:
        with warnings.catch_warnings():
            warnings.simplefilter("ignore")
            cg = alg.ConjugateGradient(Af, b, x, P=P, **kw)
            xid = cg.x is x
            snapshot(cg, tag + ":init")
            k = 0
            while not cg.done() and (nsteps is None or k < nsteps):
                cg.update()
                k += 1
                snapshot(cg, tag + ":k%d" % k)
            # extra updates past done() (legal to call, state must agree)
            if kw.get("max_iter", 100) <= 3:
                for j in range(2):
                    cg.update()
                    snapshot(cg, tag + ":extra%d" % j)
            rec(xid, cg.x is x, k)
    except Exception as e:  # noqa
        rec(tag, "EXC", type(e).__name__)
        c = e.__cause__
        rec(type(c).__name__ if c is not None else None)
    rec(x, b, bool(np.array_equal(b, b0)))


def main():
    rng = np.random.default_rng(77)
    for dt in (np.float32, np.float64, np.complex64, np.complex128):
        cplx = np.dtype(dt).kind == "c"
        for n in (1, 2, 5, 12):
            A = hpd(rng, n, cplx, 1e2).astype(dt)
            b = rng.standard_normal(n).astype(dt)
            x0 = rng.standard_normal(n).astype(dt)
            if cplx:
                b = b + dt(1j) * rng.standard_normal(n).astype(dt)
            d = np.real(np.diag(A)).astype(np.float64)
            Pm = hpd(rng, n, cplx, 5.0).astype(dt)
            for pname, P in (
                ("none", None),
                ("jacobi", lambda r, d=d: r / d),
                ("ident", lambda r: r),
                ("dense", lambda r, Pm=Pm: Pm @ r),
            ):
                for mi in (0, 1, 2, n, 40):
                    for tol in (0, 1e-3):
                        tag = "%s n%d P=%s mi%d tol%g" % (
                            np.dtype(dt).name, n, pname, mi, tol)
                        run(tag, lambda v, A=A: A @ v, b.copy(), x0.copy(),
                            P=P, max_iter=mi, tol=tol)
            # default arguments, zero initial guess, exact initial guess
            run("defaults", lambda v, A=A: A @ v, b.copy(), np.zeros(n, dt))
            xs = np.linalg.solve(A.astype(np.complex128 if cplx else float),
                                 b).astype(dt)
            run("exactx0", lambda v, A=A: A @ v, (A @ xs).copy(), xs.copy(),
                max_iter=3)
            # numpy-integer max_iter
            run("npint", lambda v, A=A: A @ v, b.copy(), x0.copy(),
                max_iter=np.int64(n))
            run("npint1", lambda v, A=A: A @ v, b.copy(), x0.copy(),
                max_iter=np.int32(1))

            # Linop A and Linop P on (n, 1) and multi-dim shapes
            Aop = sp.linop.MatMul([n, 1], A)
            Pop = sp.linop.MatMul([n, 1], Pm)
            run("linop", Aop, b.reshape(n, 1).copy(), x0.reshape(n, 1).copy(),
                max_iter=n)
            run("linopP", Aop, b.reshape(n, 1).copy(),
                x0.reshape(n, 1).copy(), P=Pop, max_iter=n + 1, tol=1e-4)
            run("linopI", Aop, b.reshape(n, 1).copy(),
                x0.reshape(n, 1).copy(), P=sp.linop.Identity([n, 1]),
                max_iter=1)
            w = (1 + np.arange(2 * n).reshape(2, n)).astype(dt)
            run("mult2d", sp.linop.Multiply([2, n], w),
                np.ones((2, n), dt), np.zeros((2, n), dt), max_iter=4)
            # non-contiguous caller array
            big = np.zeros(2 * n, dt)
            run("strided", lambda v, A=A: A @ v, b.copy(), big[::2],
                max_iter=n)
            rec(big)

            # indefinite / negative definite / singular -> breakdown guard
            ev = np.linspace(-1, 2, n) if n > 1 else np.array([-1.0])
            Q, _ = np.linalg.qr(A)
            Ai = ((Q * ev) @ Q.conj().T).astype(dt)
            Ai = ((Ai + Ai.conj().T) / 2).astype(dt)
            run("indef", lambda v, Ai=Ai: Ai @ v, b.copy(), x0.copy(),
                max_iter=n + 2)
            run("negdef", lambda v, A=A: -(A @ v), b.copy(), x0.copy(),
                max_iter=5)
            run("negdef1", lambda v, A=A: -(A @ v), b.copy(), x0.copy(),
                max_iter=1)
            run("zeroA", lambda v: 0 * v, b.copy(), x0.copy(), max_iter=5)
            run("indefP", lambda v, A=A: A @ v, b.copy(), x0.copy(),
                P=lambda r: -r, max_iter=3)

            # mixed dtypes
            run("b64", lambda v, A=A: A @ v, b.astype(
                np.complex128 if cplx else np.float64), x0.copy(), max_iter=n)
            if cplx:
                run("realx", lambda v, A=A: A @ v, b.copy(),
                    np.zeros(n, np.float64), max_iter=2)

            # invalid inputs
            run("badshape", lambda v, A=A: A @ v, b.copy(),
                np.zeros(n + 1, dt), max_iter=2)
            run("badlinop", sp.linop.MatMul([n + 1, 1], np.eye(n + 1, dtype=dt)),
                b.reshape(n, 1).copy(), x0.reshape(n, 1).copy(), max_iter=2)
            run("Anone", None, b.copy(), x0.copy(), max_iter=2)
            run("Pbad", lambda v, A=A: A @ v, b.copy(), x0.copy(), P=3,
                max_iter=2)
            run("Pshape", lambda v, A=A: A @ v, b.copy(), x0.copy(),
                P=lambda r: np.ones(n + 1, dt), max_iter=2)
            run("miNone", lambda v, A=A: A @ v, b.copy(), x0.copy(),
                max_iter=None)
            run("intx", lambda v, A=A: A @ v, b.copy(),
                np.zeros(n, np.int64), max_iter=2)

    # use through the App layer (repeated calls)
    for dt in (np.float64, np.complex64):
        M = rng.standard_normal((6, 4)).astype(dt)
        y = rng.standard_normal((6, 1)).astype(dt)
        for lam in (0.0, 0.3):
            for rep in range(2):
                app = sp.app.LinearLeastSquares(
                    sp.linop.MatMul([4, 1], M), y.copy(), lamda=lam,
                    solver="ConjugateGradient", max_iter=7, show_pbar=False)
                rec(app.run())
                rec(app.alg.resid, app.alg.iter, app.alg.r, app.alg.p)

    print(H.hexdigest())
    return 0


if __name__ == "__main__":
    sys.exit(main())
