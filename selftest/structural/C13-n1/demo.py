"""C13/n1 equivalence demo: exercises sigpy.alg.GradientMethod on a spread of
inputs and prints a SHA256 digest of everything observable (iterates after
every update, z, t, resid, iter, done(), dtypes, shapes, exception types,
caller's arrays after the calls)."""
import hashlib

import numpy as np

import sigpy as sp
from sigpy import alg

H = hashlib.sha256()


def fnum(v):
    v = float(v)
    if v != v:
        return "nan"
    if v in (float("inf"), float("-inf")):
        return repr(v)
    if v == 0:
        return "0"
    return "%.9e" % v


def feed(tag, obj):
    H.update(("|" + tag + ":").encode())
    if isinstance(obj, np.ndarray):
        H.update(("A%s%s%s[" % (obj.dtype.name, obj.shape,
                                obj.flags.c_contiguous)).encode())
        flat = np.asarray(obj).reshape(-1)
        if np.iscomplexobj(flat):
            for v in flat:
                H.update((fnum(v.real) + "," + fnum(v.imag) + ";").encode())
        else:
            for v in flat:
                H.update((fnum(v) + ";").encode())
        H.update(b"]")
    elif isinstance(obj, (bool, np.bool_)):
        H.update(("B%s%s" % (type(obj).__name__, bool(obj))).encode())
    elif isinstance(obj, (int, float, np.integer, np.floating)):
        H.update(("S%s=%s" % (type(obj).__name__, fnum(obj))).encode())
    elif isinstance(obj, complex):
        H.update(("C%s,%s" % (fnum(obj.real), fnum(obj.imag))).encode())
    elif obj is None:
        H.update(b"None")
    else:
        H.update(("O" + str(obj)).encode())


def state(tag, am):
    feed(tag + ".x", am.x)
    feed(tag + ".iter", am.iter)
    feed(tag + ".resid", am.resid)
    feed(tag + ".done", am.done())
    feed(tag + ".acc", am.accelerate)
    feed(tag + ".alpha", am.alpha)
    if hasattr(am, "z"):
        feed(tag + ".z", am.z)
    else:
        feed(tag + ".z", "absent")
    if hasattr(am, "t"):
        feed(tag + ".t", am.t)
        feed(tag + ".ttype", type(am.t).__name__)
    else:
        feed(tag + ".t", "absent")


def make_x(shape, dtype, layout):
    if layout == "c":
        return np.zeros(shape, dtype=dtype), None
    if layout == "f":
        o = np.zeros(shape, dtype=dtype, order="F")
        return o, o
    o = np.zeros(tuple(shape) + (2,), dtype=dtype)
    return o[..., 1], o


case = 0
for dtype in [np.float32, np.float64, np.complex64, np.complex128]:
    for shape in [(6,), (6, 1), (2, 3), (1,)]:
        for layout in ["c", "f", "col"]:
            for accelerate in [False, True, 1, np.True_]:
                for gname in ["none", "l1", "box", "func", "l2reg"]:
                    case += 1
                    if (case % 3) and dtype in (np.float32, np.complex64):
                        continue  # thin out a bit
                    rng = np.random.RandomState(case)
                    n = int(np.prod(shape))
                    m = n + 2
                    A = rng.randn(m, n)
                    if np.dtype(dtype).kind == "c":
                        A = A + 1j * rng.randn(m, n)
                    A = (A * np.logspace(0, -1.5, n)).astype(dtype)
                    b = rng.randn(m).astype(dtype)
                    L = float(np.linalg.norm(A.astype(np.complex128), 2) ** 2)
                    alpha = [1 / L, np.float64(0.7 / L),
                             np.float32(0.5 / L)][case % 3]
                    lam = 0.05
                    if gname == "none":
                        proxg = None
                    elif gname == "l1":
                        proxg = sp.prox.L1Reg(list(shape), lam)
                    elif gname == "box":
                        if np.dtype(dtype).kind == "c":
                            continue
                        proxg = sp.prox.BoxConstraint(list(shape), -0.2, 0.3)
                    elif gname == "l2reg":
                        proxg = sp.prox.L2Reg(list(shape), lam)
                    else:
                        def proxg(a, v):
                            return v / (1 + lam * a)

                    def gradf(v, A=A, b=b, shape=shape):
                        return (A.conj().T @ (A @ v.reshape(-1) - b)).reshape(
                            shape)

                    x, owner = make_x(shape, dtype, layout)
                    tol = [0, 1e-3, 5.0][case % 3] if case % 5 == 0 else 0
                    tag = "c%d" % case
                    try:
                        am = alg.GradientMethod(
                            gradf, x, alpha, proxg=proxg,
                            accelerate=accelerate, max_iter=7, tol=tol)
                        state(tag + ".init", am)
                        k = 0
                        while not am.done():
                            am.update()
                            k += 1
                            state(tag + ".u%d" % k, am)
                        # keep updating after done (allowed, just not advised)
                        am.update()
                        am.update()
                        state(tag + ".after", am)
                        feed(tag + ".same", am.x is x)
                    except Exception as e:  # noqa
                        feed(tag + ".exc", type(e).__name__)
                        c = e.__cause__
                        feed(tag + ".cause", type(c).__name__)
                    feed(tag + ".callerx", x)
                    if owner is not None:
                        feed(tag + ".owner", owner)

# keyword / positional forms and defaults
x = np.ones(4)
am = alg.GradientMethod(lambda v: v, x, 0.5)
state("defaults", am)
for i in range(3):
    am.update()
state("defaults3", am)
am = alg.GradientMethod(gradf=lambda v: 2 * v, x=x, alpha=0.25, proxg=None,
                        accelerate=True, max_iter=3, tol=0)
while not am.done():
    am.update()
state("kw", am)
feed("kw.x", x)

# invalid inputs
invalid = []


def bad_gradf(v):
    raise KeyError("boom")


invalid.append(("gradf_raises", dict(gradf=bad_gradf, x=np.zeros(3),
                                     alpha=0.1)))
invalid.append(("int_x", dict(gradf=lambda v: 0.5 * v, x=np.ones(3, dtype=int),
                              alpha=0.1)))
invalid.append(("prox_shape", dict(gradf=lambda v: v, x=np.ones(3), alpha=0.1,
                                   proxg=sp.prox.L1Reg([4], 0.1))))
invalid.append(("alpha0", dict(gradf=lambda v: v, x=np.ones(3), alpha=0)))
invalid.append(("alpha_none", dict(gradf=lambda v: v, x=np.ones(3),
                                   alpha=None)))
invalid.append(("complex_grad_real_x", dict(gradf=lambda v: 1j * v,
                                            x=np.ones(3), alpha=0.1)))
invalid.append(("grad_shape", dict(gradf=lambda v: np.ones(5), x=np.ones(3),
                                   alpha=0.1)))
invalid.append(("prox_none_result", dict(gradf=lambda v: v, x=np.ones(3),
                                         alpha=0.1,
                                         proxg=lambda a, v: None)))
invalid.append(("x_list", dict(gradf=lambda v: v, x=[1.0, 2.0], alpha=0.1,
                               accelerate=True)))
invalid.append(("acc_str", dict(gradf=lambda v: v, x=np.ones(3), alpha=0.1,
                                accelerate="yes")))
for name, kw in invalid:
    for acc in [False, True]:
        kw2 = dict(kw)
        kw2.setdefault("accelerate", acc)
        tag = "inv.%s.%s" % (name, acc)
        am = None
        try:
            am = alg.GradientMethod(**kw2)
            am.update()
            am.update()
            state(tag, am)
        except Exception as e:  # noqa
            feed(tag + ".exc", type(e).__name__)
            feed(tag + ".cause", type(e.__cause__).__name__)
            if am is not None:
                try:
                    state(tag + ".partial", am)
                except Exception as e2:  # noqa
                    feed(tag + ".exc2", type(e2).__name__)
        if isinstance(kw2["x"], np.ndarray):
            feed(tag + ".x", kw2["x"])

print(H.hexdigest())
