"""C13/n2 equivalence demo: exercises sigpy.alg.PrimalDualHybridGradient on a
spread of inputs (real/complex, several dtypes and shapes, scalar and array
step sizes of several kinds, all gamma_primal/gamma_dual/theta combinations,
tol, repeated updates, invalid inputs) and prints a SHA256 digest of
everything observable (x, u, x_ext, tau, sigma, tau_min, sigma_min, resid,
iter, done(), dtypes, shapes, exception types, caller's arrays afterwards)."""
import hashlib

import numpy as np

import sigpy as sp
from sigpy import alg

H = hashlib.sha256()


def fnum(v):
    v = float(v)
    if v != v:
        return "nan"
    if v in (float("inf"), float("-inf")):
        return repr(v)
    if v == 0:
        return "0"
    return "%.9e" % v


def feed(tag, obj):
    H.update(("|" + tag + ":").encode())
    if isinstance(obj, np.ndarray):
        H.update(("A%s%s%s[" % (obj.dtype.name, obj.shape,
                                obj.flags.c_contiguous)).encode())
        flat = np.asarray(obj).reshape(-1)
        if np.iscomplexobj(flat):
            for v in flat:
                H.update((fnum(v.real) + "," + fnum(v.imag) + ";").encode())
        else:
            for v in flat:
                H.update((fnum(v) + ";").encode())
        H.update(b"]")
    elif isinstance(obj, (bool, np.bool_)):
        H.update(("B%s%s" % (type(obj).__name__, bool(obj))).encode())
    elif isinstance(obj, (int, float, np.integer, np.floating)):
        H.update(("S%s=%s" % (type(obj).__name__, fnum(obj))).encode())
    elif isinstance(obj, complex):
        H.update(("C%s,%s" % (fnum(obj.real), fnum(obj.imag))).encode())
    elif obj is None:
        H.update(b"None")
    else:
        H.update(("O" + str(obj)).encode())


def state(tag, am):
    for name in ["x", "u", "x_ext", "tau", "sigma", "tau_min", "sigma_min",
                 "theta", "gamma_primal", "gamma_dual", "resid", "iter",
                 "tol", "max_iter"]:
        if hasattr(am, name):
            v = getattr(am, name)
            feed(tag + "." + name, v)
            feed(tag + "." + name + ".type", type(v).__name__)
        else:
            feed(tag + "." + name, "absent")
    feed(tag + ".done", am.done())


def make(shape, dtype, layout):
    if layout == "c":
        return np.zeros(shape, dtype=dtype)
    if layout == "f":
        return np.zeros(shape, dtype=dtype, order="F")
    return np.zeros(tuple(shape) + (2,), dtype=dtype)[..., 1]


def steps(kind, A, xshape, ushape, rng):
    nrm = float(np.linalg.norm(A.astype(np.complex128), 2))
    if kind == "pyfloat":
        return 0.9 / nrm, 1.0 / nrm
    if kind == "npfloat":
        return np.float64(1 / nrm), np.float32(1 / nrm)
    if kind == "int":
        s = 1 / nrm**2
        return 1, s
    if kind == "arrays":
        t = 1 / np.sum(np.abs(A), axis=0).astype(np.float64)
        s = 1 / np.sum(np.abs(A), axis=1).astype(np.float64)
        return t.reshape(xshape), s.reshape(ushape)
    if kind == "arrays32":
        t = 1 / np.sum(np.abs(A), axis=0).astype(np.float32)
        s = 1 / np.sum(np.abs(A), axis=1).astype(np.float32)
        return t.reshape(xshape), s.reshape(ushape)
    if kind == "tau_array":
        t = 1 / np.sum(np.abs(A) ** 2, axis=0).astype(np.float64)
        return t.reshape(xshape), 1.0
    if kind == "sigma_array":
        s = 1 / np.sum(np.abs(A) ** 2, axis=1).astype(np.float64)
        return 1.0, s.reshape(ushape)
    if kind == "zerod":
        return np.array(1 / nrm), np.array(1 / nrm)
    if kind == "size1":
        return np.array([1 / nrm]), np.array([1 / nrm])
    if kind == "negative":
        return -0.5 / nrm, 1 / nrm
    if kind == "intarray":
        return np.ones(xshape, dtype=int), np.float64(1 / nrm**2)
    raise ValueError(kind)


kinds = ["pyfloat", "npfloat", "int", "arrays", "arrays32", "tau_array",
         "sigma_array", "zerod", "size1", "negative", "intarray"]
gammas = [(0, 0), (0.3, 0), (0, 0.7), (0.3, 0.7), (1, 0), (0, 1),
          (np.float32(0.2), 0.0)]
case = 0
for dtype in [np.float32, np.float64, np.complex64, np.complex128]:
    for xshape, ushape in [((4,), (6,)), ((4, 1), (6, 1)), ((2, 2), (3, 2)),
                           ((3,), (3,))]:
        for kind in kinds:
            for gp, gd in gammas:
                case += 1
                if dtype in (np.float32, np.complex64) and case % 3:
                    continue
                if dtype is np.float64 and case % 2:
                    continue
                rng = np.random.RandomState(case)
                n = int(np.prod(xshape))
                m = int(np.prod(ushape))
                A = rng.randn(m, n)
                if np.dtype(dtype).kind == "c":
                    A = A + 1j * rng.randn(m, n)
                A = A.astype(dtype)
                y = (A @ rng.randn(n)).astype(dtype).reshape(ushape)
                lam = 0.1
                tau, sigma = steps(kind, A, xshape, ushape, rng)
                tau0 = tau.copy() if isinstance(tau, np.ndarray) else tau
                layout = ["c", "f", "col"][case % 3]
                x = make(xshape, dtype, layout)
                u = make(ushape, dtype, layout)
                proxfc = sp.prox.L2Reg(list(ushape), 1, y=-y)
                pg = case % 4
                if pg == 0:
                    proxg = sp.prox.L1Reg(list(xshape), lam)
                elif pg == 1:
                    proxg = sp.prox.L2Reg(list(xshape), lam)
                elif pg == 2:
                    proxg = sp.prox.NoOp(list(xshape))
                else:
                    def proxg(a, v):
                        return v / (1 + lam * a)
                theta = [1, 1, 0.5, 0][case % 4]
                tol = 1e-2 if case % 7 == 0 else 0

                def Aop(v, A=A, ushape=ushape):
                    return (A @ v.reshape(-1)).reshape(ushape)

                def AHop(v, A=A, xshape=xshape):
                    return (A.conj().T @ v.reshape(-1)).reshape(xshape)

                tag = "c%d" % case
                am = None
                try:
                    am = alg.PrimalDualHybridGradient(
                        proxfc, proxg, Aop, AHop, x, u, tau, sigma,
                        theta=theta, gamma_primal=gp, gamma_dual=gd,
                        max_iter=6, tol=tol)
                    state(tag + ".init", am)
                    k = 0
                    while not am.done():
                        am.update()
                        k += 1
                        state(tag + ".u%d" % k, am)
                    am.update()
                    state(tag + ".after", am)
                    feed(tag + ".same", (am.x is x, am.u is u,
                                         am.tau is tau, am.sigma is sigma))
                except Exception as e:  # noqa
                    feed(tag + ".exc", type(e).__name__)
                    feed(tag + ".cause", type(e.__cause__).__name__)
                    if am is not None:
                        try:
                            state(tag + ".partial", am)
                        except Exception as e2:  # noqa
                            feed(tag + ".exc2", type(e2).__name__)
                feed(tag + ".callerx", x)
                feed(tag + ".calleru", u)
                if isinstance(tau, np.ndarray):
                    feed(tag + ".callertau", tau)
                if isinstance(sigma, np.ndarray):
                    feed(tag + ".callersigma", sigma)

# special configurations ---------------------------------------------------
rng = np.random.RandomState(99)
A = rng.randn(5, 5)
y = rng.randn(5)
nrm = np.linalg.norm(A, 2)


def build(tau, sigma, **kw):
    x = np.zeros(5)
    u = np.zeros(5)
    am = alg.PrimalDualHybridGradient(
        lambda a, v: (v - a * y) / (1 + a),
        lambda a, v: v / (1 + 0.1 * a),
        lambda v: A @ v, lambda v: A.T @ v, x, u, tau, sigma, **kw)
    return am, x, u


# same array object used for tau and sigma
for gp, gd in [(0.1, 0), (0, 1)]:
    st = np.full(5, 1 / nrm)
    am, x, u = build(st, st, gamma_primal=gp, gamma_dual=gd, max_iter=4)
    while not am.done():
        am.update()
    state("alias.%s.%s" % (gp, gd), am)
    feed("alias.st", st)

# two instances sharing the caller's step arrays, run one after the other
t = np.full(5, 1 / nrm)
s = np.full(5, 1 / nrm)
for r in range(2):
    am, x, u = build(t, s, gamma_primal=0.1, max_iter=3)
    while not am.done():
        am.update()
    state("shared%d" % r, am)
feed("shared.t", t)
feed("shared.s", s)

# defaults / positional theta
am, x, u = build(1 / nrm, 1 / nrm)
for i in range(3):
    am.update()
state("defaults", am)
x = np.zeros(5)
u = np.zeros(5)
am = alg.PrimalDualHybridGradient(
    lambda a, v: (v - a * y) / (1 + a), lambda a, v: v, lambda v: A @ v,
    lambda v: A.T @ v, x, u, 1 / nrm, 1 / nrm, 0.5, 0, 2.0, 3, 0)
while not am.done():
    am.update()
state("positional", am)

# invalid / odd usage
def attempt(tag, fn):
    am = None
    try:
        am = fn()
        am.update()
        am.update()
        state(tag, am)
    except Exception as e:  # noqa
        feed(tag + ".exc", type(e).__name__)
        feed(tag + ".cause", type(e.__cause__).__name__)


attempt("inv.list_steps", lambda: build([0.1] * 5, 0.1, gamma_primal=0.1)[0])
attempt("inv.none_tau", lambda: build(None, 0.1)[0])
attempt("inv.none_tau_g", lambda: build(None, 0.1, gamma_primal=1)[0])
attempt("inv.str_gamma", lambda: build(0.1, 0.1, gamma_primal="a")[0])
attempt("inv.neg_gamma", lambda: build(0.1, 0.1, gamma_primal=-1.0,
                                       gamma_dual=-2)[0])
attempt("inv.shape_steps", lambda: build(np.ones(4), 0.1)[0])
attempt("inv.shape_steps_g", lambda: build(0.1, np.ones(4) * 0.1,
                                           gamma_dual=0.5)[0])
attempt("inv.readonly", lambda: build(
    np.broadcast_to(np.float64(0.1), (5,)), 0.1, gamma_primal=0.3)[0])
attempt("inv.intarr_dual", lambda: build(np.ones(5, dtype=int), 0.01,
                                         gamma_dual=0.3)[0])
attempt("inv.complex_steps", lambda: build(0.1 + 0j, 0.1, gamma_primal=0.3)[0])


def late_gamma():
    am, x, u = build(0.1, 0.1)
    am.update()
    am.gamma_primal = 0.5  # tau_min was never computed
    return am


attempt("inv.late_gamma", late_gamma)


def late_gamma_dual():
    am, x, u = build(0.1, 0.1, gamma_primal=0.2)
    am.update()
    am.gamma_primal = 0
    am.gamma_dual = 0.5  # sigma_min was never computed
    return am


attempt("inv.late_gamma_dual", late_gamma_dual)


def swap_gamma():
    am, x, u = build(np.full(5, 0.1), np.full(5, 0.1), gamma_primal=0.2,
                     gamma_dual=0.3)
    am.update()
    am.gamma_dual = 0
    am.update()
    am.gamma_primal = 0
    am.gamma_dual = 0.3
    return am


attempt("odd.swap_gamma", swap_gamma)

print(H.hexdigest())
