"""Equivalence demonstration for the C14 structural refactors (n1 / n2).

Runs LinearLeastSquares (and the GradientMethod / PrimalDualHybridGradient
algorithms directly) over a spread of solver / lamda / z / proxg / G /
step-size / tol / initial-x combinations, dtypes and shapes, including
repeated solves that share operators, and invalid combinations.  Everything
observable is folded into one SHA256 digest: returned arrays (rounded to 10
significant digits, with dtype and shape), iteration counts, residuals, the
step sizes left on the app, objective traces, exception types, and the
caller's input arrays after the call.
"""
import hashlib
import sys
import warnings

import numpy as np

from sigpy import alg, app, linop, prox

warnings.simplefilter("ignore")
H = hashlib.sha256()
COUNT = [0]


def _num(v):
    v = float(v)
    if v != v:
        return "nan"
    return "%.9e" % v


def enc(obj):
    if obj is None:
        return "None"
    if isinstance(obj, (bool, str)):
        return repr(obj)
    if isinstance(obj, (int, np.integer)):
        return "i%d" % int(obj)
    if isinstance(obj, (float, np.floating)):
        return "f" + _num(obj)
    if isinstance(obj, (complex, np.complexfloating)):
        return "c" + _num(obj.real) + "," + _num(obj.imag)
    if isinstance(obj, np.ndarray):
        a = np.ascontiguousarray(obj)
        if np.iscomplexobj(a):
            flat = np.stack([a.real.ravel(), a.imag.ravel()], -1).ravel()
        else:
            flat = a.ravel()
        return "A[%s|%s|%s]" % (
            a.dtype.str, a.shape, ",".join(_num(v) for v in flat))
    if isinstance(obj, (list, tuple)):
        return "(" + ";".join(enc(o) for o in obj) + ")"
    return "<" + type(obj).__name__ + ">"


def rec(tag, *objs):
    COUNT[0] += 1
    if len(sys.argv) > 1 and tag.endswith(":exc"):
        print(tag, objs)  # verbose mode: list the combinations that raised
    H.update((tag + "=" + "|".join(enc(o) for o in objs) + "\n").encode())


def exc_name(e):
    names = [type(e).__name__]
    while e.__cause__ is not None:
        e = e.__cause__
        names.append(type(e).__name__)
    return ">".join(names)


def rand(rng, dtype, *shape):
    a = rng.randn(*shape)
    if np.issubdtype(dtype, np.complexfloating):
        a = a + 1j * rng.randn(*shape)
    return a.astype(dtype)


def run_lls(tag, A, y, seed=0, **kw):
    """Run one LinearLeastSquares problem and record everything."""
    inputs = {k: v for k, v in kw.items() if isinstance(v, np.ndarray)}
    y_in = y
    np.random.seed(seed)
    try:
        a = app.LinearLeastSquares(A, y_in, show_pbar=False, **kw)
        x = a.run()
    except Exception as e:  # noqa
        rec(tag + ":exc", exc_name(e))
    else:
        rec(tag + ":x", x, x is kw.get("x", None))
        rec(tag + ":solver", a.solver, type(a.alg).__name__, a.alg.iter,
            getattr(a.alg, "resid", None))
        rec(tag + ":steps", a.alpha, a.tau, a.sigma, a.rho, a.lamda)
        for name in ["gamma_primal", "gamma_dual", "theta", "tau_min",
                     "sigma_min", "x_ext", "u", "t", "z", "max_iter", "tol"]:
            if hasattr(a.alg, name):
                v = getattr(a.alg, name)
                if isinstance(v, (np.ndarray, int, float, np.number)):
                    rec(tag + ":alg." + name, v)
        if getattr(a, "save_objective_values", False):
            rec(tag + ":obj", list(a.objective_values))
    rec(tag + ":y_after", y_in)
    for k in sorted(inputs):
        rec(tag + ":" + k + "_after", inputs[k])


def column_problems(dtype, seed):
    rng = np.random.RandomState(seed)
    n, m, k = 5, 7, 4
    rdt = np.zeros(1, dtype).real.dtype
    M = rand(rng, dtype, m, n)
    Gm = rand(rng, dtype, k, n)
    y = rand(rng, dtype, m, 1)
    z = rand(rng, dtype, n, 1)
    A = linop.MatMul([n, 1], M)
    G = linop.MatMul([n, 1], Gm)
    name = np.dtype(dtype).name

    def proxes(shape):
        return [
            ("none", None),
            ("l1", prox.L1Reg(shape, 0.3)),
            ("l2", prox.L2Reg(shape, 0.4)),
            ("box", prox.BoxConstraint(shape, -0.5, 0.25)),
        ]

    # ---- G = None: full solver x lamda x z x proxg sweep
    for solver in [None, "ConjugateGradient", "GradientMethod",
                   "PrimalDualHybridGradient", "ADMM"]:
        for lamda in [0, 0.3]:
            for zz in [None, z]:
                for pname, p in proxes([n, 1]):
                    tag = "%s/col/%s/l%s/z%d/%s" % (
                        name, solver, lamda, zz is not None, pname)
                    run_lls(tag, A, y.copy(), solver=solver, lamda=lamda,
                            z=None if zz is None else zz.copy(), proxg=p,
                            max_iter=25, max_power_iter=12)

    # ---- dense G
    for solver in [None, "GradientMethod", "PrimalDualHybridGradient",
                   "ADMM", "ConjugateGradient"]:
        for lamda in [0, 0.3]:
            for zz in [None, z]:
                for pname, p in proxes([k, 1])[:3]:
                    tag = "%s/colG/%s/l%s/z%d/%s" % (
                        name, solver, lamda, zz is not None, pname)
                    run_lls(tag, A, y.copy(), solver=solver, lamda=lamda,
                            z=None if zz is None else zz.copy(), proxg=p,
                            G=G, max_iter=25, max_power_iter=12, rho=0.7,
                            max_cg_iter=6)

    # ---- step-size arguments of the primal-dual solver (+ tol, x0)
    tau_arr = (0.05 + 0.02 * np.arange(n).reshape(n, 1)).astype(rdt)
    sig_arr = (0.04 + 0.01 * np.arange(m).reshape(m, 1)).astype(rdt)
    sigG_arr = (0.03 + 0.01 * np.arange(m + k)).astype(rdt)
    x0 = rand(rng, dtype, n, 1)
    step_cfgs = [
        ("tau", dict(tau=0.05)),
        ("sigma", dict(sigma=0.07)),
        ("both", dict(tau=0.05, sigma=0.07)),
        ("tauarr", dict(tau=tau_arr.copy())),
        ("sigarr", dict(sigma=sig_arr.copy())),
        ("tol", dict(tol=0.5)),
        ("x0", dict(x=x0.copy())),
        ("x0tol", dict(x=x0.copy(), tol=1e3)),
    ]
    for cname, cfg in step_cfgs:
        for lamda in [0, 0.6]:
            for pname, p in proxes([n, 1])[:2]:
                tag = "%s/pdhg/%s/l%s/%s" % (name, cname, lamda, pname)
                run_lls(tag, A, y.copy(), solver="PrimalDualHybridGradient",
                        lamda=lamda, z=z.copy(), proxg=p, max_iter=20,
                        max_power_iter=10,
                        **{kk: (v.copy() if isinstance(v, np.ndarray) else v)
                           for kk, v in cfg.items()})
    stepG_cfgs = [
        ("tau", dict(tau=0.05)),
        ("sigma", dict(sigma=0.07)),
        ("both", dict(tau=0.05, sigma=0.07)),
        ("tauarr", dict(tau=tau_arr.copy())),
        ("sigarr", dict(sigma=sigG_arr.copy())),
        ("tol", dict(tol=0.5)),
        ("x0", dict(x=x0.copy())),
    ]
    for cname, cfg in stepG_cfgs:
        for lamda in [0, 0.6]:
            for pname, p in proxes([k, 1])[:2]:
                tag = "%s/pdhgG/%s/l%s/%s" % (name, cname, lamda, pname)
                run_lls(tag, A, y.copy(), solver="PrimalDualHybridGradient",
                        lamda=lamda, z=z.copy(), proxg=p, G=G, max_iter=20,
                        max_power_iter=10,
                        **{kk: (v.copy() if isinstance(v, np.ndarray) else v)
                           for kk, v in cfg.items()})

    # ---- gradient method: alpha, tol, accelerate, x0; objective trace
    for cname, cfg in [
        ("alpha", dict(alpha=0.01)),
        ("tol", dict(tol=2.0)),
        ("noacc", dict(accelerate=False)),
        ("x0", dict(x=x0.copy(), tol=1e-3)),
        ("obj", dict(save_objective_values=True,
                     g=lambda v: 0.3 * float(np.sum(np.abs(v))))),
    ]:
        for lamda in [0, 0.6]:
            tag = "%s/gm/%s/l%s" % (name, cname, lamda)
            run_lls(tag, A, y.copy(), solver="GradientMethod", lamda=lamda,
                    z=z.copy(), proxg=prox.L1Reg([n, 1], 0.3), max_iter=20,
                    max_power_iter=10,
                    **{kk: (v.copy() if isinstance(v, np.ndarray) else v)
                       for kk, v in cfg.items()})

    # ---- repeated solves sharing A (cached H / N) and a re-used tau array
    tau_shared = tau_arr.copy()
    for rep in range(3):
        run_lls("%s/rep%d" % (name, rep), A, y.copy(), lamda=0.6,
                solver="PrimalDualHybridGradient", tau=tau_shared, G=G,
                proxg=prox.L1Reg([k, 1], 0.3), max_iter=8, max_power_iter=6,
                seed=rep)
    rec(name + "/tau_shared", tau_shared)

    # ---- invalid inputs
    run_lls(name + "/bad/solver", A, y.copy(), solver="Newton")
    run_lls(name + "/bad/solver2", A, y.copy(), solver="pdhg", proxg=None)
    run_lls(name + "/bad/yshape", A, rand(rng, dtype, m + 1, 1),
            solver="PrimalDualHybridGradient")
    run_lls(name + "/bad/proxshape", A, y.copy(),
            proxg=prox.L1Reg([n + 1, 1], 0.1),
            solver="PrimalDualHybridGradient", max_iter=3)
    run_lls(name + "/bad/Gshape", A, y.copy(), G=linop.MatMul([n + 1, 1], rand(
        rng, dtype, k, n + 1)), proxg=prox.L1Reg([k, 1], 0.1), max_iter=3)
    run_lls(name + "/bad/sigshape", A, y.copy(), sigma=sig_arr[:3].copy(),
            solver="PrimalDualHybridGradient", max_iter=3)
    run_lls(name + "/bad/tau0", A, y.copy(), tau=0.0,
            solver="PrimalDualHybridGradient", max_iter=3)


def image_problems(dtype, seed):
    """2-D unknown, diagonal A, finite-difference G (vectorised Vstack)."""
    rng = np.random.RandomState(seed)
    shape = [4, 3]
    w = (0.5 + rng.rand(*shape)).astype(np.zeros(1, dtype).real.dtype)
    A = linop.Multiply(shape, w)
    G = linop.FiniteDifference(shape)
    y = rand(rng, dtype, *shape)
    z = rand(rng, dtype, *shape)
    name = np.dtype(dtype).name
    for solver in [None, "PrimalDualHybridGradient", "ADMM"]:
        for lamda in [0, 0.25]:
            for pname, p in [("none", None),
                             ("l1", prox.L1Reg(G.oshape, 0.2))]:
                for cname, cfg in [("def", {}), ("sigma", dict(sigma=0.2)),
                                   ("tau", dict(tau=0.3)), ("tol", dict(tol=0.3))]:
                    tag = "%s/img/%s/l%s/%s/%s" % (
                        name, solver, lamda, pname, cname)
                    run_lls(tag, A, y.copy(), solver=solver, lamda=lamda,
                            z=z.copy(), proxg=p, G=G, max_iter=15,
                            max_power_iter=8, **cfg)


def alg_level(dtype, seed):
    """GradientMethod / PrimalDualHybridGradient used directly."""
    rng = np.random.RandomState(seed)
    n = 6
    name = np.dtype(dtype).name
    M = rand(rng, dtype, n, n)
    Hm = M.conj().T @ M
    b = rand(rng, dtype, n)
    L = float(np.linalg.norm(Hm, 2))
    for tol in [0, 1e-1, 10.0, np.inf]:
        for acc in [False, True]:
            for use_prox in [False, True]:
                x = np.zeros(n, dtype)
                g = alg.GradientMethod(
                    lambda v: Hm @ v - b, x, 1 / L,
                    proxg=prox.L1Reg([n], 0.2) if use_prox else None,
                    accelerate=acc, max_iter=12, tol=tol)
                states = [g.done()]
                while not g.done():
                    g.update()
                    states.append((g.iter, g.resid, g.done()))
                rec("%s/alg/gm/%s/%s/%s" % (name, tol, acc, use_prox),
                    x, states)
        for gp, gd in [(0, 0), (0.5, 0), (0, 1.0), (0.5, 1.0)]:
            x = np.zeros(n, dtype)
            u = np.zeros(n, dtype)
            p = alg.PrimalDualHybridGradient(
                prox.L2Reg([n], 1, y=-b), prox.L2Reg([n], gp) if gp else
                prox.NoOp([n]), lambda v: M @ v, lambda v: M.conj().T @ v,
                x, u, 0.5 / L ** 0.5, 0.5 / L ** 0.5, gamma_primal=gp,
                gamma_dual=gd, max_iter=12, tol=tol)
            states = [p.done()]
            while not p.done():
                p.update()
                states.append((p.iter, p.resid, p.tau, p.sigma, p.done()))
            rec("%s/alg/pdhg/%s/%s/%s" % (name, tol, gp, gd), x, u, states)
    # max_iter = 0: done before the first update
    g = alg.GradientMethod(lambda v: v, np.ones(2, dtype), 1.0, max_iter=0)
    rec(name + "/alg/gm/zero", g.done(), g.iter, g.resid)


def main():
    for i, dtype in enumerate(
            [np.float64, np.complex128, np.float32, np.complex64]):
        column_problems(dtype, 10 + i)
        image_problems(dtype, 20 + i)
        alg_level(dtype, 30 + i)

    print("records:", COUNT[0])
    print("digest:", H.hexdigest())
    return 0


if __name__ == "__main__":
    sys.exit(main())
