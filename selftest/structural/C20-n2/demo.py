"""Equivalence digest for the trapezoid / spokes gradient designers
(min_trap_grad, trap_grad, spokes_grad and dz_pins which assembles trap_grad
blips).  Prints one SHA256 over all results."""
import hashlib
import warnings

import numpy as np

import sigpy.mri.rf as rf
from sigpy.mri.rf import trajgrad

warnings.simplefilter("ignore")
H = hashlib.sha256()


def put(tag, obj):
    H.update(tag.encode())
    if isinstance(obj, tuple):
        for i, o in enumerate(obj):
            put("%s[%d]" % (tag, i), o)
        return
    if isinstance(obj, BaseException):
        H.update(("EXC:" + type(obj).__name__).encode())
        return
    a = np.asarray(obj)
    H.update(("%s|%s|%s|" % (type(obj).__name__, a.dtype, a.shape)).encode())
    flat = a.astype(complex).ravel() if a.dtype.kind == "c" else a.astype(float).ravel()
    for v in flat:
        if a.dtype.kind == "c":
            H.update(("%.9e,%.9e;" % (v.real, v.imag)).encode())
        else:
            H.update(("%.9e;" % v).encode())


def call(tag, f, *args):
    try:
        out = f(*args)
    except Exception as e:  # noqa
        out = e
    put(tag, out)
    return out


# ---- trap_grad / min_trap_grad over a parameter spread -------------------
areas = [1e-6, 3e-5, 2.24e-4, 8e-4, 2e-2, 1, np.float32(5e-4), np.float64(7e-5),
         0, 0.0, -3e-5, -8e-3, float("nan")]
limits = [(2, 18000, 4e-6), (2.0, 18000.0, 4e-6), (0.1, 1e2, 1e-4),
          (10, 1e5, 1e-6), (4, 20000, 4e-6), (np.float32(3.3), np.int64(15000), 1e-5),
          (0.5004, 1e4, 1e-5), (1.0, 1e5, 1e-4)]
for fn in (rf.trap_grad, rf.min_trap_grad, trajgrad.trap_grad, trajgrad.min_trap_grad):
    for ai, a in enumerate(areas):
        for li, (gm, sl, dt) in enumerate(limits):
            if abs(float(a)) / float(gm) / dt > 2e5:
                continue
            for rep in range(2):  # repeated calls
                call("%s/%d/%d/%d" % (fn.__name__, ai, li, rep), fn, a, gm, sl, dt)

# exact triangle/trapezoid boundary and its neighbours
for gm, sl, dt in ((2, 18000, 4e-6), (1.0, 1e4, 1e-5)):
    r = int(np.ceil(gm / sl / dt))
    for f in (1 - 1e-12, 1, 1 + 1e-12, 0.999, 1.001):
        call("bnd", rf.trap_grad, r * dt * gm * f, gm, sl, dt)

# extra positional args, invalid inputs
call("args4", rf.trap_grad, 8e-4, 2, 18000, 4e-6, 1, 2, 3, 4)
call("args5", rf.trap_grad, 8e-4, 2, 18000, 4e-6, 1, 2, 3, 4, 5)
call("arrarea", rf.trap_grad, np.array([1e-4, 2e-4]), 2, 18000, 4e-6)
call("arrarea_m", rf.min_trap_grad, np.array([1e-4, 2e-4]), 2, 18000, 4e-6)
call("strarea", rf.trap_grad, "a", 2, 18000, 4e-6)
call("none", rf.min_trap_grad, None, 2, 18000, 4e-6)
call("zerodt", rf.trap_grad, 1e-4, 2, 18000, 0.0)
call("zeroslew", rf.min_trap_grad, 1e-4, 2, 0.0, 4e-6)
call("neg_gmax", rf.trap_grad, 1e-3, -2, 18000, 4e-6)
call("tiny_min", rf.min_trap_grad, 1e-6, 10, 1e5, 1e-5)
call("onept_min", rf.min_trap_grad, 3e-10, 10, 1e5, 1e-5)
call("missing", rf.trap_grad, 1e-4, 2, 18000)

# ---- spokes_grad ---------------------------------------------------------
rng = np.random.RandomState(0)
ksets = [
    np.array([[-0.15, 0.05], [0.1, 0.1], [0.0, 0.0], [0.2, -0.25], [-0.05, 0.2]]),
    np.array([[0, 0]]),
    np.array([[0, 0], [1, 0], [1, 1], [0, 1]]),  # integer dtype
    np.array([[0.3, 0.0], [0.3, 0.2], [0.0, 0.2]], dtype=np.float32),
    rng.uniform(-0.25, 0.25, (7, 2)),
    np.array([[0.1, 0.1], [0.1, 0.1], [0.0, 0.0]]),  # repeated location
    np.array([[0.0, np.nan], [0.1, 0.0]]),
    np.array([[0.0, 0.0], [40.0, 0.0]]),  # blip longer than the lobe
    np.asfortranarray(rng.uniform(-1, 1, (4, 2))),
    rng.uniform(-1, 1, (6, 4))[:, ::2],  # non-contiguous view
]
hw = [(4, 5, 2, 18000, 4e-6), (8, 3.0, 4.0, 15000.0, 1e-5), (2, 10, 0.5, 5000, 2e-6)]
for ki, k in enumerate(ksets):
    for hi, (tbw, th, gm, sl, dt) in enumerate(hw):
        for rep in range(2):
            k_in = k.copy(order="K") if k.flags.c_contiguous or k.flags.f_contiguous else k
            call("spk/%d/%d/%d" % (ki, hi, rep), rf.spokes_grad, k_in, tbw, th, gm, sl, dt)
            put("spk_in/%d/%d/%d" % (ki, hi, rep), k_in)
call("spk_list", rf.spokes_grad, [[0, 0], [0.1, 0.1]], 4, 5, 2, 18000, 4e-6)
call("spk_1d", rf.spokes_grad, np.array([0.1, 0.2]), 4, 5, 2, 18000, 4e-6)
call("spk_cplx", rf.spokes_grad, np.array([[0.1 + 0j, 0.2], [0, 0]]), 4, 5, 2, 18000, 4e-6)
call("spk_empty", rf.spokes_grad, np.zeros((0, 2)), 4, 5, 2, 18000, 4e-6)
call("spk_zero_tbw", rf.spokes_grad, ksets[0], 0, 5, 2, 18000, 4e-6)
call("spk_neg_th", rf.spokes_grad, ksets[0], 4, -5, 2, 18000, 4e-6)

# ---- dz_pins (assembles trap_grad blips) ---------------------------------
call("pins", rf.dz_pins, 8, 3, 0.3, 4, 18000, 4e-6, 0.18, "ex", "ls", 0.01, 0.01)
call("pins2", rf.dz_pins, 4, 0.2, 0.05, 0.1004, 1e4, 1e-5)

print(H.hexdigest())
