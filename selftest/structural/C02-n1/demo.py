"""C02 / round 4 / refactor n1 - equivalence demonstration.

Exercises Hstack / Vstack / Diag (constructors, application, adjoint, normal
operator, repeated application, invalid inputs) on a spread of block shapes,
stacking axes (None, positive, negative), dtypes and block types, and prints
one SHA256 digest over all results:  values rounded to 10 significant digits,
dtypes, shapes, reprs, exception types for invalid inputs, and a digest of the
caller's input arrays after every call.
"""
import hashlib

import numpy as np

from sigpy import linop

H = hashlib.sha256()
COUNT = [0]


def canon(obj):
    if isinstance(obj, np.ndarray):
        flat = np.asarray(obj).ravel()
        if np.iscomplexobj(flat):
            vals = ",".join("%.9e%+.9ej" % (v.real, v.imag) for v in flat)
        else:
            vals = ",".join("%.9e" % float(v) for v in flat)
        return "ndarray|%s|%s|%s" % (obj.dtype.str, obj.shape, vals)
    if isinstance(obj, (list, tuple)):
        return "[" + ";".join(canon(o) for o in obj) + "]"
    return "%s|%r" % (type(obj).__name__, obj)


def rec(label, obj):
    COUNT[0] += 1
    H.update(("%s=%s\n" % (label, canon(obj))).encode())


def rec_exc(label, fn):
    try:
        out = fn()
    except BaseException as e:  # noqa
        chain = [type(e).__name__]
        c = e.__cause__
        while c is not None:
            chain.append(type(c).__name__)
            c = c.__cause__
        rec(label, "EXC:" + ">".join(chain))
        return None
    rec(label, out)
    return out


rng = np.random.RandomState(20240404)
DTYPES = [np.float32, np.float64, np.complex64, np.complex128]


def rand(shape, dtype):
    x = rng.randn(*shape)
    if np.issubdtype(dtype, np.complexfloating):
        x = x + 1j * rng.randn(*shape)
    return x.astype(dtype)


def exercise(tag, make):
    """make() -> operator; exercised on all dtypes, twice, with H and N."""
    A = rec_exc(tag + ".construct", lambda: repr(make()))
    if A is None:
        return
    A = make()
    rec(tag + ".shapes", [list(A.oshape), list(A.ishape)])
    for attr in ["indices", "iindices", "oindices", "axis", "iaxis", "oaxis"]:
        if hasattr(A, attr):
            rec(tag + "." + attr, getattr(A, attr))
    for dtype in DTYPES:
        t = "%s[%s]" % (tag, np.dtype(dtype).name)
        x = rand(A.ishape, dtype)
        y = rand(A.oshape, dtype)
        x0, y0 = x.copy(), y.copy()
        rec_exc(t + ".A(x)#1", lambda: A(x))
        rec_exc(t + ".A(x)#2", lambda: A(x))
        rec(t + ".x after", x)
        rec(t + ".x untouched", bool(np.array_equal(x, x0)))
        rec_exc(t + ".AH(y)#1", lambda: A.H(y))
        rec_exc(t + ".AH(y)#2", lambda: A.H(y))
        rec(t + ".y after", y)
        rec(t + ".y untouched", bool(np.array_equal(y, y0)))
        rec_exc(t + ".AN(x)", lambda: A.N(x))
        rec_exc(t + ".AHH(x)", lambda: A.H.H(x))
        rec_exc(t + ".A(x)#3 after H/N", lambda: A(x))
        # non-contiguous and read-only inputs
        xb = rand([2] + list(A.ishape), dtype)
        xv = xb[1]
        rec_exc(t + ".A(view)", lambda: A(xv))
        xr = x.copy()
        xr.setflags(write=False)
        rec_exc(t + ".A(readonly)", lambda: A(xr))
        # invalid inputs
        bad = rand([s + 1 for s in A.ishape], dtype)
        rec_exc(t + ".A(bad shape)", lambda: A(bad))
        rec_exc(t + ".A(flat bad)", lambda: A(bad.ravel()[:-1]))
    rec(tag + ".repr", repr(A))
    rec(tag + ".H.repr", repr(A.H))


def mm(oshape_rows, ishape, cplx):
    """MatMul block [n, k] -> [m, k] with a fixed matrix."""
    r = np.random.RandomState(oshape_rows * 131 + ishape[0] * 17 + cplx)
    M = r.randn(oshape_rows, ishape[0])
    if cplx:
        M = M + 1j * r.randn(oshape_rows, ishape[0])
    return linop.MatMul(ishape, M)


# ---------------------------------------------------------------- Hstack
exercise(
    "Hstack.flat.1d",
    lambda: linop.Hstack([linop.Identity([5]), linop.Multiply([5], 2 - 1j)]),
)
exercise(
    "Hstack.flat.nd",
    lambda: linop.Hstack(
        [mm(3, [4, 2], 0), mm(3, [5, 2], 1), mm(3, [2, 2], 0)]
    ),
)
for ax in [0, 1, -1, -2, 2, -3]:
    exercise(
        "Hstack.axis%d" % ax,
        lambda: linop.Hstack(
            [
                linop.Identity([3, 4]),
                linop.Multiply([3, 4], 1j),
                linop.FFT([3, 4], axes=(-1,)),
            ],
            axis=ax,
        ),
    )
exercise(
    "Hstack.axis0.uneven",
    lambda: linop.Hstack(
        [mm(3, [4, 2], 1), mm(3, [1, 2], 0), mm(3, [6, 2], 1)], axis=0
    ),
)
exercise("Hstack.single", lambda: linop.Hstack([mm(3, [4, 2], 1)], axis=0))
exercise("Hstack.single.flat", lambda: linop.Hstack([mm(3, [4, 2], 1)]))
exercise(
    "Hstack.bad.oshape",
    lambda: linop.Hstack([linop.Identity([3]), linop.Identity([4])]),
)
exercise(
    "Hstack.bad.ndim",
    lambda: linop.Hstack(
        [linop.Reshape([6], [6]), linop.Reshape([6], [2, 3])], axis=0
    ),
)
exercise(
    "Hstack.bad.off-axis",
    lambda: linop.Hstack(
        [linop.Reshape([6], [2, 3]), linop.Reshape([6], [3, 2])], axis=0
    ),
)

# ---------------------------------------------------------------- Vstack
exercise(
    "Vstack.flat.1d",
    lambda: linop.Vstack([linop.Identity([5]), linop.Multiply([5], 2 - 1j)]),
)
exercise(
    "Vstack.flat.nd",
    lambda: linop.Vstack(
        [mm(3, [4, 2], 0), mm(5, [4, 2], 1), mm(1, [4, 2], 0)]
    ),
)
for ax in [0, 1, -1, -2, 2, -3]:
    exercise(
        "Vstack.axis%d" % ax,
        lambda: linop.Vstack(
            [
                linop.Identity([3, 4]),
                linop.Multiply([3, 4], 1j),
                linop.Resize([3, 4], [3, 4]),
            ],
            axis=ax,
        ),
    )
exercise(
    "Vstack.axis0.uneven.mixed-dtype",
    lambda: linop.Vstack(
        [mm(2, [4, 3], 0), mm(5, [4, 3], 1), mm(1, [4, 3], 0)], axis=0
    ),
)
exercise(
    "Vstack.axis-1.resize",
    lambda: linop.Vstack(
        [linop.Resize([3, 2], [3, 4]), linop.Resize([3, 7], [3, 4])], axis=-1
    ),
)
exercise("Vstack.single", lambda: linop.Vstack([mm(3, [4, 2], 1)], axis=1))
exercise(
    "Vstack.bad.ishape",
    lambda: linop.Vstack([linop.Identity([3]), linop.Identity([4])]),
)
exercise(
    "Vstack.bad.off-axis",
    lambda: linop.Vstack(
        [linop.Reshape([2, 3], [6]), linop.Reshape([3, 2], [6])], axis=1
    ),
)
exercise(
    "FiniteDifference", lambda: linop.FiniteDifference([4, 5], axes=(-1, 0))
)

# ------------------------------------------------------------------ Diag
for ia, oa in [
    (None, None),
    (0, 0),
    (1, None),
    (None, 1),
    (-1, 0),
    (0, -1),
    (-2, -2),
    (2, 0),
]:
    exercise(
        "Diag.i%s.o%s" % (ia, oa),
        lambda: linop.Diag(
            [
                linop.Identity([3, 3]),
                linop.Multiply([3, 3], -0.5j),
                linop.Transpose([3, 3]),
            ],
            iaxis=ia,
            oaxis=oa,
        ),
    )
exercise(
    "Diag.flat.uneven.mixed",
    lambda: linop.Diag([mm(2, [4, 2], 0), mm(5, [3, 2], 1), mm(1, [1, 2], 0)]),
)
exercise(
    "Diag.axes.uneven.mixed",
    lambda: linop.Diag(
        [mm(2, [4, 2], 0), mm(5, [3, 2], 1), mm(1, [1, 2], 0)],
        iaxis=0,
        oaxis=-2,
    ),
)
exercise(
    "Diag.iflat.oaxis",
    lambda: linop.Diag(
        [mm(2, [4, 2], 1), mm(2, [3, 2], 0)], iaxis=None, oaxis=1
    ),
)
exercise("Diag.single", lambda: linop.Diag([mm(2, [4, 2], 1)], 0, 0))
exercise(
    "Diag.bad",
    lambda: linop.Diag(
        [linop.Reshape([2, 3], [6]), linop.Reshape([3, 2], [6])], oaxis=0
    ),
)

# nested stacks
exercise(
    "nested",
    lambda: linop.Vstack(
        [
            linop.Hstack([mm(3, [4, 2], 1), mm(3, [2, 2], 0)], axis=0),
            linop.Diag([mm(1, [4, 2], 0), mm(2, [2, 2], 1)], 0, 0),
        ],
        axis=0,
    ),
)

print("records:", COUNT[0])
print("digest:", H.hexdigest())
