"""C04 / n1 equivalence demo: fourier.toeplitz_psf and everything built on it.

Prints one SHA256 digest over: values (rounded to 10 significant digits),
dtypes, shapes, exception types for invalid inputs, and digests of the
caller's arrays after each call.
"""
import hashlib
import sys

import numpy as np

from sigpy import fourier, linop

H = hashlib.sha256()
VERBOSE = "--verbose" in sys.argv


def _round_sig(a, sig=10):
    a = np.asarray(a)
    if np.iscomplexobj(a):
        return _round_sig(a.real, sig) + 1j * _round_sig(a.imag, sig)
    a = a.astype(np.float64)
    out = np.zeros_like(a)
    nz = (a != 0) & np.isfinite(a)
    mag = np.floor(np.log10(np.abs(a[nz])))
    scale = 10.0 ** (sig - 1 - mag)
    out[nz] = np.round(a[nz] * scale) / scale
    out[~np.isfinite(a)] = a[~np.isfinite(a)]
    return out + 0.0  # normalise -0.0


def put(tag, value):
    H.update(tag.encode())
    if isinstance(value, np.ndarray):
        H.update(str(value.dtype).encode())
        H.update(str(value.shape).encode())
        r = np.ascontiguousarray(_round_sig(value))
        H.update(r.tobytes())
    else:
        H.update(repr(value).encode())


def raw(tag, a):
    """Exact bytes of a caller-owned array (must be untouched)."""
    H.update(tag.encode())
    H.update(str(a.dtype).encode() + str(a.shape).encode())
    H.update(np.ascontiguousarray(a).tobytes())


def attempt(tag, fn):
    try:
        out = fn()
    except Exception as e:  # noqa
        put(tag + ":exc", type(e).__name__)
        if VERBOSE:
            print("  %-40s raised %s" % (tag, type(e).__name__))
        return None
    if VERBOSE:
        print("  %-40s ok %s" % (tag, getattr(out, "shape", type(out))))
    put(tag, out if isinstance(out, np.ndarray) else repr(type(out)))
    return out


def main():
    rng = np.random.RandomState(7)

    # ---- toeplitz_psf over a spread of valid inputs ----------------------
    cases = [
        # shape, ndim, npts-shape, oversamp, width, coord dtype
        ((6,), 1, (11,), 1.25, 4, np.float64),
        ([7], 1, (11,), 2, 4, np.float64),
        ((8,), 1, (5, 3), 1.5, 3, np.float32),
        ((5, 6), 2, (13,), 1.25, 4, np.float64),
        ([4, 7], 2, (13,), 1.1, 6, np.float64),
        ((2, 5, 6), 2, (9,), 1.25, 4, np.float64),  # batch dim
        ([3, 2, 4, 4], 2, (9,), 2, 2, np.float32),  # two batch dims
        ((4, 5, 3), 3, (10,), 1.25, 4, np.float64),  # 3-D
        ((3, 4), 1, (4,), 1.25, 4, np.float64),  # 1-D with batch
        ((1,), 1, (4,), 1.25, 4, np.float64),
        ((3, 1), 2, (6,), 1.25, 4.5, np.float64),
    ]
    for n, (shape, ndim, pshape, os_, w, cdt) in enumerate(cases):
        sp_shape = np.array(shape[-ndim:], dtype=float)
        coord = ((rng.rand(*pshape, ndim) - 0.5) * sp_shape).astype(cdt)
        before = coord.copy()
        for rep in range(2):  # repeated calls
            psf = attempt(
                "psf%d.%d" % (n, rep),
                lambda: fourier.toeplitz_psf(coord, shape, os_, w),
            )
        raw("coord-after%d" % n, coord)
        put("coord-untouched%d" % n, bool(np.array_equal(before, coord)))
        # keyword / default forms
        attempt("psf-kw%d" % n, lambda: fourier.toeplitz_psf(
            coord, shape, width=w, oversamp=os_))
        if n < 3:
            attempt("psf-def%d" % n, lambda: fourier.toeplitz_psf(coord, shape))

    # ---- invalid inputs --------------------------------------------------
    c1 = (rng.rand(5, 1) - 0.5) * 4
    c2 = (rng.rand(5, 2) - 0.5) * 4
    attempt("bad-ndim", lambda: fourier.toeplitz_psf(c2, (4,)))
    attempt("bad-int-coord", lambda: fourier.toeplitz_psf(
        np.array([[0], [1]]), (4,)))
    attempt("bad-shape-none", lambda: fourier.toeplitz_psf(c1, None))
    attempt("bad-shape-int", lambda: fourier.toeplitz_psf(c1, 4))
    attempt("bad-coord-list", lambda: fourier.toeplitz_psf([[0.0]], (4,)))
    attempt("bad-width-zero", lambda: fourier.toeplitz_psf(c1, (4,), 1.25, 0))
    attempt("bad-oversamp-str", lambda: fourier.toeplitz_psf(c1, (4,), "a", 4))
    attempt("bad-shape-zero", lambda: fourier.toeplitz_psf(c1, (0,)))
    attempt("bad-coord-0d", lambda: fourier.toeplitz_psf(np.float64(1.0), (4,)))
    raw("c1-after", c1)
    raw("c2-after", c2)

    # ---- NUFFT normal operator built on it --------------------------------
    for ishape, os_, w in [([6], 1.25, 4), ([5, 4], 2, 4), ([2, 4, 5], 1.5, 3)]:
        ndim = 1 if len(ishape) == 1 else 2
        coord = (rng.rand(12, ndim) - 0.5) * np.array(ishape[-ndim:], float)
        for xdt in [np.float32, np.float64, np.complex64, np.complex128]:
            x = rng.randn(*ishape)
            if np.issubdtype(xdt, np.complexfloating):
                x = x + 1j * rng.randn(*ishape)
            x = x.astype(xdt)
            x0 = x.copy()
            A = linop.NUFFT(ishape, coord, oversamp=os_, width=w, toeplitz=True)
            tag = "N%s-%s-%s-%s" % (ishape, os_, w, np.dtype(xdt).name)
            attempt(tag, lambda: A.N(x))
            attempt(tag + "-again", lambda: A.N(x))
            put(tag + "-cached", A.N is A.N)
            put(tag + "-repr", repr(A.N))
            raw(tag + "-x-after", x)
            assert np.array_equal(x, x0)
            attempt(tag + "-badx", lambda: A.N(np.zeros([3, 3, 3, 3], xdt)))
        raw("coord-after-N%s" % ishape, coord)

    print("SHA256", H.hexdigest())


if __name__ == "__main__":
    main()
