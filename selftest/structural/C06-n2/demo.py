"""Equivalence digest for the NUFFT / centred-FFT code paths of sigpy.fourier.

Prints a SHA256 over all results (rounded to 10 significant digits), dtypes,
shapes, exception types for invalid inputs and digests of the caller's arrays
after each call. Must be identical before and after a pure refactor."""
import hashlib

import numpy as np

import sigpy as sp
from sigpy import fourier, linop

H = hashlib.sha256()


def _round(a):
    a = np.asarray(a)
    if np.iscomplexobj(a):
        return _round(a.real) + b"|" + _round(a.imag)
    a = a.astype(np.float64)
    out = []
    for v in a.ravel():
        out.append("%.9e" % v if np.isfinite(v) else repr(v))
    return ",".join(out).encode()


def put(tag, val):
    H.update(tag.encode())
    if isinstance(val, str):
        H.update(val.encode())
    elif isinstance(val, np.ndarray) or np.isscalar(val):
        a = np.asarray(val)
        H.update(str(a.dtype).encode() + str(a.shape).encode())
        H.update(_round(a))
    elif isinstance(val, (list, tuple)):
        H.update(type(val).__name__.encode())
        for v in val:
            put(tag + ".", v)
    else:
        H.update(repr(val).encode())


def call(tag, f, *args, **kwargs):
    arrays = [a for a in list(args) + list(kwargs.values())
              if isinstance(a, np.ndarray)]
    try:
        out = f(*args, **kwargs)
        put(tag, out)
    except Exception as e:  # noqa
        out = None
        put(tag, "EXC:" + type(e).__name__)
    for n, a in enumerate(arrays):
        put(tag + ".arg%d" % n, a)
    return out


def main():
    rng = np.random.default_rng(7)
    cfgs = [
        ((9,), 1, 1.25, 4), ((8,), 1, 2, 4), ((12,), 1, 1.36, 3),
        ((75,), 1, 1.36, 5), ((7, 10), 2, 1.25, 4), ((12, 12), 2, 1.25, 4),
        ((3, 12), 1, 1.25, 4), ((2, 3, 6, 5), 2, 1.5, 5.5),
        ((4, 6, 5), 3, 1.25, 4), ((2, 4, 3, 5), 3, 2, 6), ((5, 1), 2, 1.7, 3),
    ]
    dtypes = [np.complex128, np.complex64, np.float64, np.float32]
    for ci, (shape, ndim, oversamp, width) in enumerate(cfgs):
        img_shape = np.array(shape[-ndim:])
        for di, dtype in enumerate(dtypes):
            x = rng.standard_normal(shape)
            if np.issubdtype(dtype, np.complexfloating):
                x = x + 1j * rng.standard_normal(shape)
            x = x.astype(dtype)
            cdt = np.float32 if (ci + di) % 3 == 0 else np.float64
            kinds = [
                (rng.random((11, ndim)) - 0.5) * img_shape,
                (rng.random((3, 4, ndim)) - 0.5) * img_shape * 4,  # far away
                np.round((rng.random((6, ndim)) - 0.5) * img_shape),
                np.round((rng.random((6, ndim)) - 0.5) * img_shape) + 0.5,
            ]
            for ki, coord in enumerate(kinds):
                coord = coord.astype(cdt)
                tag = "c%d.d%d.k%d" % (ci, di, ki)
                for rep in range(2):  # repeated calls
                    y = call(tag + ".nufft%d" % rep, fourier.nufft, x, coord,
                             oversamp=oversamp, width=width)
                if y is None:
                    continue
                k = (y * (1 + 0.5j)).astype(y.dtype) if np.iscomplexobj(y) \
                    else y
                call(tag + ".adj", fourier.nufft_adjoint, k, coord,
                     oshape=shape, oversamp=oversamp, width=width)
                call(tag + ".adjtuple", fourier.nufft_adjoint, k, coord,
                     tuple(shape), oversamp, width)
                call(tag + ".adjnone", fourier.nufft_adjoint, k, coord,
                     oversamp=oversamp, width=width)
                call(tag + ".est", fourier.estimate_shape, coord)
                if di == 0 and ki == 0:
                    call(tag + ".psf", fourier.toeplitz_psf, coord, shape,
                         oversamp, width)
                    A = linop.NUFFT(shape, coord, oversamp, width)
                    call(tag + ".lin", A, x)
                    call(tag + ".linH", A.H, k)
                    call(tag + ".linN", linop.NUFFT(
                        shape, coord, oversamp, width, toeplitz=True).N, x)
                # private helpers reachable through the fourier namespace
                call(tag + ".sc", fourier._scale_coord, coord, shape, oversamp)
                call(tag + ".os", fourier._get_oversamp_shape, shape, ndim,
                     oversamp)
                beta = np.pi * (((width / oversamp) * (oversamp - 0.5)) ** 2
                                - 0.8) ** 0.5
                xc = x.copy()
                call(tag + ".apo", fourier._apodize, xc, ndim, oversamp,
                     width, beta)

    # default-argument calls
    x = rng.standard_normal((6, 7)) + 1j * rng.standard_normal((6, 7))
    coord = (rng.random((9, 2)) - 0.5) * 6
    call("def.nufft", fourier.nufft, x, coord)
    call("def.adj", fourier.nufft_adjoint, x[0, :3], coord[:3], (6, 7))
    call("sp.nufft", sp.nufft, x, coord)
    call("sp.adj", sp.nufft_adjoint, x.ravel()[:9], coord, [6, 7])

    # centred FFTs
    for shape in [(5,), (4, 5, 6), (3, 1), (2, 7, 8)]:
        for dtype in [np.complex128, np.complex64, np.float64, np.float32,
                      np.int64]:
            x = (rng.standard_normal(shape) * 3)
            if np.issubdtype(dtype, np.complexfloating):
                x = x + 1j * rng.standard_normal(shape)
            x = x.astype(dtype)
            for f in (fourier.fft, fourier.ifft):
                t = "fft.%s.%s.%s" % (shape, np.dtype(dtype).name, f.__name__)
                call(t, f, x)
                call(t + ".none", f, x, norm=None)
                call(t + ".ax", f, x, axes=[-1])
                call(t + ".axr", f, x, axes=range(-len(shape), 0), norm=None)
                call(t + ".nc", f, x, center=False)
                call(t + ".os", f, x, oshape=[n + 2 for n in shape])
                call(t + ".oscrop", f, x,
                     oshape=[max(n - 1, 1) for n in shape], axes=(0,))
                call(t + ".nc.os", f, x, oshape=[n + 1 for n in shape],
                     center=False, norm=None)
                call(t + ".badax", f, x, axes=[7])
                call(t + ".badnorm", f, x, norm="bogus")
                call(t + ".badshape", f, x, oshape=[3] * (len(shape) + 2),
                     axes=[0])

    # invalid inputs
    x = rng.standard_normal((6, 7)) + 0j
    call("bad.coorddim", fourier.nufft, x, np.zeros((4, 3)))
    call("bad.intcoord", fourier.nufft, x, np.zeros((4, 2), dtype=np.int64))
    call("bad.intinput", fourier.nufft, np.ones((6, 7), dtype=np.int64),
         np.zeros((4, 2)))
    call("bad.list", fourier.nufft, [[1, 2], [3, 4]], np.zeros((4, 2)))
    call("bad.adjshape", fourier.nufft_adjoint, np.ones(5) + 0j,
         np.zeros((4, 2)), (6, 7))
    call("bad.adjoshape", fourier.nufft_adjoint, np.ones(4) + 0j,
         np.zeros((4, 2)), (7,))
    call("bad.width0", fourier.nufft, x, np.zeros((4, 2)), width=0)
    call("bad.os0", fourier.nufft, x, np.zeros((4, 2)), oversamp=0)
    call("bad.os.5", fourier.nufft, x, np.zeros((4, 2)), oversamp=0.5)
    call("bad.none", fourier.nufft, None, np.zeros((4, 2)))
    call("bad.est", fourier.estimate_shape, np.zeros((0, 2)))
    call("empty.coord", fourier.nufft, x, np.zeros((0, 2)))

    print(H.hexdigest())


if __name__ == "__main__":
    main()
