"""Equivalence digest for the ESPIRiT calibration path (EspiritCalib,
array_to_blocks / blocks_to_array, PowerMethod).  Prints one SHA256 digest of
all results (values at 10 significant digits, dtypes, shapes, exception types,
and the caller's input arrays after each call)."""
import hashlib
import os
import warnings
import numpy as np
import sigpy as sp
from sigpy import block
from sigpy.mri import app, sim

warnings.simplefilter("ignore")
np.seterr(all="ignore")
H = hashlib.sha256()
COUNT = [0]


def put(tag, obj):
    COUNT[0] += 1
    H.update(("|%s:" % tag).encode())
    if isinstance(obj, (tuple, list)):
        H.update(("seq%d" % len(obj)).encode())
        for i, o in enumerate(obj):
            put("%s[%d]" % (tag, i), o)
    elif isinstance(obj, np.ndarray):
        H.update(("%s%s" % (obj.dtype.str, obj.shape)).encode())
        flat = np.ascontiguousarray(obj).ravel()
        if np.iscomplexobj(flat):
            flat = np.stack([flat.real, flat.imag], -1).ravel()
        H.update(",".join("%.9e" % float(v) for v in flat).encode())
    else:
        H.update(repr(obj).encode())


def attempt(tag, fn, inputs=()):
    try:
        out = fn()
        put(tag, out)
        if os.environ.get("VERBOSE"):
            print(tag, "ok", type(out).__name__, getattr(out, "shape", ""))
    except Exception as e:  # noqa
        put(tag, "EXC:" + type(e).__name__)
        if os.environ.get("VERBOSE"):
            print(tag, "EXC", type(e).__name__, str(e)[:60])
    for i, a in enumerate(inputs):
        put("%s.in%d" % (tag, i), a)


def make(shape, seed, dtype, noise=0.0, kind="maps"):
    rng = np.random.default_rng(seed)
    nd = len(shape) - 1
    if kind == "random":
        ksp = rng.standard_normal(shape) + 1j * rng.standard_normal(shape)
    else:
        mps = sim.birdcage_maps(shape).astype(np.complex128)
        img = (1 + 0.5 * rng.standard_normal(shape[1:])
               + 0.5j * rng.standard_normal(shape[1:]))
        if kind == "disk":
            grid = np.meshgrid(*[np.arange(n) - n / 2 for n in shape[1:]],
                               indexing="ij")
            img = img * (sum(g ** 2 for g in grid)
                         < (0.3 * min(shape[1:])) ** 2)
        ksp = sp.fft(mps * img, axes=range(-nd, 0))
        ksp = ksp + noise * (rng.standard_normal(shape)
                             + 1j * rng.standard_normal(shape))
    return ksp.astype(dtype)


def espirit(ksp, **kw):
    kw.setdefault("show_pbar", False)
    return app.EspiritCalib(ksp, **kw).run()


# ---------------------------------------------------------------- EspiritCalib
cases = [
    ((8, 16, 16), np.complex64, {}, "maps"),
    ((4, 20, 14), np.complex128, dict(calib_width=12, kernel_width=5), "maps"),
    ((3, 17, 15), np.complex64, dict(calib_width=11, kernel_width=4,
                                     thresh=0.05, crop=0.8), "maps"),
    ((2, 12, 12), np.complex128, dict(calib_width=8, kernel_width=3,
                                      crop=0, max_iter=7), "random"),
    ((5, 36, 16), np.complex128, dict(output_eigenvalue=True), "maps"),
    ((4, 8, 10, 6), np.complex64, dict(calib_width=6, kernel_width=3,
                                       output_eigenvalue=True), "maps"),
    ((6, 10, 10, 10), np.complex128, dict(calib_width=8, kernel_width=4,
                                          thresh=0.01, crop=0.99), "maps"),
    ((4, 16, 16), np.complex64, dict(calib_width=16, kernel_width=6,
                                     crop=np.float32(0.9),
                                     output_eigenvalue=True), "maps"),
    ((4, 16, 16), np.complex128, dict(thresh=0, crop=1, max_iter=3), "random"),
    ((3, 24), np.complex128, dict(calib_width=12, kernel_width=4), "random"),
    ((6, 32, 32), np.complex64, dict(calib_width=16, kernel_width=5,
                                     crop=np.float32(0.9),
                                     output_eigenvalue=True), "disk"),
    ((6, 24, 20), np.complex128, dict(calib_width=16, kernel_width=5,
                                      crop=0.7), "disk"),
]
for i, (shape, dtype, kw, kind) in enumerate(cases):
    ksp = make(shape, 10 + i, dtype, noise=0.01 * (i % 3 + (kind == "disk")), kind=kind)
    attempt("esp%d" % i, lambda: espirit(ksp, **kw), [ksp])
    # repeated call on the same input, and a non-contiguous view of it
    attempt("esp%d.again" % i, lambda: espirit(ksp, **kw), [ksp])
ksp = make((4, 16, 32), 99, np.complex128)
view = ksp[:, :, ::2]
attempt("esp.view", lambda: espirit(view, calib_width=16), [ksp])
fort = np.asfortranarray(make((3, 14, 14), 98, np.complex64))
attempt("esp.fortran", lambda: espirit(fort, calib_width=10, kernel_width=4),
        [fort])

# running an app twice, and inspecting its state
a = app.EspiritCalib(make((4, 12, 12), 5, np.complex128), calib_width=8,
                     kernel_width=3, output_eigenvalue=True, show_pbar=False)
attempt("state.run1", a.run)
attempt("state.attrs", lambda: (a.mps, a.alg.max_eig, a.alg.x, a.alg.iter,
                                a.alg.max_iter, a.crop, a.output_eigenvalue,
                                repr(a.device), sorted(vars(a).keys()),
                                sorted(vars(a.alg).keys())))
attempt("state.run2", a.run)

# invalid / degenerate inputs
real = np.random.default_rng(0).standard_normal((4, 16, 16))
attempt("bad.real", lambda: espirit(real), [real])
attempt("bad.real32", lambda: espirit(real.astype(np.float32)))
ok = make((4, 16, 16), 3, np.complex64)
attempt("bad.kernel>calib", lambda: espirit(ok, calib_width=4, kernel_width=6))
attempt("bad.thresh>1", lambda: espirit(ok, thresh=1.5), [ok])
attempt("bad.calib0", lambda: espirit(ok, calib_width=0))
attempt("bad.kernel0", lambda: espirit(ok, kernel_width=0))
attempt("bad.device", lambda: espirit(ok, device="cpu"))
attempt("bad.gpu", lambda: espirit(ok, device=0))
attempt("bad.maxiter0", lambda: espirit(ok, max_iter=0))
attempt("bad.5d", lambda: espirit(make((2, 4, 4, 4, 4), 1, np.complex64,
                                       kind="random"),
                                  calib_width=4, kernel_width=2))
attempt("bad.1d", lambda: espirit(np.ones(8, dtype=np.complex64)))
attempt("bad.list", lambda: espirit([[1j, 2], [3, 4]]))
attempt("bad.floatwidth", lambda: espirit(ok, calib_width=12.0))
attempt("bad.npint", lambda: espirit(ok, calib_width=np.int64(12),
                                     kernel_width=np.int32(4)), [ok])

# --------------------------------------------------- array_to_blocks & inverse
rng = np.random.default_rng(42)
for j, (shape, blk, strd) in enumerate([
    ((7,), [3], [1]), ((7,), [3], [2]), ((2, 9), [4], [3]),
    ((6, 5), [2, 3], [1, 1]), ((3, 6, 5), [2, 3], [2, 1]),
    ((3, 6, 5), (6, 5), (1, 1)), ((2, 3, 8, 7), [3, 2], [2, 3]),
    ((5, 6, 7), [2, 3, 4], [1, 1, 1]), ((2, 5, 6, 7), [2, 2, 2], [1, 2, 3]),
    ((2, 5, 6, 7), np.array([3, 3, 3]), np.array([1, 1, 1])),
    ((4, 4), [5, 5], [1, 1]), ((4, 4), [2, 2], [5, 5]),
]):
    for dtype in [np.float32, np.float64, np.complex64, np.complex128,
                  np.int32]:
        x = (rng.standard_normal(shape) * 10).astype(dtype)
        if np.issubdtype(dtype, np.complexfloating):
            x = x + 1j * (rng.standard_normal(shape) * 10).astype(dtype)
        tag = "a2b%d.%s" % (j, np.dtype(dtype).name)
        res = {}

        def fwd():
            res["b"] = block.array_to_blocks(x, blk, strd)
            return res["b"]
        attempt(tag, fwd, [x])
        if "b" in res:
            b = res["b"]
            attempt(tag + ".inv",
                    lambda: block.blocks_to_array(b, x.shape, blk, strd), [b])
xs = rng.standard_normal((4, 6, 6))
attempt("a2b.view", lambda: block.array_to_blocks(xs[:, ::2, 1:], [2, 2],
                                                  [1, 1]), [xs])
attempt("a2b.bad.len", lambda: block.array_to_blocks(xs, [2, 2], [1]))
attempt("a2b.bad.ndim4", lambda: block.array_to_blocks(
    np.zeros((2, 2, 2, 2)), [1, 1, 1, 1], [1, 1, 1, 1]))
attempt("a2b.bad.ndim0", lambda: block.array_to_blocks(xs, [], []))
attempt("a2b.bad.big", lambda: block.array_to_blocks(xs, [9, 9], [1, 1]))
attempt("a2b.bad.toofew", lambda: block.array_to_blocks(
    np.zeros(5), [2, 2], [1, 1]))
attempt("a2b.bad.stride0", lambda: block.array_to_blocks(xs, [2, 2], [0, 1]))
attempt("a2b.bad.float", lambda: block.array_to_blocks(xs, [2.0, 2.0], [1, 1]))
attempt("a2b.bad.list", lambda: block.array_to_blocks([1, 2, 3], [2], [1]))

# ----------------------------------------------------------------- PowerMethod
M = rng.standard_normal((6, 6))
M = M.T @ M
for dtype in [np.float64, np.complex128, np.float32]:
    x0 = np.ones(6, dtype=dtype)
    alg = sp.alg.PowerMethod(lambda v: M.astype(dtype) @ v, x0, max_iter=25)
    while not alg.done():
        alg.update()
    put("pm.%s" % np.dtype(dtype).name, (x0, alg.max_eig, alg.iter))

print("items hashed:", COUNT[0])
print("DIGEST", H.hexdigest())
