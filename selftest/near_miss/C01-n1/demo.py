"""C01 / round 3 / near-miss n1 - equivalence demonstration.

Exercises Hstack / Vstack / Diag (forward, adjoint, adjoint of adjoint,
normal) on a spread of operand lists, axes, dtypes and invalid inputs and
prints one SHA256 digest over everything that is observable:
values (10 significant digits), dtypes, shapes, exception types, and the
caller's input arrays after every call.
"""
import hashlib
import pickle

import numpy as np

from sigpy import linop

H = hashlib.sha256()
NREC = [0]


def rec(*items):
    for it in items:
        H.update(repr(it).encode())
        H.update(b"|")
    NREC[0] += 1


def rec_array(tag, a):
    if isinstance(a, np.ndarray):
        c = np.asarray(a).astype(np.complex128) + 0.0
        txt = ",".join(
            "%.9e%+.9ej" % (v.real + 0.0, v.imag + 0.0) for v in c.ravel()
        )
        rec(tag, str(a.dtype), tuple(a.shape), txt)
    else:
        rec(tag, type(a).__name__, repr(a))


def exc_chain(e):
    names = []
    while e is not None:
        names.append(type(e).__name__)
        e = e.__cause__
    return tuple(names)


def call(tag, A, x):
    """Apply A to x (twice), record result, and the input after the call."""
    x0 = x.copy()
    for rep in range(2):
        try:
            y = A(x)
            rec_array(tag + "/out%d" % rep, y)
            rec(tag + "/alias", bool(np.shares_memory(y, x)))
        except Exception as e:  # noqa
            rec(tag + "/exc%d" % rep, exc_chain(e))
        rec_array(tag + "/input-after", x)
        rec(tag + "/input-unchanged", bool(np.array_equal(x, x0)))


def randn(rng, shape, dtype):
    if np.issubdtype(dtype, np.complexfloating):
        return (rng.randn(*shape) + 1j * rng.randn(*shape)).astype(dtype)
    return rng.randn(*shape).astype(dtype)


def blocks(rng, kind, shapes):
    """Build one operand per (ishape, oshape-defining) entry."""
    ops = []
    for n, shape in enumerate(shapes):
        if kind == "identity":
            ops.append(linop.Identity(shape))
        elif kind == "multiply_real":
            ops.append(linop.Multiply(shape, rng.randn(*shape)))
        elif kind == "multiply_complex":
            ops.append(
                linop.Multiply(shape, rng.randn(*shape) + 1j * rng.randn(*shape))
            )
        elif kind == "mixed":
            # real op, complex op, FFT, scaled op ... -> mixed output dtypes
            choice = n % 4
            if choice == 0:
                ops.append(linop.Identity(shape))
            elif choice == 1:
                ops.append(linop.FFT(shape))
            elif choice == 2:
                ops.append(linop.Multiply(shape, rng.randn(*shape) * 1j))
            else:
                ops.append((2 - 1j) * linop.Circshift(shape, [1], axes=[-1]))
        elif kind == "sum_last":
            # changes ndim: ishape ndim = oshape ndim + 1
            ops.append(linop.Sum(shape, [-1]))
        elif kind == "reshape_up":
            # changes ndim: oshape ndim = ishape ndim + 1
            ops.append(linop.Reshape([1] + list(shape), shape))
    return ops


def main():
    rng = np.random.RandomState(1234)
    dtypes = [np.float32, np.float64, np.complex64, np.complex128]

    # ---- Vstack / Hstack: operands share ishape (V) / oshape (H) ----------
    same = [
        ([5], 1),
        ([5], 2),
        ([5], 3),
        ([1], 4),
        ([3, 4], 2),
        ([3, 4], 3),
        ([2, 1, 3], 4),
        ([2, 3, 1], 3),
    ]
    for shape, nops in same:
        for kind in ["identity", "multiply_real", "multiply_complex", "mixed"]:
            ops = blocks(rng, kind, [shape] * nops)
            axes = [None] + list(range(-len(shape), len(shape)))
            for axis in axes:
                tag = "same/%s/%s/%d/%s" % (kind, shape, nops, axis)
                for cls in [linop.Vstack, linop.Hstack]:
                    try:
                        A = cls(ops, axis=axis)
                    except Exception as e:  # noqa
                        rec(tag, cls.__name__, "ctor-exc", exc_chain(e))
                        continue
                    rec(tag, cls.__name__, A.ishape, A.oshape, repr(A))
                    rec(tag, "indices", [int(i) for i in A.indices])
                    for dtype in dtypes:
                        t = tag + "/" + cls.__name__ + "/" + dtype.__name__
                        call(t + "/A", A, randn(rng, A.ishape, dtype))
                        call(t + "/AH", A.H, randn(rng, A.oshape, dtype))
                        call(t + "/AHH", A.H.H, randn(rng, A.ishape, dtype))
                        call(t + "/AN", A.N, randn(rng, A.ishape, dtype))
                    # non-contiguous / aliasing input views
                    big = randn(rng, [2 * s for s in A.ishape], np.complex128)
                    view = big[tuple(slice(None, None, 2) for _ in A.ishape)]
                    call(tag + "/" + cls.__name__ + "/view", A, view)
                    # wrong shapes
                    bad = randn(rng, [s + 1 for s in A.ishape], np.float64)
                    call(tag + "/" + cls.__name__ + "/bad", A, bad)
                    rec(
                        tag,
                        "pickle",
                        repr(pickle.loads(pickle.dumps(A))) == repr(A),
                    )

    # ---- operands of different sizes along the stacking axis --------------
    diff = [
        (0, [[2, 3], [4, 3], [1, 3]]),
        (-2, [[2, 3], [4, 3], [1, 3], [3, 3]]),
        (1, [[2, 1], [2, 4], [2, 2]]),
        (-1, [[2, 1], [2, 4], [2, 2]]),
        (None, [[2, 3], [4], [1, 1, 5]]),
        (0, [[2, 3], [4, 2]]),  # invalid: other axes differ
        (0, [[2, 3], [4]]),  # invalid: ndim differs
        (2, [[2, 3], [2, 3]]),  # axis out of range wraps around
    ]
    for axis, shapes in diff:
        for kind in ["multiply_complex", "mixed", "sum_last", "reshape_up"]:
            tag = "diff/%s/%s/%s" % (kind, shapes, axis)
            try:
                ops = blocks(rng, kind, shapes)
            except Exception as e:  # noqa
                rec(tag, "block-exc", exc_chain(e))
                continue
            for oaxis, iaxis in [(axis, axis), (None, axis), (axis, None)]:
                if iaxis is not None and oaxis is not None and iaxis < 0:
                    pairs = [(oaxis, iaxis), (oaxis, -1), (-1, iaxis)]
                else:
                    pairs = [(oaxis, iaxis)]
                for oa, ia in pairs:
                    t = tag + "/Diag/%s/%s" % (oa, ia)
                    try:
                        A = linop.Diag(ops, oaxis=oa, iaxis=ia)
                    except Exception as e:  # noqa
                        rec(t, "ctor-exc", exc_chain(e))
                        continue
                    rec(t, A.ishape, A.oshape, repr(A))
                    rec(t, [int(i) for i in A.iindices])
                    rec(t, [int(i) for i in A.oindices])
                    for dtype in dtypes:
                        td = t + "/" + dtype.__name__
                        call(td + "/A", A, randn(rng, A.ishape, dtype))
                        call(td + "/AH", A.H, randn(rng, A.oshape, dtype))
                        call(td + "/AHH", A.H.H, randn(rng, A.ishape, dtype))
                    bad = randn(rng, [s + 1 for s in A.ishape], np.float64)
                    call(t + "/bad", A, bad)

            # Hstack of the adjoints / Vstack of the operators where valid
            for cls, use_adj in [(linop.Vstack, False), (linop.Hstack, True)]:
                t = tag + "/" + cls.__name__
                try:
                    A = cls([op.H for op in ops] if use_adj else ops, axis=axis)
                except Exception as e:  # noqa
                    rec(t, "ctor-exc", exc_chain(e))
                    continue
                rec(t, A.ishape, A.oshape, [int(i) for i in A.indices])
                for dtype in dtypes:
                    td = t + "/" + dtype.__name__
                    call(td + "/A", A, randn(rng, A.ishape, dtype))
                    call(td + "/AH", A.H, randn(rng, A.oshape, dtype))

    # ---- users of the stacks in the library --------------------------------
    for shape in [[8], [3, 4], [2, 3, 4]]:
        for axes in [None, [-1], [0, -1]]:
            G = linop.FiniteDifference(shape, axes=axes)
            t = "fd/%s/%s" % (shape, axes)
            rec(t, G.ishape, G.oshape)
            for dtype in dtypes:
                call(t + "/G/" + dtype.__name__, G, randn(rng, G.ishape, dtype))
                call(
                    t + "/GH/" + dtype.__name__,
                    G.H,
                    randn(rng, G.oshape, dtype),
                )

    print("records:", NREC[0])
    print("digest:", H.hexdigest())


if __name__ == "__main__":
    main()
