"""C02 / round 3 / near-miss n1: equivalence demonstration.

Exercises sigpy.nufft / sigpy.nufft_adjoint / linop.NUFFT (+ .H, .N, toeplitz)
on a spread of inputs and prints one SHA256 digest of
  * all results (values rounded to 10 significant digits, dtype, shape),
  * exception type names for invalid inputs,
  * the caller's arrays (input and coordinates) after every call.
The digest must be identical on the pristine and on the changed tree.
"""
import hashlib
import warnings

import numpy as np

import sigpy as sp
from sigpy import fourier, linop

warnings.simplefilter("ignore")

H = hashlib.sha256()


def _fmt(v):
    return "%.9e" % (float(v) + 0.0)


def put(tag, obj):
    if isinstance(obj, np.ndarray):
        a = np.ascontiguousarray(obj)
        H.update(("%s|%s|%s|" % (tag, a.dtype, a.shape)).encode())
        if np.iscomplexobj(a):
            flat = a.ravel()
            s = ",".join(_fmt(z.real) + "/" + _fmt(z.imag) for z in flat)
        else:
            s = ",".join(_fmt(z) for z in a.ravel())
        H.update(s.encode())
    else:
        H.update(("%s|%r" % (tag, obj)).encode())
    H.update(b"\n")


def call(tag, f, *args, **kw):
    """Call f, record result or exception type, record args afterwards."""
    try:
        out = f(*args, **kw)
        put(tag + ":out", out)
    except Exception as e:  # noqa
        names = [type(e).__name__]
        c = e.__cause__
        while c is not None:
            names.append(type(c).__name__)
            c = c.__cause__
        put(tag + ":exc", ">".join(names))
        out = None
    for k, a in enumerate(args):
        if isinstance(a, np.ndarray):
            put(tag + ":arg%d" % k, a)
    return out


def rand(rng, shape, dtype):
    if np.issubdtype(dtype, np.complexfloating):
        return (rng.randn(*shape) + 1j * rng.randn(*shape)).astype(dtype)
    return rng.randn(*shape).astype(dtype)


def main():
    rng = np.random.RandomState(11)
    dtypes = [np.complex128, np.complex64, np.float64, np.float32]
    configs = [
        # (image shape, ndim, npts-shape, oversamp, width)
        ([6], 1, (7,), 1.25, 4),
        ([5], 1, (4,), 2, 3),
        ([1], 1, (3,), 1.25, 4),
        ([7], 1, (5,), 1.0, 4),
        ([2, 5], 1, (6,), 1.25, 4),
        ([4, 5], 2, (9,), 1.25, 4),
        ([3, 4, 6], 2, (2, 5), 1.5, 3),
        ([1, 3, 1], 2, (4,), 1.25, 4),
        ([3, 4, 5], 3, (6,), 1.25, 2),
        ([2, 2, 3, 3], 3, (5,), 1.0, 4),
    ]
    for ci, (ishape, ndim, pshape, osf, w) in enumerate(configs):
        ext = np.array(ishape[-ndim:], float)
        for cdt in [np.float64, np.float32]:
            coord = (
                (rng.rand(*(pshape + (ndim,))) - 0.5) * ext
            ).astype(cdt)
            for dt in dtypes:
                tag = "c%d/%s/%s" % (ci, np.dtype(cdt), np.dtype(dt))
                x = rand(rng, ishape, dt)
                y = call(tag + "/nufft", sp.nufft, x, coord, osf, w)
                # same array again (repeated call), and a strided view
                call(tag + "/nufft2", sp.nufft, x, coord, osf, w)
                xv = rand(rng, [2 * s for s in ishape], dt)[
                    tuple(slice(None, None, 2) for _ in ishape)
                ]
                call(tag + "/nufft_view", sp.nufft, xv, coord, osf, w)
                xt = np.asfortranarray(x)
                call(tag + "/nufft_F", sp.nufft, xt, coord, osf, w)
                if y is not None:
                    call(
                        tag + "/adj",
                        sp.nufft_adjoint,
                        y,
                        coord,
                        ishape,
                        osf,
                        w,
                    )
                    call(
                        tag + "/adj_noshape",
                        sp.nufft_adjoint,
                        y.reshape((-1,) + pshape)[0],
                        coord,
                        None,
                        osf,
                        w,
                    )

        # Linop: apply, apply again, adjoint, normal (incl. toeplitz)
        coord = (rng.rand(*(pshape + (ndim,))) - 0.5) * ext
        for toep in [False, True]:
            A = linop.NUFFT(ishape, coord, oversamp=osf, width=w, toeplitz=toep)
            x = rand(rng, ishape, np.complex128)
            tag = "c%d/linop/toep%d" % (ci, toep)
            y1 = call(tag + "/A", A, x)
            call(tag + "/A_again", A, x)
            call(tag + "/AH", A.H, y1)
            call(tag + "/N", A.N, x)
            call(tag + "/AHH", A.H.H, x)
            a = 0.3 - 0.8j
            z = rand(rng, ishape, np.complex128)
            call(tag + "/lin", lambda u, v: A(a * u + v) - a * A(u) - A(v), x, z)
            put(tag + "/coord_after", coord)

    # aliasing: the coordinate array is also the data
    c = (rng.rand(5, 1) - 0.5) * 5
    call("alias/coord_is_input", sp.nufft, c[:, 0], c)

    # invalid inputs: exception types must be the same
    xi = np.arange(6)
    cc = (rng.rand(4, 1) - 0.5) * 6
    call("bad/int_input", sp.nufft, xi, cc)
    call("bad/bool_input", sp.nufft, xi > 2, cc)
    call("bad/ndim_too_big", sp.nufft, rand(rng, [6], np.complex128),
         (rng.rand(4, 2) - 0.5))
    call("bad/zero_d", sp.nufft, np.array(1.0 + 0j), cc)
    call("bad/linop_shape", linop.NUFFT([6], cc), rand(rng, [5], np.complex128))
    ro = rand(rng, [6], np.complex128)
    ro.setflags(write=False)
    call("readonly", sp.nufft, ro, cc)
    call("empty_pts", sp.nufft, rand(rng, [6], np.complex128), np.zeros((0, 1)))
    # helper used in place by nufft_adjoint
    t = rand(rng, [3, 4], np.complex128)
    r = call("apodize/inplace", fourier._apodize, t, 2, 1.25, 4, 5.0)
    put("apodize/returns_arg", r is t)

    print(H.hexdigest())


if __name__ == "__main__":
    main()
