"""C19 / near-miss n1: equivalence digest for optcont.blochsim and sim.abrm_hp.

Prints a SHA256 digest over all results (10 significant digits), dtypes,
shapes, exception types, and the state of the caller's input arrays after
each call.  Must be identical on the pristine and on the changed tree.
"""
import hashlib
import warnings

import numpy as np

from sigpy.mri.rf import optcont, sim

warnings.simplefilter("ignore")
H = hashlib.sha256()


def put(tag, obj):
    H.update(tag.encode())
    if isinstance(obj, BaseException):
        H.update(("EXC:" + type(obj).__name__).encode())
        return
    if isinstance(obj, (tuple, list)):
        H.update(("SEQ%d" % len(obj)).encode())
        for i, o in enumerate(obj):
            put("%s[%d]" % (tag, i), o)
        return
    if obj is None:
        H.update(b"None")
        return
    arr = np.asarray(obj)
    H.update(("%s|%s|%s|" % (type(obj).__name__, arr.dtype, arr.shape))
             .encode())
    flat = arr.ravel()
    if np.iscomplexobj(flat):
        vals = np.concatenate([flat.real, flat.imag])
    else:
        vals = flat
    for v in vals:
        try:
            H.update(("%.9e," % v).encode())
        except TypeError:
            H.update((repr(v) + ",").encode())


def call(tag, fn, *args):
    try:
        out = fn(*args)
    except Exception as e:  # noqa
        out = e
    put(tag + ":out", out)
    for i, a in enumerate(args):
        if isinstance(a, np.ndarray):
            put(tag + ":arg%d" % i, a)
    return out


def main():
    rng = np.random.default_rng(20261005)
    n = 0
    # ---- blochsim --------------------------------------------------------
    for rdt in (np.complex128, np.complex64, np.float64, np.float32,
                np.int64):
        for nt in (1, 2, 7, 64, 256):
            for scale in (0.0, 0.03, 1.0, 4.0):
                for ndim in (0, 1, 2, 3):
                    for xdt in (np.float64, np.float32):
                        if (nt > 7 and (scale in (0.0, 1.0) or
                                        xdt is np.float32)):
                            continue
                        rf = scale * (rng.normal(size=nt)
                                      + 1j * rng.normal(size=nt))
                        if np.dtype(rdt).kind == "c":
                            rf = rf.astype(rdt)
                        elif np.dtype(rdt).kind == "f":
                            rf = rf.real.astype(rdt)
                        else:
                            rf = np.round(rf.real * 2).astype(rdt)
                        ns = int(rng.integers(1, 9))
                        if ndim == 0:
                            x = rng.uniform(-3, 3, ns).astype(xdt)
                            g = rng.normal(size=nt)
                        else:
                            x = rng.uniform(-3, 3, (ns, ndim)).astype(xdt)
                            g = rng.normal(size=(nt, ndim))
                        tag = "bs%d" % n
                        n += 1
                        call(tag, optcont.blochsim, rf, x, g)
                        call(tag + "r", optcont.blochsim, rf, x, g)  # repeat
                        call(tag + "hp", sim.abrm_hp, rf,
                             g if ndim == 0 else g[:, 0],
                             x if ndim == 0 else x[:, 0], 0.0)
    # integer / unusual position and gradient arrays
    rf = np.array([0.3 + 0.1j, -0.2j, 1.5, 0.0, -3.3])
    call("int-x", optcont.blochsim, rf, np.arange(-2, 3), np.arange(5))
    call("int-x2", optcont.blochsim, rf, np.arange(6).reshape(3, 2),
         np.arange(10).reshape(5, 2))
    call("f32-g", optcont.blochsim, rf, np.linspace(-1, 1, 4),
         np.linspace(0, 1, 5).astype(np.float32))
    call("cplx-x", optcont.blochsim, rf, np.linspace(-1, 1, 4) * (1 + 0.1j),
         np.ones(5))
    call("size1", optcont.blochsim, np.array([2.0j]), np.array([0.7]),
         np.array([1.3]))
    call("g-longer", optcont.blochsim, rf[:3], np.linspace(-1, 1, 4),
         np.ones(5))
    call("nan", optcont.blochsim, np.array([np.nan, 1.0]), np.ones(2),
         np.ones(2))
    call("empty-rf", optcont.blochsim, np.zeros(0), np.ones(3), np.zeros(0))
    # aliasing between arguments
    v = np.linspace(-1.5, 1.5, 5)
    call("alias-xg", optcont.blochsim, rf, v, v)
    call("alias-rfg", optcont.blochsim, v, np.linspace(0, 1, 3), v)
    call("alias-all", optcont.blochsim, v, v, v)
    call("alias-hp", sim.abrm_hp, v, v, v, 0.2)
    w = np.linspace(-1, 1, 10)
    call("overlap", optcont.blochsim, w[:6], w[2:8], w[4:])
    # invalid inputs
    call("bad-short-g", optcont.blochsim, rf, np.ones(3), np.ones(4))
    call("bad-dims", optcont.blochsim, rf, np.ones((3, 2)), np.ones((5, 3)))
    call("bad-glist", optcont.blochsim, rf, np.ones(3), [1, 1, 1, 1, 1])
    call("bad-rfscalar", optcont.blochsim, np.float64(1.0), np.ones(3),
         np.ones(1))
    call("bad-rfnone", optcont.blochsim, None, np.ones(3), np.ones(1))
    call("bad-x0d", optcont.blochsim, rf, np.float64(1.0), np.ones(5))
    call("rf-list", optcont.blochsim, [0.1, 0.2], np.ones(3), np.ones(2))
    call("rf-2d", optcont.blochsim, np.ones((2, 2)) * 0.3, np.ones(3),
         np.ones(4))
    # ---- abrm_hp specifics -----------------------------------------------
    for k, dom in enumerate((0, 0.37, -2.0, np.float32(0.5),
                             np.linspace(-1, 1, 6), 0.1 + 0.2j)):
        rf = (rng.normal(size=9) + 1j * rng.normal(size=9)) * (1 + k)
        g = rng.normal(size=9)
        xx = np.linspace(-2, 2, 6)
        call("hp-dom%d" % k, sim.abrm_hp, rf, g, xx, dom)
        call("hp-dom%d-c64" % k, sim.abrm_hp, rf.astype(np.complex64),
             g.astype(np.float32), xx.astype(np.float32), dom)
        call("hp-dom%d-real" % k, sim.abrm_hp, rf.real, g, xx, dom)
    rf = np.array([0.3 + 0.1j, -0.2j, 1.5, 0.0, -3.3])
    call("hp-default", sim.abrm_hp, rf, np.ones(5), np.linspace(-1, 1, 3))
    call("hp-g2d", sim.abrm_hp, rf, np.ones((5, 1)), np.linspace(-1, 1, 3))
    call("hp-g2d2", sim.abrm_hp, rf, np.ones((5, 3)), np.linspace(-1, 1, 3))
    call("hp-x2d", sim.abrm_hp, rf, np.ones(5), np.ones((3, 1)))
    call("hp-rf-long", sim.abrm_hp, np.r_[rf, rf], np.ones(5), np.ones(2))
    call("hp-rf-short", sim.abrm_hp, rf[:2], np.ones(5), np.ones(2))
    call("hp-int", sim.abrm_hp, np.array([1, 0, -2]), np.array([1, 2, 3]),
         np.array([0, 1]))
    call("hp-empty", sim.abrm_hp, np.zeros(0), np.zeros(0), np.ones(2))
    call("hp-bad-x0d", sim.abrm_hp, rf, np.ones(5), 1.0)
    call("hp-bad-glist", sim.abrm_hp, rf, [1, 1, 1, 1, 1], np.ones(2))
    call("hp-bad-none", sim.abrm_hp, None, np.ones(5), np.ones(2))
    call("hp-bad-bcast", sim.abrm_hp, rf, np.ones((5, 4)), np.ones(3))
    print("calls:", n)
    print("DIGEST", H.hexdigest())


if __name__ == "__main__":
    main()
