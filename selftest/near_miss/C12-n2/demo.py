"""C12 near-miss equivalence demonstration (used for n1 and n2).

Runs sigpy.alg.ConjugateGradient over a spread of configurations and prints a
SHA256 digest of everything observable: every iterate, the solver's internal
r / p / rzold / resid / alpha / iter / done() / not_positive_definite after
every update, dtypes and shapes, aliasing relations (p is r?), exception types
for invalid inputs, and digests of all caller-owned arrays after the run.
Values are rounded to 10 significant digits before hashing.
"""
import hashlib
import sys
import warnings

import numpy as np

import sigpy as sp
from sigpy import alg

warnings.simplefilter("ignore")
H = hashlib.sha256()
NREC = [0]


def rnd(a):
    a = np.asarray(a)
    if a.dtype.kind == "c":
        return rnd(a.real) + 1j * rnd(a.imag)
    if a.dtype.kind != "f":
        return a
    a = a.astype(np.float64)
    out = np.zeros_like(a)
    ok = np.isfinite(a) & (a != 0)
    mag = np.floor(np.log10(np.abs(a[ok])))
    sc = 10.0 ** (9 - mag)
    out[ok] = np.round(a[ok] * sc) / sc
    out[~np.isfinite(a)] = a[~np.isfinite(a)]
    return out + 0.0  # normalise -0.0


def rec(tag, v=None):
    NREC[0] += 1
    H.update(tag.encode())
    if v is None:
        return
    if isinstance(v, (str, bool, int, type(None))):
        H.update(repr(v).encode())
        return
    a = np.asarray(v)
    H.update(str(a.dtype).encode())
    H.update(str(a.shape).encode())
    r = np.ascontiguousarray(rnd(a))
    H.update(repr(r.tolist()).encode())


def state(cg, tag):
    rec(tag + "/x", cg.x)
    rec(tag + "/r", cg.r)
    rec(tag + "/p", cg.p)
    rec(tag + "/rzold", cg.rzold)
    rec(tag + "/rzold_t", type(cg.rzold).__name__)
    rec(tag + "/resid", cg.resid)
    rec(tag + "/resid_t", type(cg.resid).__name__)
    rec(tag + "/alpha", getattr(cg, "alpha", None))
    rec(tag + "/iter", cg.iter)
    rec(tag + "/npd", bool(cg.not_positive_definite))
    rec(tag + "/done", bool(cg.done()))
    rec(tag + "/p_is_r", cg.p is cg.r)
    rec(tag + "/shares", bool(np.shares_memory(cg.p, cg.r)))


def run(tag, A, b, x, owned, mode="done", nfixed=0, **kw):
    """Run one configuration, recording everything (or the exception)."""
    try:
        cg = alg.ConjugateGradient(A, b, x, **kw)
        rec(tag + "/x_is_x", cg.x is x)
        state(cg, tag + "/init")
        k = 0
        if mode == "done":
            while not cg.done():
                cg.update()
                k += 1
                state(cg, tag + "/u%d" % k)
                if k > 80:
                    break
        else:
            for _ in range(nfixed):
                cg.update()
                k += 1
                state(cg, tag + "/u%d" % k)
    except Exception as e:  # noqa
        rec(tag + "/EXC", type(e).__name__)
    for i, o in enumerate(owned):
        rec(tag + "/owned%d" % i, o)


def herm(n, ev, rng, cplx, dtype):
    if cplx:
        Q, _ = np.linalg.qr(
            rng.standard_normal((n, n)) + 1j * rng.standard_normal((n, n))
        )
    else:
        Q, _ = np.linalg.qr(rng.standard_normal((n, n)))
    M = (Q * ev) @ Q.conj().T
    return ((M + M.conj().T) / 2).astype(dtype)


def vec(n, rng, dtype, shape=None):
    v = rng.standard_normal(n)
    if np.dtype(dtype).kind == "c":
        v = v + 1j * rng.standard_normal(n)
    v = v.astype(dtype)
    return v if shape is None else v.reshape(shape)


class MatVec(sp.linop.Linop):
    def __init__(self, M, shape):
        self.M = M
        super().__init__(shape, shape)

    def _apply(self, input):
        return (self.M @ input.reshape(-1)).reshape(input.shape)

    def _adjoint_linop(self):
        return self


def main():
    rng = np.random.default_rng(31212)
    dtypes = [np.float64, np.complex128, np.float32, np.complex64]
    case = 0
    # ---- main sweep -----------------------------------------------------
    for dt in dtypes:
        cplx = np.dtype(dt).kind == "c"
        for n in (1, 2, 5, 12):
            ev = np.logspace(0, 3 if n > 2 else 1, n)
            M = herm(n, ev, rng, cplx, dt)
            pdiag = (1.0 / np.real(np.diag(M))).astype(
                np.float32 if dt in (np.float32, np.complex64) else np.float64
            )
            Pd = herm(n, np.linspace(0.5, 2.0, n), rng, cplx, dt)
            for shape in ((n,), (n, 1)) + (((3, 4),) if n == 12 else ()):
                b = vec(n, rng, dt, shape)
                for x0kind in ("zero", "rand"):
                    for pk in ("none", "diagfn", "linop", "densebuf"):
                        for ak in ("fn", "linop", "fnbuf"):
                            for mi in (0, 1, 2, n, n + 3):
                                # thin the sweep deterministically
                                case += 1
                                if (case * 7 + mi) % 5 not in (0, 1):
                                    continue
                                tol = (0, 1e-3)[case % 2]
                                x = (
                                    np.zeros(shape, dt)
                                    if x0kind == "zero"
                                    else vec(n, rng, dt, shape)
                                )
                                abuf = np.zeros(shape, dt)
                                pbuf = np.zeros(shape, dt)
                                if ak == "fn":
                                    A = lambda v, M=M: (  # noqa
                                        M @ v.reshape(-1)
                                    ).reshape(v.shape)
                                elif ak == "linop":
                                    A = MatVec(M, list(shape))
                                else:

                                    def A(v, M=M, abuf=abuf):
                                        abuf[...] = (M @ v.reshape(-1)).reshape(
                                            v.shape
                                        )
                                        return abuf

                                if pk == "none":
                                    P = None
                                elif pk == "diagfn":
                                    P = lambda r, d=pdiag: (  # noqa
                                        d * r.reshape(-1)
                                    ).reshape(r.shape)
                                elif pk == "linop":
                                    P = sp.linop.Multiply(
                                        list(shape), pdiag.reshape(shape)
                                    )
                                else:

                                    def P(r, Pd=Pd, pbuf=pbuf):
                                        pbuf[...] = (Pd @ r.reshape(-1)).reshape(
                                            r.shape
                                        )
                                        return pbuf

                                tag = "c%d" % case
                                mode = "done" if case % 3 else "fixed"
                                run(
                                    tag,
                                    A,
                                    b,
                                    x,
                                    [b, x, M, pdiag, Pd],
                                    mode=mode,
                                    nfixed=mi + 2,
                                    P=P,
                                    max_iter=mi,
                                    tol=tol,
                                )

    # ---- special situations ---------------------------------------------
    for dt in (np.float64, np.complex128):
        cplx = np.dtype(dt).kind == "c"
        n = 6
        # indefinite / semidefinite: breakdown guard
        for ev in (
            np.array([-3.0, -1.0, 1.0, 2.0, 3.0, 4.0]),
            np.array([0.0, 0.0, 1.0, 2.0, 3.0, 4.0]),
            -np.linspace(1, 2, n),
        ):
            M = herm(n, ev, rng, cplx, dt)
            b = vec(n, rng, dt)
            x = np.zeros(n, dt)
            run("indef", lambda v, M=M: M @ v, b, x, [b, x, M], max_iter=20)
            x = vec(n, rng, dt)
            run(
                "indefP",
                lambda v, M=M: M @ v,
                b,
                x,
                [b, x, M],
                mode="fixed",
                nfixed=8,
                P=lambda r: 0.5 * r,
                max_iter=20,
            )
        M = herm(n, np.linspace(1, 50, n), rng, cplx, dt)
        A = lambda v, M=M: M @ v  # noqa
        # b == 0 and exact initial guess (r == 0 exactly), updates forced
        b = np.zeros(n, dt)
        x = np.zeros(n, dt)
        run("zero", A, b, x, [b, x], mode="fixed", nfixed=3, max_iter=5)
        run("zero_d", A, b, x, [b, x], max_iter=5)
        # x aliases b
        b = vec(n, rng, dt)
        run("alias", A, b, b, [b], max_iter=n)
        # warm restart on the same arrays, repeated calls
        b = vec(n, rng, dt)
        x = np.zeros(n, dt)
        for rep in range(3):
            run("rep%d" % rep, A, b, x, [b, x], max_iter=2)
        # non-contiguous caller array
        big = np.zeros((n, 3), dt)
        xv = big[:, 1]
        run("noncontig", A, b, xv, [b, big], max_iter=n)
        bigb = np.asfortranarray(vec(2 * n, rng, dt).reshape(n, 2))
        run("noncontig_b", A, bigb[:, 0], np.zeros(n, dt), [bigb], max_iter=n)
        # mixed precision / mixed kind
        x32 = np.zeros(n, np.complex64 if cplx else np.float32)
        run("mixed32", A, b, x32, [b, x32], max_iter=n)
        xc = np.zeros(n, np.complex128)
        run("xcomplex", A, b, xc, [b, xc], max_iter=n)
        b32 = vec(n, rng, np.float32)
        xx = np.zeros(n, dt)
        run("b32", A, b32, xx, [b32, xx], max_iter=n, P=lambda r: r)
        # P that returns its argument / a view of it
        x = np.zeros(n, dt)
        run("Pident", A, b, x, [b, x], P=lambda r: r, max_iter=4)
        x = np.zeros(n, dt)
        run("Pident1", A, b, x, [b, x], P=lambda r: r, max_iter=1)
        x = np.zeros(n, dt)
        run("Pview", A, b, x, [b, x], P=lambda r: r[...], max_iter=3)
        # negative / huge tol, float max_iter
        x = np.zeros(n, dt)
        run("tolneg", A, b, x, [b, x], max_iter=4, tol=-1.0)
        x = np.zeros(n, dt)
        run("tolbig", A, b, x, [b, x], max_iter=4, tol=1e9)
        x = np.zeros(n, dt)
        run("mifloat", A, b, x, [b, x], max_iter=2.5)
        # updates beyond max_iter
        x = np.zeros(n, dt)
        run("over", A, b, x, [b, x], mode="fixed", nfixed=6, max_iter=3)
        # invalid inputs -> exception types
        xr = np.zeros(n, np.float64)
        bc = vec(n, rng, np.complex128)
        run("bad_real_x", A, bc, xr, [bc, xr], max_iter=3)
        xi = np.zeros(n, np.int64)
        run("bad_int_x", A, b, xi, [b, xi], max_iter=3)
        run("bad_shape", A, b, np.zeros(n + 1, dt), [b], max_iter=3)
        x = np.zeros(n, dt)
        run("bad_P", A, b, x, [b, x], P=lambda r: r[:-1], max_iter=3)
        x = np.zeros(n, dt)
        run("bad_P1", A, b, x, [b, x], P=lambda r: r[:-1], max_iter=1)
        x = np.zeros(n, dt)
        run("bad_mi", A, b, x, [b, x], max_iter=None)
        x = np.zeros(n, dt)
        run("bad_A", lambda v: None, b, x, [b, x], max_iter=3)
        run("bad_list", A, list(b), list(x), [], max_iter=3)

        def Araise(v, c=[0]):
            c[0] += 1
            if c[0] == 3:
                raise RuntimeError("boom")
            return M @ v

        x = np.zeros(n, dt)
        run("A_raises", Araise, b, x, [b, x], max_iter=5)

    print("records:", NREC[0])
    print("DIGEST", H.hexdigest())
    return 0


if __name__ == "__main__":
    sys.exit(main())
