"""C10 near-miss equivalence demo (used for n1 and n2).

Exercises sigpy.wavelet.{get_wavelet_shape, fwt, iwt} and
sigpy.linop.{Wavelet, InverseWavelet} (apply, .H, .H.H, .N, repr/pickle,
attributes changed after construction) on a spread of inputs and prints ONE
SHA256 digest over: values rounded to 10 significant digits, dtypes, shapes,
memory-aliasing relations between result and argument, exception type names
for invalid inputs, and the caller's input arrays after each call.
The digest must be identical on the pristine and on the changed tree.
"""
import hashlib
import pickle
import sys
import warnings

import numpy as np

import sigpy as sp
from sigpy import wavelet

warnings.simplefilter("ignore")

H = hashlib.sha256()
NREC = [0]


def rec(*items):
    NREC[0] += 1
    for it in items:
        H.update(repr(it).encode())
        H.update(b"|")
    H.update(b"\n")


def r10(a):
    a = np.asarray(a)
    if a.dtype.kind == "c":
        return [r10(a.real), r10(a.imag)]
    if a.dtype.kind in "biu":
        return a.astype(np.int64).ravel().tolist()
    if a.dtype.kind not in "f":
        return repr(a.ravel().tolist())
    a = a.astype(np.float64).ravel()
    out = []
    for v in a:
        s = "%.9e" % v  # 10 significant digits
        if float(s) == 0.0:
            s = "0"
        out.append(s)
    return out


def rec_arr(tag, a):
    if isinstance(a, np.ndarray):
        rec(tag, "nd", str(a.dtype), tuple(a.shape), r10(a))
    else:
        rec(tag, type(a).__name__, repr(a))


def rec_slices(tag, sl):
    rec(tag, repr(sl))


def call(tag, f, *args, **kw):
    try:
        out = f(*args, **kw)
    except Exception as e:  # noqa
        rec(tag, "EXC", type(e).__name__)
        return None
    return out


def make(rng, shape, dtype, layout):
    dtype = np.dtype(dtype)
    if dtype.kind == "c":
        x = rng.randn(*shape) + 1j * rng.randn(*shape)
    elif dtype.kind in "iu":
        x = rng.randint(-9, 10, size=shape)
    elif dtype.kind == "b":
        x = rng.randn(*shape) > 0
    else:
        x = rng.randn(*shape)
    x = np.asarray(x).astype(dtype)
    if layout == "F":
        x = np.asfortranarray(x)
    elif layout == "strided" and x.ndim >= 1 and x.shape[-1] > 0:
        big = np.zeros(x.shape[:-1] + (2 * x.shape[-1],), dtype=dtype)
        big[..., ::2] = x
        x = big[..., ::2]
    elif layout == "rev" and x.ndim >= 1:
        x = x[::-1]
    elif layout == "ro":
        x.setflags(write=False)
    return x


def alias_info(out, x):
    if not isinstance(out, np.ndarray):
        return "n/a"
    return (out is x, bool(np.shares_memory(out, x)), out.base is x,
            bool(out.flags.writeable), bool(out.flags.owndata))


def main():
    rng = np.random.RandomState(20240611)

    shapes = [(8,), (9,), (1,), (2,), (3,), (16,), (17,), (13,), (7,),
              (6, 6), (7, 5), (8, 5), (1, 9), (9, 1), (3, 1, 5),
              (4, 6, 4), (5, 4, 3), (0,), (0, 3), (3, 0), ()]
    waves = ["db4", "haar", "db2", "sym3", "coif1"]
    levels = [None, 0, 1, 2, 3]
    dtypes = ["float64", "float32", "complex128", "complex64", "int32",
              "bool", "float16"]
    layouts = ["C", "F", "strided", "rev", "ro"]

    k = 0
    for shape in shapes:
        nd = len(shape)
        axes_opts = [None]
        if nd >= 1:
            axes_opts += [(0,), (-1,)]
        if nd >= 2:
            axes_opts += [(1,), (-2,), (1, 0), [0, -1]]
        if nd >= 3:
            axes_opts += [(0, 2), (-1, -3)]
        for axes in axes_opts:
            for wi in range(2):
                wave = waves[(k + wi) % len(waves)]
                level = levels[(k + 2 * wi) % len(levels)]
                dtype = dtypes[(k + 3 * wi) % len(dtypes)]
                layout = layouts[(k + wi) % len(layouts)]
                k += 1
                tag = ("fn", shape, wave, repr(axes), level, dtype, layout)
                kw = dict(wave_name=wave, axes=axes, level=level)

                gs = call(tag + ("gws",), wavelet.get_wavelet_shape,
                          list(shape), **kw)
                if gs is not None:
                    rec(tag, "gws", tuple(gs[0]))
                    rec_slices(tag, gs[1])

                x = make(rng, shape, dtype, layout)
                x0 = x.copy()
                c = call(tag + ("fwt",), wavelet.fwt, x, **kw)
                rec_arr(tag + ("fwt",), c)
                rec(tag, "alias", alias_info(c, x))
                rec_arr(tag + ("x after fwt",), x)
                rec(tag, "x unchanged", bool(np.array_equal(x, x0)),
                    str(x.dtype), x.flags.c_contiguous, x.flags.f_contiguous)
                # second call, same input
                c2 = call(tag + ("fwt2",), wavelet.fwt, x, **kw)
                rec_arr(tag + ("fwt2",), c2)

                if c is not None and gs is not None:
                    c0 = np.array(c, copy=True)
                    y = call(tag + ("iwt",), wavelet.iwt, c, shape, gs[1],
                             **kw)
                    rec_arr(tag + ("iwt",), y)
                    rec(tag, "alias iwt", alias_info(y, c))
                    rec(tag, "c unchanged", bool(np.array_equal(c, c0)))
                    # iwt into a different (bigger / smaller / other-ndim)
                    # output shape
                    for oshape in ([s + 1 for s in shape],
                                   [max(s - 1, 0) for s in shape],
                                   [1] + list(shape)):
                        y = call(tag + ("iwt", tuple(oshape)), wavelet.iwt,
                                 c, oshape, gs[1], **kw)
                        rec_arr(tag + ("iwt", tuple(oshape)), y)

                # linear operators
                W = call(tag + ("W",), sp.linop.Wavelet, list(shape),
                         axes=axes, wave_name=wave, level=level)
                V = call(tag + ("V",), sp.linop.InverseWavelet, list(shape),
                         axes=axes, wave_name=wave, level=level)
                if W is None or V is None:
                    continue
                rec(tag, "W", repr(W), list(W.ishape), list(W.oshape),
                    repr(W.axes), W.wave_name, W.level)
                rec(tag, "V", repr(V), list(V.ishape), list(V.oshape),
                    repr(V.axes), V.wave_name, V.level)
                rec_slices(tag, V.coeff_slices)
                rec(tag, "pickle", repr(pickle.loads(pickle.dumps(W))),
                    repr(pickle.loads(pickle.dumps(V))))
                WH = W.H
                rec(tag, "WH", type(WH).__name__, repr(WH), list(WH.ishape),
                    list(WH.oshape), repr(WH.axes), WH.wave_name, WH.level)
                rec_slices(tag, WH.coeff_slices)
                WHH = WH.H
                rec(tag, "WHH", type(WHH).__name__, repr(WHH),
                    list(WHH.ishape), list(WHH.oshape), repr(WHH.axes),
                    WHH.wave_name, WHH.level)
                VH = V.H
                rec(tag, "VH", type(VH).__name__, repr(VH), list(VH.ishape),
                    list(VH.oshape), repr(VH.axes), VH.wave_name, VH.level)

                x = make(rng, shape, dtype, layout)
                x0 = x.copy()
                for name, A in (("W", W), ("WHH", WHH), ("VH", VH),
                                ("W.N", W.N)):
                    out = call(tag + (name, "apply"), A, x)
                    rec_arr(tag + (name, "apply"), out)
                    rec(tag, name, "alias", alias_info(out, x))
                rec(tag, "x unchanged (linop)",
                    bool(np.array_equal(x, x0)))
                cc = call(tag + ("W again",), W, x)
                if cc is not None:
                    cc0 = np.array(cc, copy=True)
                    for name, A in (("WH", WH), ("V", V), ("V.N", V.N),
                                    ("WH*W", WH * W)):
                        arg = x if name == "WH*W" else cc
                        out = call(tag + (name, "apply"), A, arg)
                        rec_arr(tag + (name, "apply"), out)
                        rec(tag, name, "alias", alias_info(out, arg))
                    rec(tag, "cc unchanged", bool(np.array_equal(cc, cc0)))
                # wrong-shaped input
                bad = np.zeros([s + 1 for s in shape] + [2])
                call(tag + ("W bad",), W, bad)
                call(tag + ("V bad",), V, bad)

    # attributes changed after construction are honoured at call time
    for shape, axes in (((8, 6), None), ((9,), None), ((6, 7), (0,))):
        W = sp.linop.Wavelet(shape, axes=axes, wave_name="haar", level=1)
        x = make(rng, shape, "complex128", "C")
        rec_arr(("mut", shape, 0), call(("mut", 0), W, x))
        W.level = 2
        rec_arr(("mut", shape, 1), call(("mut", 1), W, x))
        WH = W.H
        rec(("mut", shape), repr(WH), WH.level, WH.wave_name, repr(WH.axes))
        rec_slices(("mut", shape), WH.coeff_slices)
        W.wave_name = "db2"
        rec_arr(("mut", shape, 2), call(("mut", 2), W, x))
        WH2 = W.H
        rec(("mut", shape), repr(WH2), list(WH2.ishape), list(WH2.oshape))
        rec_arr(("mut", shape, 3), call(("mut", 3), WH2, np.ones(WH2.ishape)))
        W.axes = (-1,)
        rec_arr(("mut", shape, 4), call(("mut", 4), W, x))
        V = sp.linop.InverseWavelet(shape, axes=axes, wave_name="haar",
                                    level=1)
        V.level = 3
        V.wave_name = "sym2"
        VH = V.H
        rec(("mutV", shape), repr(VH), VH.level, VH.wave_name, repr(VH.axes),
            list(VH.ishape), list(VH.oshape))
        rec_arr(("mutV", shape, 0), call(("mutV", 0), V, np.ones(V.ishape)))
        rec_arr(("mutV", shape, 1), call(("mutV", 1), VH, x))

    # invalid arguments
    x = rng.randn(6, 5)
    for kw in (dict(wave_name="nosuchwavelet"), dict(axes=(2,)),
               dict(axes=(0, 0)), dict(level=-1), dict(axes=(-3,)),
               dict(wave_name=None), dict(level=1.5), dict(axes="ab")):
        call(("bad fwt", repr(kw)), wavelet.fwt, x, **kw)
        call(("bad gws", repr(kw)), wavelet.get_wavelet_shape, x.shape, **kw)
        call(("bad W", repr(kw)), sp.linop.Wavelet, x.shape, **kw)
        call(("bad V", repr(kw)), sp.linop.InverseWavelet, x.shape, **kw)
    call(("fwt list",), wavelet.fwt, [[1.0, 2.0, 3.0], [4.0, 5.0, 6.0]])
    call(("fwt scalar",), wavelet.fwt, 3.0)
    call(("fwt none",), wavelet.fwt, None)
    rec_arr(("fwt 0d",), call(("fwt 0d",), wavelet.fwt, np.array(2.5)))
    rec_arr(("fwt obj",), call(("fwt obj",), wavelet.fwt,
                               np.array([1, 2, 3], dtype=object)))
    rec_arr(("fwt str",), call(("fwt str",), wavelet.fwt,
                               np.array(["a", "b", "c"])))

    # a pywt.Wavelet object as wave_name, numpy ints / range as axes
    import pywt
    x = rng.randn(7, 6) + 1j * rng.randn(7, 6)
    for kw in (dict(wave_name=pywt.Wavelet("db3")),
               dict(axes=range(-2, 0)), dict(axes=(np.int64(1),)),
               dict(axes=np.array([0, 1])), dict(axes=1), dict(axes=-1)):
        rec_arr(("odd kw", repr(kw)), call(("odd kw", repr(kw)),
                                           wavelet.fwt, x, **kw))
        W = call(("odd kw W", repr(kw)), sp.linop.Wavelet, x.shape, **kw)
        if W is not None:
            rec(("odd kw W", repr(kw)), list(W.oshape))
            rec_arr(("odd kw W", repr(kw)), call(("odd kw Wx",), W, x))
            rec_arr(("odd kw WHW", repr(kw)),
                    call(("odd kw WHWx",), W.H * W, x))

    print("records: %d" % NREC[0])
    print("DIGEST " + H.hexdigest())
    return 0


if __name__ == "__main__":
    sys.exit(main())
