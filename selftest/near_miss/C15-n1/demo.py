"""C15 / near-miss n1 equivalence demo (PrimalDualHybridGradient step-size helper).

Runs PDHG (directly and through LinearLeastSquares / L2ConstrainedMinimization)
on a spread of configurations and prints a SHA256 digest of everything
observable: iterates after every update, resid, iter, done(), tau/sigma (value,
type, dtype), theta related state, caller-owned arrays after the run and the
exception types raised for invalid configurations.
"""
import hashlib
import sys
import warnings

import numpy as np

from sigpy import alg, app, linop, prox

warnings.simplefilter("ignore")

H = hashlib.sha256()


def rnd(a):
    """Round to 10 significant digits, keep dtype/shape information."""
    a = np.asarray(a)
    out = ["%s%s" % (a.dtype, a.shape)]
    flat = a.ravel()
    if np.iscomplexobj(flat):
        flat = np.stack([flat.real, flat.imag], -1).ravel()
    for v in flat.astype(np.float64):
        out.append("%.9e" % v)
    return "|".join(out)


def put(tag, *vals):
    parts = [tag]
    for v in vals:
        if isinstance(v, (np.ndarray, np.generic, float, int, complex)):
            parts.append(type(v).__name__ + ":" + rnd(v))
        else:
            parts.append(repr(v))
    H.update((";".join(parts) + "\n").encode())


def soft(lam):
    def f(alpha, x):
        mag = np.abs(x)
        return np.where(mag > 0, x / np.where(mag > 0, mag, 1), 0) * np.maximum(
            mag - alpha * lam, 0
        )

    return f


def run_pdhg(tag, dtype, m, n, tau, sigma, gp, gd, theta, max_iter, tol, extra):
    rng = np.random.RandomState(len(tag) + m * 7 + n)
    A = rng.randn(m, n).astype(dtype)
    if np.issubdtype(dtype, np.complexfloating):
        A = A + 1j * rng.randn(m, n).astype(dtype)
    y = (A @ rng.randn(n)).astype(dtype)
    x = np.zeros(n, dtype=dtype)
    u = np.zeros(m, dtype=dtype)
    lam = 0.05
    tau_in = tau.copy() if isinstance(tau, np.ndarray) else tau
    sigma_in = sigma.copy() if isinstance(sigma, np.ndarray) else sigma
    if isinstance(tau, np.ndarray):
        tau_in.setflags(write=tau.flags.writeable)

    def proxfc(s, v):
        return (v - s * y) / (1 + s)

    def proxg(t, v):
        v = soft(lam)(np.max(t) if isinstance(t, np.ndarray) else t, v)
        return (v / (1 + gp * t)).astype(dtype)

    try:
        p = alg.PrimalDualHybridGradient(
            proxfc,
            proxg,
            lambda v: A @ v,
            lambda v: A.conj().T @ v,
            x,
            u,
            tau_in,
            sigma_in,
            theta=theta,
            gamma_primal=gp,
            gamma_dual=gd,
            max_iter=max_iter,
            tol=tol,
        )
        n_upd = 0
        while True:
            d = p.done()
            put(tag + ".state", n_upd, d, p.iter, p.resid, p.x, p.u, p.x_ext)
            put(tag + ".steps", p.tau, p.sigma, type(p.tau).__name__,
                type(p.sigma).__name__, p.theta,
                getattr(p, "tau_min", None), getattr(p, "sigma_min", None))
            if d and n_upd >= min(p.iter, max_iter) + extra:
                break
            if n_upd > max_iter + extra:
                break
            p.update()
            n_upd += 1
        put(tag + ".same", p.x is x, p.u is u, p.tau is tau_in, p.sigma is sigma_in)
    except Exception as e:  # noqa
        put(tag + ".exc", type(e).__name__)
    # caller visible arrays afterwards
    put(tag + ".caller", x, u, tau_in, sigma_in, A, y)


def main():
    k = 0
    for dtype in [np.float64, np.float32, np.complex128, np.complex64]:
        for (gp, gd) in [(0, 0), (0.3, 0), (0, 1), (0.3, 1), (2, 0), (0, 0.01)]:
            for theta in [1, 0.5]:
                for steps in ["float", "int1", "arr", "arr0d", "npfloat"]:
                    m, n = [(6, 4), (3, 5), (1, 1)][k % 3]
                    k += 1
                    if steps == "float":
                        tau, sigma = 0.05, 0.07
                    elif steps == "int1":
                        tau, sigma = 1, 0.001
                    elif steps == "npfloat":
                        tau, sigma = np.float32(0.05), np.float64(0.07)
                    elif steps == "arr0d":
                        tau, sigma = np.array(0.05), np.array(0.07)
                    else:
                        rdt = np.zeros(1, dtype).real.dtype
                        tau = np.linspace(0.02, 0.06, n).astype(rdt)
                        sigma = np.linspace(0.03, 0.08, m).astype(rdt)
                    tag = "pdhg-%s-%s-%s-%s-%s" % (
                        np.dtype(dtype).name, gp, gd, theta, steps)
                    run_pdhg(tag, dtype, m, n, tau, sigma, gp, gd, theta,
                             max_iter=[0, 1, 4, 7][k % 4], tol=0, extra=2)

    # invalid / awkward configurations: integer step arrays cannot be scaled
    # in place, negative gammas, read-only arrays, tol > 0
    ro = np.full(4, 0.05)
    ro.setflags(write=False)
    run_pdhg("int-tau", np.float64, 6, 4, np.array([1, 1, 1, 1]),
             0.01, 0.3, 0, 1, 3, 0, 1)
    run_pdhg("int-sigma", np.float64, 6, 4, 0.01,
             np.array([1, 1, 1, 1, 1, 1]), 0, 1, 1, 3, 0, 1)
    run_pdhg("int-sigma2", np.float64, 6, 4, 0.01,
             np.array([1, 1, 1, 1, 1, 1]), 0.3, 0, 1, 3, 0, 1)
    run_pdhg("ro-tau", np.float64, 6, 4, ro, 0.01, 0.3, 0, 1, 3, 0, 1)
    run_pdhg("ro-tau2", np.float64, 6, 4, ro, 0.01, 0, 1, 1, 3, 0, 1)
    run_pdhg("neg-gp", np.float64, 6, 4, 0.05, 0.05, -1, 0, 1, 3, 0, 1)
    run_pdhg("neg-gd", np.float64, 6, 4, 0.05, 0.05, 0, -1, 1, 3, 0, 1)
    run_pdhg("neg-both", np.float64, 6, 4, 0.05, 0.05, -1, 2, 0.3, 3, 0, 1)
    run_pdhg("tol", np.float64, 6, 4, 0.05, 0.05, 0.3, 0, 1, 50, 1e-3, 1)
    run_pdhg("tol2", np.complex128, 6, 4, 0.05, 0.05, 0, 1, 1, 50, 1e-3, 1)
    run_pdhg("none-theta", np.float64, 6, 4, 0.05, 0.05, 0, 0, None, 3, 0, 1)
    run_pdhg("none-theta2", np.float64, 6, 4, 0.05, 0.05, 0, 1, None, 3, 0, 1)

    # Through the Apps (power method seeded through the global RNG)
    for dtype in [np.float64, np.complex128]:
        for lamda in [0, 0.1]:
            for use_G in [False, True]:
                for use_prox in [False, True]:
                    for steps in [(None, None), (0.1, None), (0.1, 0.2)]:
                        n = 5
                        rng = np.random.RandomState(3)
                        M = (np.eye(n) + 0.1 * rng.randn(n, n)).astype(dtype)
                        A = linop.MatMul([n, 1], M)
                        y = (M @ np.arange(n).reshape(n, 1)).astype(dtype)
                        G = linop.FiniteDifference([n, 1]) if use_G else None
                        shape = G.oshape if use_G else [n, 1]
                        pg = prox.L1Reg(shape, 0.01) if use_prox else None
                        np.random.seed(11)
                        tag = "lls-%s-%s-%s-%s-%s" % (
                            np.dtype(dtype).name, lamda, use_G, use_prox, steps)
                        try:
                            a = app.LinearLeastSquares(
                                A, y, proxg=pg, lamda=lamda, G=G,
                                solver="PrimalDualHybridGradient",
                                tau=steps[0], sigma=steps[1], max_iter=9,
                                max_power_iter=5, show_pbar=False)
                            out = a.run()
                            put(tag, out, out is a.alg.x, a.alg.iter,
                                a.alg.resid, a.alg.tau, a.alg.sigma, a.alg.u,
                                a.tau, a.sigma)
                        except Exception as e:  # noqa
                            put(tag + ".exc", type(e).__name__)
                        put(tag + ".caller", y, M)

    for dtype in [np.float64, np.complex128]:
        n = 5
        rng = np.random.RandomState(4)
        M = (np.eye(n) + 0.1 * rng.randn(n, n)).astype(dtype)
        A = linop.MatMul([n, 1], M)
        y = (M @ np.ones((n, 1))).astype(dtype)
        np.random.seed(12)
        a = app.L2ConstrainedMinimization(
            A, y, prox.L1Reg([n, 1], 1), 0.1, max_iter=8, show_pbar=False)
        out = a.run()
        put("l2c-%s" % np.dtype(dtype).name, out, a.alg.iter, a.alg.resid,
            a.alg.tau, a.alg.sigma, a.u, y)

    print(H.hexdigest())
    return 0


if __name__ == "__main__":
    sys.exit(main())
