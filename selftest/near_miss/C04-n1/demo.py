"""Equivalence demo for the C04 near-miss rewrites (n1: fourier.toeplitz_psf,
n2: linop.NUFFT._normal_linop).

Exercises toeplitz_psf directly and through NUFFT(...).N on a spread of
inputs and prints a SHA256 digest of everything observable: values (rounded
to 10 significant digits), dtypes, shapes, exception types for invalid
inputs, operator reprs / structure, and a digest of the caller's arrays after
each call.  The digest must be identical on the pristine and the changed
tree.  Deterministic, CPU only.
"""
import hashlib
import pickle
import sys

import numpy as np

from sigpy import app, fourier, linop

H = hashlib.sha256()
NREC = [0]


def rec(*items):
    for it in items:
        H.update(repr(it).encode())
        H.update(b"|")
    NREC[0] += 1


def arr_sig(a):
    a = np.asarray(a)
    if np.iscomplexobj(a):
        flat = np.stack([a.real.ravel(), a.imag.ravel()], -1).ravel()
    else:
        flat = a.ravel()
    txt = ",".join("%.9e" % float(v) for v in flat)
    return (str(a.dtype), tuple(a.shape), hashlib.sha256(txt.encode()).hexdigest())


def raw_sig(a):
    a = np.ascontiguousarray(a)
    return (str(a.dtype), tuple(a.shape), hashlib.sha256(a.tobytes()).hexdigest())


def attempt(label, fn):
    try:
        out = fn()
    except BaseException as e:  # noqa
        cause = e.__cause__
        rec(label, "EXC", type(e).__name__,
            type(cause).__name__ if cause is not None else None)
        return None
    return out


def make_coord(rng, img_shape, lead, dtype):
    c = np.stack(
        [rng.uniform(-n / 2, n / 2, lead) for n in img_shape], axis=-1
    )
    return c.astype(dtype)


def main():
    rng = np.random.RandomState(2024)
    np.random.seed(99)  # MaxEig inside LinearLeastSquares uses the global RNG

    # ------------------------------------------------------------------
    # 1. toeplitz_psf called directly
    # ------------------------------------------------------------------
    psf_cases = [
        # (shape, ndim, coord leading shape, coord dtype, oversamp, width)
        ([8], 1, (12,), np.float64, 1.25, 4),
        ([9], 1, (12,), np.float32, 2, 4),
        ([1], 1, (5,), np.float64, 1.25, 4),
        ([8, 6], 2, (20,), np.float64, 1.25, 4),
        ([7, 5], 2, (4, 6), np.float64, 1.5, 6),
        ([3, 8, 6], 2, (20,), np.float32, 1.25, 3),
        ([2, 3, 5, 4], 2, (9,), np.float64, 2, 4),
        ([4, 5, 6], 3, (15,), np.float64, 1.25, 4),
        ([2, 4, 1, 6], 3, (15,), np.float64, 1.375, 5),
        ((6, 7), 2, (11,), np.float64, 1.25, 4),  # tuple shape
    ]
    for shape, ndim, lead, cdt, os_, w in psf_cases:
        coord = make_coord(rng, list(shape)[-ndim:], lead, cdt)
        before = raw_sig(coord)
        for rep in range(2):  # repeated calls: no hidden state
            psf = attempt(
                ("psf", tuple(shape), ndim, lead, str(np.dtype(cdt)), os_, w, rep),
                lambda: fourier.toeplitz_psf(coord, shape, os_, w),
            )
            if psf is not None:
                rec("psf-out", arr_sig(psf), psf.flags.writeable,
                    psf.flags.c_contiguous)
        rec("coord-after", raw_sig(coord) == before, raw_sig(coord))
        # defaults for oversamp / width
        psf = attempt(("psf-default", tuple(shape)),
                      lambda: fourier.toeplitz_psf(coord, shape))
        if psf is not None:
            rec("psf-default-out", arr_sig(psf))

    # invalid inputs: exception types must match
    c2 = make_coord(rng, [8, 6], (10,), np.float64)
    attempt("bad: shape shorter than ndim",
            lambda: fourier.toeplitz_psf(c2, [8]))
    attempt("bad: empty shape", lambda: fourier.toeplitz_psf(c2, []))
    attempt("bad: integer coord",
            lambda: fourier.toeplitz_psf(np.zeros((5, 2), dtype=np.int64), [8, 6]))
    attempt("bad: scalar shape", lambda: fourier.toeplitz_psf(c2, 8))
    attempt("bad: zero size", lambda: fourier.toeplitz_psf(c2, [0, 6]))
    attempt("bad: 1-d coord",
            lambda: fourier.toeplitz_psf(np.zeros(4), [8, 6]))
    attempt("bad: float shape", lambda: fourier.toeplitz_psf(c2, [8.0, 6.0]))
    attempt("bad: width string",
            lambda: fourier.toeplitz_psf(c2, [8, 6], 1.25, "4"))
    attempt("bad: ndim 4",
            lambda: fourier.toeplitz_psf(np.zeros((5, 4)), [4, 4, 4, 4]))

    # ------------------------------------------------------------------
    # 2. NUFFT(...).N : structure and action
    # ------------------------------------------------------------------
    op_cases = [
        # (ishape, ndim, lead, coord dtype, oversamp, width, toeplitz)
        ([8], 1, (12,), np.float64, 1.25, 4, True),
        ([9], 1, (12,), np.float64, 2, 4, False),
        ([8, 6], 2, (20,), np.float64, 1.25, 4, True),
        ([7, 5], 2, (4, 6), np.float32, 1.5, 6, True),
        ([3, 8, 6], 2, (20,), np.float64, 1.25, 4, True),
        ([3, 8, 6], 2, (20,), np.float64, 1.25, 4, False),
        ([2, 1, 5, 4], 2, (9,), np.float64, 2, 4, True),
        ([4, 5, 6], 3, (15,), np.float64, 1.25, 4, True),
        ([5, 1], 2, (7,), np.float64, 1.25, 4, True),
        ([6, 4], 2, (8,), np.float64, 1.25, 4, 0),      # 0 is not False
        ([6, 4], 2, (8,), np.float64, 1.25, 4, None),
        ([6, 4], 2, (8,), np.float64, 1.25, 4, 1),
        ([6, 4], 2, (8,), np.float64, 1.25, 4, np.False_),
    ]
    xdtypes = [np.float32, np.float64, np.complex64, np.complex128]
    for ishape, ndim, lead, cdt, os_, w, tz in op_cases:
        coord = make_coord(rng, ishape[-ndim:], lead, cdt)
        cbefore = raw_sig(coord)
        label = ("op", tuple(ishape), ndim, lead, str(np.dtype(cdt)), os_, w, repr(tz))
        A = attempt(label, lambda: linop.NUFFT(
            ishape, coord, oversamp=os_, width=w, toeplitz=tz))
        if A is None:
            continue
        T = attempt(label + ("N",), lambda: A.N)
        if T is None:
            continue
        rec(label, repr(T), type(T).__name__, T.ishape, T.oshape, T.repr_str,
            T is A.N)
        rec([type(op).__name__ for op in getattr(T, "linops", [])],
            [(op.ishape, op.oshape) for op in getattr(T, "linops", [])],
            [getattr(op, "axes", None) for op in getattr(T, "linops", [])],
            [getattr(op, "center", None) for op in getattr(T, "linops", [])],
            [(getattr(op, "ishift", None), getattr(op, "oshift", None))
             for op in getattr(T, "linops", [])],
            [getattr(op, "conj", None) for op in getattr(T, "linops", [])])
        for op in getattr(T, "linops", []):
            if isinstance(op, linop.Multiply):
                rec("mult", arr_sig(op.mult), op.mshape)
        rec("pickle", repr(pickle.loads(pickle.dumps(T))),
            repr(pickle.loads(pickle.dumps(A))))
        TH = attempt(label + ("N.H",), lambda: T.H)
        for xdt in xdtypes:
            x = rng.randn(*ishape)
            if np.issubdtype(xdt, np.complexfloating):
                x = x + 1j * rng.randn(*ishape)
            x = x.astype(xdt)
            xb = raw_sig(x)
            for rep in range(2):
                y = attempt(label + ("apply", str(np.dtype(xdt)), rep),
                            lambda: T(x))
                if y is not None:
                    rec("Nx", arr_sig(y), y is x, np.shares_memory(y, x))
            rec("x-after", raw_sig(x) == xb, raw_sig(x))
            if TH is not None:
                y = attempt(label + ("applyH", str(np.dtype(xdt))),
                            lambda: TH(x))
                if y is not None:
                    rec("NHx", arr_sig(y))
            # non-contiguous / transposed view as input
            if len(ishape) >= 2 and ishape[-1] == ishape[-2]:
                xv = np.swapaxes(x, -1, -2)
                y = attempt(label + ("view",), lambda: T(xv))
                if y is not None:
                    rec("Nxv", arr_sig(y))
        # wrong input shapes -> same exception
        attempt(label + ("bad-x",), lambda: T(np.zeros([2] + list(ishape))))
        attempt(label + ("bad-x2",),
                lambda: T(np.zeros([n + 1 for n in ishape])))
        # composition and scaling of the normal operator
        S = attempt(label + ("sum",),
                    lambda: T + 0.5 * linop.Identity(ishape))
        if S is not None:
            x = (rng.randn(*ishape) + 1j * rng.randn(*ishape)).astype(
                np.complex64)
            y = attempt(label + ("sum-apply",), lambda: S(x))
            if y is not None:
                rec("Sx", arr_sig(y), repr(S))
        rec("coord-after", raw_sig(coord) == cbefore, raw_sig(coord))

    # invalid operator set-ups
    cbad = make_coord(rng, [8, 6], (10,), np.float64)
    attempt("op-bad: ishape shorter than ndim",
            lambda: linop.NUFFT([8], cbad, toeplitz=True).N)
    attempt("op-bad: integer coord",
            lambda: linop.NUFFT([8, 6], np.zeros((5, 2), dtype=np.int64),
                                toeplitz=True).N)

    # ------------------------------------------------------------------
    # 3. consumer: LinearLeastSquares on a Toeplitz NUFFT
    # ------------------------------------------------------------------
    ishape = [8, 6]
    coord = make_coord(rng, ishape, (40,), np.float64)
    xt = (rng.randn(*ishape) + 1j * rng.randn(*ishape)).astype(np.complex64)
    for tz in [True, False]:
        A = linop.NUFFT(ishape, coord, oversamp=1.5, width=6, toeplitz=tz)
        y = A(xt)
        for solver in ["ConjugateGradient", "GradientMethod", "ADMM"]:
            np.random.seed(5)
            xr = attempt(("lls", tz, solver), lambda: app.LinearLeastSquares(
                A, y, lamda=0.01, solver=solver, max_iter=8,
                max_power_iter=5, show_pbar=False).run())
            if xr is not None:
                rec("lls-out", arr_sig(xr))

    print("records:", NREC[0])
    print("DIGEST", H.hexdigest())
    return 0


if __name__ == "__main__":
    sys.exit(main())
