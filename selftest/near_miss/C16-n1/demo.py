"""C16 / round 3 / near-miss n1: equivalence digest for the k-space weighting
done by SenseRecon / L1WaveletRecon / TotalVariationRecon constructors.

For a spread of inputs the demo constructs each app, hashes the stored
(weighted) k-space app.y (values to 10 significant digits, dtype, shape,
whether it aliases the caller's y), the operator shapes, the result of a short
run (repeated twice on fresh apps), exception types for invalid input, and the
caller's arrays after the calls.
"""
import hashlib
import itertools
import warnings

import numpy as np

import sigpy as sp
from sigpy.mri import app

warnings.simplefilter("ignore")
H = hashlib.sha256()


def put(*items):
    for it in items:
        H.update(repr(it).encode())
        H.update(b"|")


def put_arr(tag, a):
    a = np.asarray(a)
    put(tag, str(a.dtype), a.shape)
    if a.dtype.kind == "c":
        flat = np.stack([a.real.ravel(), a.imag.ravel()], -1).ravel()
    else:
        flat = a.ravel().astype(np.float64)
    H.update(",".join("%.9e" % (v + 0.0) for v in flat).encode())
    H.update(b"|")


def rand(rng, shape, dtype):
    if np.dtype(dtype).kind == "c":
        return (rng.randn(*shape) + 1j * rng.randn(*shape)).astype(dtype)
    return rng.randn(*shape).astype(dtype)


def make(cls, y, mps, lamda, **kw):
    if cls is app.SenseRecon:
        return cls(y, mps, lamda=lamda, show_pbar=False, **kw)
    return cls(y, mps, lamda, show_pbar=False, **kw)


def run_case(tag, cls, y, mps, lamda, **kw):
    arrs = {k: v for k, v in kw.items() if isinstance(v, np.ndarray)}
    before = {k: v.copy() for k, v in arrs.items()}
    y0, mps0 = y.copy(), mps.copy()
    put("case", tag, cls.__name__, sorted((k, type(v).__name__) for k, v in kw.items()))
    try:
        for rep in range(2):  # repeated construction + run on the same inputs
            np.random.seed(1234 + rep)  # MaxEig starts from sigpy.randn
            a = make(cls, y, mps, lamda, **kw)
            put_arr("app.y", a.y)
            put("alias", a.y is y, bool(np.shares_memory(a.y, y)))
            put(list(a.A.ishape), list(a.A.oshape), repr(a.A), a.solver)
            put_arr("x0", a.x)
            x = a.run()
            put_arr("x", x)
            put_arr("y_mid", y)
    except Exception as e:  # noqa
        c = e
        chain = []
        while c is not None:
            chain.append(type(c).__name__)
            c = c.__cause__
        put("EXC", chain)
    put_arr("y_after", y)
    put_arr("mps_after", mps)
    put(bool(np.array_equal(y, y0, equal_nan=True)), bool(np.array_equal(mps, mps0)))
    for k, v in arrs.items():
        put_arr(k + "_after", v)
        put(bool(np.array_equal(v, before[k])))


rng = np.random.RandomState(160301)
classes = [app.SenseRecon, app.L1WaveletRecon, app.TotalVariationRecon]

for shape, nc, dtype in itertools.product(
    [(6, 6), (5, 8), (4, 3, 6)], [1, 4], [np.complex128, np.complex64]
):
    if nc == 1 and dtype == np.complex64:
        continue  # keep the run time down
    mps = rand(rng, (nc,) + shape, dtype)
    img = rand(rng, shape, dtype)
    mask = (rng.rand(*shape) > 0.3).astype(float)
    ksp = (mask * sp.fft(mps * img, axes=range(-len(shape), 0))).astype(dtype)
    w_f64 = rng.rand(*shape) + 0.05
    w_f32 = w_f64.astype(np.float32)
    w_c = (w_f64 + 0j).astype(dtype)
    w_neg = w_f64 - 0.5  # negative entries -> nan under sqrt for real dtype
    w_int = (rng.rand(*shape) > 0.5).astype(np.int64)
    npts = 40
    coord = (rng.rand(npts, len(shape)) - 0.5) * np.array(shape, dtype=float)
    y_nc = rand(rng, (nc, npts), dtype)
    dcf = rng.rand(npts) + 0.1
    for cls, lamda in itertools.product(classes, [0, 0.01]):
        kw = dict(max_iter=3)
        run_case(("est", shape, nc), cls, ksp, mps, lamda, **kw)
        run_case(("est_b", shape, nc), cls, ksp, mps, lamda, coil_batch_size=3, **kw)
        for wn, w in [("f64", w_f64), ("f32", w_f32), ("c", w_c), ("neg", w_neg), ("int", w_int)]:
            run_case(("w" + wn, shape, nc), cls, ksp, mps, lamda, weights=w, **kw)
        run_case(("w_b", shape, nc), cls, ksp, mps, lamda, weights=w_f64, coil_batch_size=1, **kw)
        # weights aliasing the data's own magnitude / one coil of y
        run_case(("w_alias", shape, nc), cls, ksp, mps, lamda, weights=np.abs(ksp[0]), **kw)
        run_case(("w_view", shape, nc), cls, ksp, mps, lamda, weights=ksp[0].real, **kw)
        # scalar weights (documented: "float or array")
        run_case(("w_scalar", shape, nc), cls, ksp, mps, lamda, weights=2.0, **kw)
        run_case(("w_npscalar", shape, nc), cls, ksp, mps, lamda, weights=np.float32(0.5), **kw)
        # non-Cartesian: no weights (app.y aliases y) and density compensation
        run_case(("nc", shape, nc), cls, y_nc, mps, lamda, coord=coord, **kw)
        run_case(("nc_w", shape, nc), cls, y_nc, mps, lamda, coord=coord, weights=dcf, **kw)
        run_case(("nc_w_b", shape, nc), cls, y_nc, mps, lamda, coord=coord, weights=dcf,
                 coil_batch_size=2, **kw)
        # explicit device argument
        run_case(("dev", shape, nc), cls, ksp, mps, lamda, device=sp.Device(-1), **kw)
        run_case(("dev_int", shape, nc), cls, ksp, mps, lamda, device=-1, weights=w_f64, **kw)
        # non-contiguous / read-only y
        ksp_nc = np.asfortranarray(ksp)
        run_case(("fortran_y", shape, nc), cls, ksp_nc, mps, lamda, **kw)
        ksp_ro = ksp.copy()
        ksp_ro.setflags(write=False)
        run_case(("readonly_y", shape, nc), cls, ksp_ro, mps, lamda, **kw)
        run_case(("readonly_y_w", shape, nc), cls, ksp_ro, mps, lamda, weights=w_f64, **kw)
        # invalid inputs
        run_case(("bad_w_shape", shape, nc), cls, ksp, mps, lamda, weights=rng.rand(3, 2), **kw)
        run_case(("bad_y_shape", shape, nc), cls, ksp[..., :-1], mps, lamda, **kw)
        run_case(("bad_dev", shape, nc), cls, ksp, mps, lamda, device="gpu", **kw)
        run_case(("nc_bad_w", shape, nc), cls, y_nc, mps, lamda, coord=coord,
                 weights=rng.rand(npts + 1), **kw)
        # solvers
        for solver in ["ConjugateGradient", "GradientMethod", "PrimalDualHybridGradient", "ADMM"]:
            run_case(("solver", solver, shape, nc), cls, ksp, mps, lamda, solver=solver,
                     weights=w_f64, max_iter=2)

# y given as a list (no ndarray): exception / behaviour type must be the same
for cls in classes:
    mps = rand(rng, (2, 4, 4), np.complex128)
    try:
        a = make(cls, [[1.0]], mps, 0)
        put("list_y_ok", type(a.y).__name__)
    except Exception as e:  # noqa
        put("EXC_list_y", type(e).__name__)

print(H.hexdigest())
