"""Equivalence demo for sigpy.mri.samp.poisson / _poisson.

Prints one SHA256 digest over: every returned mask (values rounded to 10
significant digits, dtype, shape), the exception type for invalid / infeasible
requests, the caller-visible inputs after the call (img_shape / calib
containers, radius arrays handed to the kernel) and numpy's global RNG state
after every call.
"""
import hashlib

import numpy as np

from sigpy.mri import samp

H = hashlib.sha256()


def put(*items):
    for it in items:
        if isinstance(it, np.ndarray):
            H.update(str(it.dtype).encode())
            H.update(str(it.shape).encode())
            a = np.ascontiguousarray(it)
            if a.dtype.kind in "fc":
                txt = np.array2string(
                    a.ravel(),
                    threshold=10**9,
                    formatter={
                        "float_kind": lambda v: "%.9e" % v,
                        "complex_kind": lambda v: "%.9e%+.9ej"
                        % (v.real, v.imag),
                    },
                )
                H.update(txt.encode())
            else:
                H.update(a.tobytes())
        else:
            H.update(repr(it).encode())
        H.update(b"|")


def rng_digest():
    s = np.random.get_state()
    return hashlib.sha256(
        s[1].tobytes() + repr((s[0], s[2], s[3], s[4])).encode()
    ).hexdigest()


class _Stalled(Exception):
    pass


# The pristine bisection never terminates for some infeasible requests (the
# slope bracket collapses to two adjacent floats).  poisson() looks its kernel
# up as a module global on every bisection step, so a counting pass-through
# wrapper lets the demo (a) cut such requests off deterministically after 150
# kernel evaluations and (b) record the exact number of bisection steps of
# every request in the digest.
_kernel = samp._poisson
_ncalls = [0]


def _counting_kernel(*args):
    _ncalls[0] += 1
    if _ncalls[0] > 150:
        raise _Stalled()
    return _kernel(*args)


samp._poisson = _counting_kernel


def call(**kw):
    shape_in = kw["img_shape"]
    calib_in = kw.get("calib", None)
    snap = (repr(shape_in), repr(calib_in))
    _ncalls[0] = 0
    try:
        out = samp.poisson(**kw)
        put("ok", out)
    except Exception as e:  # noqa
        put("exc", type(e).__name__)
    put("steps", _ncalls[0])
    put(snap == (repr(shape_in), repr(calib_in)), repr(shape_in),
        repr(calib_in), rng_digest())


np.random.seed(2024)
np.random.standard_normal(1)

shapes = [(16, 16), (17, 23), (32, 32), (48, 64), (64, 40), [32, 48],
          (128, 96), np.array([40, 40])]
calibs = [(0, 0), (4, 4), (7, 5), (12, 20), [8, 8]]
k = 0
for shape in shapes:
    for calib in calibs:
        if isinstance(shape, np.ndarray) and isinstance(calib, list):
            continue
        for accel in [1.5, 2, 3.7, 6, 12]:
            k += 1
            seed = [0, 1, 80, 12345, np.int64(5)][k % 5]
            tol = [0.1, 0.05, 0.3, 1.0][k % 4]
            crop = bool(k % 3)
            dtype = [np.complex128, np.complex64, np.float32, float, bool,
                     np.int8, int][k % 7]
            kw = dict(img_shape=shape, accel=accel, calib=calib, seed=seed,
                      tol=tol, crop_corner=crop, dtype=dtype)
            if k % 11 == 0:
                kw["max_attempts"] = 5
            if k % 13 == 0:
                kw["return_density"] = True
            call(**kw)
            if k % 9 == 0:  # repeated call, identical arguments
                call(**kw)

# same tuple object used for both img_shape and calib (aliasing arguments)
t = (24, 24)
call(img_shape=t, accel=1.2, calib=t, seed=1, tol=5.0, crop_corner=False)
t = (16, 16)
call(img_shape=t, accel=2, calib=(16, 16), seed=1, tol=0.5)
# invalid / infeasible
call(img_shape=(32, 32), accel=1, seed=0)
call(img_shape=(32, 32), accel=0.5, seed=0)
call(img_shape=(32, 32), accel=-3, seed=0)
call(img_shape=(32, 32), accel=2000, seed=0)
call(img_shape=(32, 32), accel=4, seed=0, tol=1e-9)
call(img_shape=(32, 32), accel=4, seed=0, tol=0)
call(img_shape=(32, 32, 32), accel=4, seed=0)
call(img_shape=(32,), accel=4, seed=0)
call(img_shape=(16, 16), accel=2, calib=(40, 40), seed=0, tol=0.5)
call(img_shape=(32, 32), accel=3, calib=(8,), seed=0, tol=0.5)
call(img_shape=(32, 32), accel=3, seed=-1, tol=0.5)
call(img_shape=(32, 32), accel=3, seed="x", tol=0.5)
call(img_shape=(1, 32), accel=3, seed=0, tol=0.5)
call(img_shape=(2, 2), accel=2, seed=0, tol=1.5)
call(img_shape=(32, 32), accel=3, seed=2, tol=0.5, max_attempts=0)
call(img_shape=(32, 32), accel=np.float32(3), seed=2, tol=0.5)

# kernel called directly: radius arrays are caller visible and must not change
for (ny, nx), calib, seed, att in [
    ((20, 20), (4, 4), 3, 30), ((24, 36), (0, 0), 7, 10),
    ((36, 24), (6, 10), 11, 30), ((16, 16), (16, 16), 1, 30),
    ((31, 17), (3, 5), 2, 30),
]:
    yy, xx = np.mgrid[:ny, :nx]
    rr = np.sqrt(((xx - nx / 2) / nx) ** 2 + ((yy - ny / 2) / ny) ** 2)
    rx = np.clip(1 + 6 * rr, 1, None)
    ry = np.clip((1 + 6 * rr) * ny / nx, 1, None)
    rx0, ry0 = rx.copy(), ry.copy()
    m1 = _kernel(nx, ny, att, rx, ry, calib, seed)
    m2 = _kernel(nx, ny, att, rx, rx, calib, seed)  # aliased radii
    m3 = _kernel(nx, ny, att, rx, ry, calib, seed)  # repeat
    put(m1, m2, m3, np.array_equal(rx, rx0), np.array_equal(ry, ry0),
        np.array_equal(m1, m3), rx, ry, rng_digest())

print(H.hexdigest())
