"""C09 / near-miss n2 - equivalence digest for util.resize and linop.Resize.

Prints a SHA256 digest over: every result (values rounded to 10 significant
digits, dtype, shape, whether it shares memory with the caller's input),
exception type names for invalid inputs, and the caller's input arrays /
shift lists after each call.  A stricter digest over raw bytes is printed too.
Both must be identical on the pristine and on the changed tree.
"""
import hashlib
import itertools
import sys

import numpy as np

import sigpy as sp
from sigpy import linop

H = hashlib.sha256()
HB = hashlib.sha256()


def _fmt(a):
    a = np.asarray(a)
    if a.dtype.kind == "c":
        parts = [a.real.ravel(), a.imag.ravel()]
    else:
        parts = [a.ravel()]
    return ";".join(",".join("%.9e" % float(v) for v in p) for p in parts)


def put(tag, a, extra=""):
    a = np.asarray(a)
    H.update(("%s|%s|%s|%s|%s\n"
              % (tag, a.dtype.str, a.shape, extra, _fmt(a))).encode())
    HB.update((tag + a.dtype.str + repr(a.shape) + extra).encode()
              + np.ascontiguousarray(a).tobytes())


def put_exc(tag, f, src=None):
    try:
        r = f()
    except Exception as e:  # noqa
        H.update(("%s|EXC|%s\n" % (tag, type(e).__name__)).encode())
        HB.update(("%s|EXC|%s\n" % (tag, type(e).__name__)).encode())
        return None
    extra = ""
    if src is not None:
        extra = "alias=%s" % np.shares_memory(r, src)
    put(tag + "|noexc", r, extra)
    return r


def rand(rng, shape, dtype):
    dtype = np.dtype(dtype)
    if dtype.kind == "c":
        return (rng.standard_normal(shape)
                + 1j * rng.standard_normal(shape)).astype(dtype)
    if dtype.kind == "f":
        return rng.standard_normal(shape).astype(dtype)
    if dtype.kind == "b":
        return rng.randint(0, 2, size=shape).astype(dtype)
    return rng.randint(-50, 50, size=shape).astype(dtype)


DTYPES = [np.float32, np.float64, np.complex64, np.complex128, np.int16,
          np.bool_]


def main():
    rng = np.random.RandomState(4321)

    # ---- default (centred) shifts: all odd/even pad/crop combinations
    for n, m in itertools.product(range(1, 8), range(1, 8)):
        for dtype in (np.float64, np.complex64):
            x = rand(rng, [n], dtype)
            x0 = x.copy()
            put_exc("1d|%d|%d|%s" % (n, m, np.dtype(dtype).name),
                    lambda: sp.resize(x, [m]), x)
            assert np.array_equal(x, x0)

    # ---- multi-axis, mixed pad/crop, different ndim, size-1 axes
    SHAPES = [
        ((4, 5), (3, 8)), ((5, 4), (8, 3)), ((3, 6), (6, 3)),
        ((2, 4, 7), (2, 3, 4)), ((6, 6), (7, 7)), ((7, 7), (6, 6)),
        ((5,), (2, 6)), ((3, 4), (4,)), ((1, 5), (4, 1)), ((4, 4), (4, 4)),
        ((2, 3), (6,)), ((6,), (2, 3)), ((3, 1, 4), (1, 2, 9)),
        ((0, 3), (2, 2)), ((2, 2), (0, 3)),
    ]
    for si, (ish, osh) in enumerate(SHAPES):
        for dtype in DTYPES:
            tag = "nd|%d|%s" % (si, np.dtype(dtype).name)
            x = rand(rng, ish, dtype)
            put_exc(tag, lambda: sp.resize(x, list(osh)), x)
            put_exc(tag + "|again", lambda: sp.resize(x, list(osh)), x)
            put_exc(tag + "|tuple", lambda: sp.resize(x, tuple(osh)), x)
            put_exc(tag + "|npint",
                    lambda: sp.resize(x, [np.int64(o) for o in osh]), x)
            put(tag + "|input-after", x)
            # non-contiguous caller array
            if len(ish) >= 2:
                xt = rand(rng, ish[::-1], dtype).T
                put_exc(tag + "|T", lambda: sp.resize(xt, list(osh)), xt)
            xr = rand(rng, ish, dtype)[..., ::-1]
            put_exc(tag + "|rev", lambda: sp.resize(xr, list(osh)), xr)
            # linop form, adjoint and normal
            if min(ish) > 0 and min(osh) > 0:
                A = linop.Resize(list(osh), list(ish))
                put_exc(tag + "|A", lambda: A(x), x)
                z = rand(rng, osh, dtype)
                put_exc(tag + "|A.H", lambda: A.H(z), z)
                put_exc(tag + "|A.N", lambda: A.N(x), x)

    # ---- explicit shifts: only ishift, only oshift, both; list / tuple /
    #      numpy ints; shifts that make the window hit the border;
    #      shifts shorter than ndim; the caller's lists must stay untouched
    SH = [
        ((5,), (3,), [0], None), ((5,), (3,), [2], None),
        ((5,), (3,), [3], None), ((5,), (3,), [4], [1]),
        ((3,), (5,), None, [0]), ((3,), (5,), None, [2]),
        ((3,), (5,), None, [3]), ((3,), (5,), [1], [3]),
        ((3,), (5,), [1], None), ((5,), (3,), None, [1]),
        ((4, 6), (6, 3), [0, 1], None), ((4, 6), (6, 3), None, [2, 0]),
        ((4, 6), (6, 3), [1, 2], [3, 1]), ((4, 6), (6, 3), (0, 3), (2, 0)),
        ((4, 6), (6, 3), [np.int64(1), np.int64(0)], None),
        ((4, 6), (6, 3), np.array([0, 2]), np.array([1, 1])),
        ((4, 6), (6, 3), [1], None), ((4, 6), (6, 3), None, [1]),
        ((4, 6), (6, 3), [1], [0, 1]),
        ((2, 4, 7), (2, 3, 9), [0, 1, 0], None),
        ((2, 4, 7), (2, 3, 9), None, [0, 0, 2]),
        ((6,), (2, 3), [0, 2], None), ((6,), (2, 3), None, [1, 0]),
        ((5,), (3,), [6], None), ((3,), (5,), None, [7]),
        ((5,), (3,), [-1], None), ((3,), (5,), None, [-2]),
        ((4, 4), (4, 4), [1, 1], [2, 2]),
    ]
    for si, (ish, osh, ishift, oshift) in enumerate(SH):
        for dtype in (np.float32, np.complex128, np.int16):
            tag = "sh|%d|%s" % (si, np.dtype(dtype).name)
            x = rand(rng, ish, dtype)
            keep_i = None if ishift is None else list(ishift)
            keep_o = None if oshift is None else list(oshift)
            put_exc(tag, lambda: sp.resize(x, list(osh), ishift=ishift,
                                           oshift=oshift), x)
            put_exc(tag + "|again", lambda: sp.resize(
                x, list(osh), ishift=ishift, oshift=oshift), x)
            put(tag + "|input-after", x)
            assert keep_i is None or list(ishift) == keep_i
            assert keep_o is None or list(oshift) == keep_o
            put_exc(tag + "|A", lambda: linop.Resize(
                list(osh), list(ish), ishift=ishift, oshift=oshift)(x), x)
            z = rand(rng, osh, dtype)
            put_exc(tag + "|A.H", lambda: linop.Resize(
                list(osh), list(ish), ishift=ishift, oshift=oshift).H(z), z)
            # the same list object for both shifts (aliasing arguments)
            if ishift is not None:
                put_exc(tag + "|same-obj", lambda: sp.resize(
                    x, list(osh), ishift=ishift, oshift=ishift), x)

    # ---- invalid inputs
    x = np.arange(6.0)
    put_exc("inv|neg", lambda: sp.resize(x, [-3]))
    put_exc("inv|float", lambda: sp.resize(x, [4.0]))
    put_exc("inv|none-shift", lambda: sp.resize(x, [4], ishift=[None]))
    put_exc("inv|none-oshift", lambda: sp.resize(x, [4], oshift=[None]))
    put_exc("inv|str", lambda: sp.resize(x, ["4"]))
    put_exc("inv|int-oshape", lambda: sp.resize(x, 4))
    put_exc("inv|int-shift", lambda: sp.resize(x, [4], ishift=1))
    put_exc("inv|reshape", lambda: sp.resize(np.ones([2, 3]), [3, 2]))
    put_exc("inv|list-input", lambda: sp.resize([1, 2, 3], [5]))

    print("digest   ", H.hexdigest())
    print("bitdigest", HB.hexdigest())
    return 0


if __name__ == "__main__":
    sys.exit(main())
