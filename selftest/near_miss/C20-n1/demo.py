"""C20 near-miss equivalence demo (used for n1 and n2).

Exercises trap_grad, min_trap_grad and spokes_grad (which calls both) over a
spread of parameters / dtypes / invalid inputs and prints one SHA256 digest of
everything observable: values (10 significant digits), dtypes, shapes, the
returned ramp counts and their types, exception types, and the caller's input
arrays after the call.
"""
import hashlib
import warnings

import numpy as np

import sigpy.mri.rf as rf

warnings.simplefilter("ignore")
H = hashlib.sha256()


def put(*items):
    for it in items:
        H.update(repr(it).encode())
        H.update(b"|")


def put_arr(a):
    a = np.asarray(a)
    put(str(a.dtype), a.shape)
    if a.dtype.kind in "fiub":
        flat = a.astype(np.float64).ravel()
        H.update("\n".join(np.char.mod("%.9e", flat)).encode())
    elif a.dtype.kind == "c":
        flat = a.astype(np.complex128).ravel()
        H.update("\n".join(np.char.mod("%.9e", flat.real)).encode())
        H.update("\n".join(np.char.mod("%.9e", flat.imag)).encode())
    else:
        put(a.tolist())
    H.update(b"#")


def run(fn, *args):
    try:
        out = fn(*args)
    except Exception as e:  # noqa
        put("EXC", type(e).__name__)
        return None
    if isinstance(out, tuple):
        for o in out:
            if isinstance(o, np.ndarray):
                put_arr(o)
            else:
                put(type(o).__name__, o)
    else:
        put_arr(out)
    return out


def designers():
    n = 0
    areas = list(10.0 ** np.linspace(-6, 0, 19)) + [200 * 4e-6, 2.24e-4,
                                                   2.0 ** -12, 3e-7]
    gmaxs = [0.1, 0.7, 2, 2.0, 4, 10.0]
    dgdts = [1e2, 3333.3, 18000, 1e5]
    dts = [1e-6, 4e-6, 6.4e-6, 1e-5, 1e-4]
    for area in areas:
        for gmax in gmaxs:
            for dgdt in dgdts:
                for dt in dts:
                    if area / gmax / dt > 4e4 or gmax / dgdt / dt > 4e4:
                        continue
                    n += 1
                    put("P", area, gmax, dgdt, dt)
                    run(rf.trap_grad, area, gmax, dgdt, dt)
                    run(rf.min_trap_grad, area, gmax, dgdt, dt)
    put(n)

    # exact triangle/trapezoid boundary and its neighbours
    gmax, dgdt, dt = 2.0, 20000.0, 4e-6  # gmax/dgdt/dt == 25
    for scale in (1 - 1e-12, 1.0, 1 + 1e-12, 0.5, 2.0, 1 + 1 / 25):
        run(rf.trap_grad, scale * 25 * dt * gmax, gmax, dgdt, dt)
        run(rf.min_trap_grad, scale * 2 * gmax ** 2 / dgdt, gmax, dgdt, dt)

    # scalar types, repeated calls, extra positional args of trap_grad
    for conv in (float, np.float64, np.float32, np.float16):
        for rep in range(2):
            run(rf.trap_grad, conv(8e-4), conv(2), conv(18000), conv(4e-6))
            run(rf.min_trap_grad, conv(8e-4), conv(2), conv(18000),
                conv(4e-6))
    run(rf.trap_grad, 8e-4, 2, 18000, 4e-6, 0)
    run(rf.trap_grad, 8e-4, 2, 18000, 4e-6, 1, 2, 3, 4)
    run(rf.trap_grad, 8e-4, 2, 18000, 4e-6, 1, 2, 3, 4, 5)  # rampsamp unset
    run(rf.trap_grad, np.array([8e-4]), 2, 18000, 4e-6)
    run(rf.min_trap_grad, np.array([8e-4]), 2, 18000, 4e-6)
    run(rf.trap_grad, np.array([1e-5]), 2, 18000, 4e-6)
    run(rf.trap_grad, 1, 1, 100, 1e-3)  # all python ints but dt

    # zero / negative / degenerate / invalid inputs
    bad = [
        (0, 2, 18000, 4e-6), (0.0, 2, 18000, 4e-6),
        (-1e-5, 2, 18000, 4e-6), (-8e-4, 2, 18000, 4e-6),
        (8e-4, -2, 18000, 4e-6), (8e-4, 2, -18000, 4e-6),
        (8e-4, 2, 18000, -4e-6), (8e-4, 0, 18000, 4e-6),
        (8e-4, 2, 0, 4e-6), (8e-4, 2, 18000, 0),
        (float("nan"), 2, 18000, 4e-6), (8e-4, float("nan"), 18000, 4e-6),
        (float("inf"), 2, 18000, 4e-6), (8e-4, float("inf"), 18000, 4e-6),
        (1e-9, 2, 18000, 4e-6), (1e-8, 2, 18000, 1e-4), (2e-7, 2, 100, 1e-4),
        ("x", 2, 18000, 4e-6), (None, 2, 18000, 4e-6),
        (8e-4 + 0j, 2, 18000, 4e-6), (1e-5 + 0j, 2, 18000, 4e-6),
    ]
    for args in bad:
        put("B", repr(args))
        run(rf.trap_grad, *args)
        run(rf.min_trap_grad, *args)


def spokes():
    rng = np.random.RandomState(7)
    ks = [
        np.array([[0.0, 0.0]]),
        np.array([[0, 0], [1, 0], [1, -1]]),  # integer dtype
        np.array([[0.0, 0.0], [0.05, 0.0], [0.05, 0.0], [-0.1, 0.15]]),
        (rng.randint(-5, 6, size=(6, 2)) / 20.0),
        (rng.randint(-5, 6, size=(5, 2)) / 20.0).astype(np.float32),
        np.asfortranarray(rng.randint(-5, 6, size=(4, 2)) / 20.0),
        rng.uniform(-3, 3, size=(3, 2)),  # big jumps: long blips
        np.zeros((0, 2)),
        np.array([0.1, 0.2]),  # wrong rank
    ]
    cfgs = [(4, 5, 2, 18000, 4e-6), (8, 3.0, 4.0, 15000.0, 1e-5),
            (2, 10, 0.5, 1e5, 6.4e-6), (4, 5, 0.1, 1e5, 1e-4)]
    for k in ks:
        for cfg in cfgs:
            k0 = k.copy()
            put("S", k.shape, str(k.dtype), cfg)
            run(rf.spokes_grad, k, *cfg)
            run(rf.spokes_grad, k, *cfg)  # repeated call
            put_arr(k)
            put(np.array_equal(k, k0))


designers()
spokes()
print(H.hexdigest())
