"""C09 / near-miss n1 - equivalence digest for blocks_to_array / BlocksToArray
(and array_to_blocks / ArrayToBlocks as the adjoint pair).

Prints a SHA256 digest over: every result (values rounded to 10 significant
digits, dtype, shape), exception type names for invalid inputs, and the
caller's input arrays after each call.  A second, stricter digest over the raw
result bytes is printed too.  Both must be identical on the pristine and on
the changed tree.
"""
import hashlib
import sys

import numpy as np

import sigpy as sp
from sigpy import linop

H = hashlib.sha256()
HB = hashlib.sha256()


def _fmt(a):
    a = np.asarray(a)
    if np.iscomplexobj(a):
        parts = [a.real.ravel(), a.imag.ravel()]
    else:
        parts = [a.ravel()]
    return ";".join(",".join("%.9e" % float(v) for v in p) for p in parts)


def put(tag, a):
    a = np.asarray(a)
    H.update(("%s|%s|%s|%s\n" % (tag, a.dtype.str, a.shape, _fmt(a))).encode())
    HB.update(tag.encode() + a.dtype.str.encode() + repr(a.shape).encode()
              + np.ascontiguousarray(a).tobytes())


def put_exc(tag, f):
    try:
        r = f()
    except Exception as e:  # noqa
        H.update(("%s|EXC|%s\n" % (tag, type(e).__name__)).encode())
        HB.update(("%s|EXC|%s\n" % (tag, type(e).__name__)).encode())
    else:
        put(tag + "|noexc", r)


def nblks(N, B, S):
    return [(n - b + s) // s for n, b, s in zip(N, B, S)]


def rand(rng, shape, dtype):
    dtype = np.dtype(dtype)
    if dtype.kind == "c":
        return (rng.standard_normal(shape)
                + 1j * rng.standard_normal(shape)).astype(dtype)
    if dtype.kind == "f":
        return rng.standard_normal(shape).astype(dtype)
    return rng.randint(-50, 50, size=shape).astype(dtype)


# (batch shape, N, B, S)
CONFS = [
    ((), (6,), (2,), (2,)),
    ((), (7,), (3,), (2,)),
    ((2,), (9,), (4,), (5,)),
    ((), (6, 6), (2, 2), (2, 2)),
    ((), (8, 9), (3, 3), (2, 1)),
    ((3,), (9, 8), (2, 2), (1, 3)),
    ((2, 2), (5, 11), (2, 3), (1, 4)),
    ((), (4, 4, 4), (2, 2, 2), (2, 2, 2)),       # tiling
    ((), (5, 6, 7), (3, 3, 3), (1, 1, 1)),       # sliding window
    ((), (6, 7, 8), (2, 3, 2), (2, 1, 3)),       # mixed overlap / gap
    ((2,), (7, 5, 9), (3, 2, 4), (2, 3, 2)),     # batch, non-dividing
    ((2, 1), (5, 5, 5), (2, 2, 2), (3, 3, 3)),   # gapped
    ((), (1, 6, 1), (1, 3, 1), (1, 2, 1)),       # size-1 axes
    ((), (9, 4, 6), (5, 1, 3), (2, 1, 2)),       # several blocks per voxel
    ((), (3, 3, 3), (3, 3, 3), (1, 2, 3)),       # single block
    ((), (2, 3, 4), (3, 3, 3), (1, 1, 1)),       # block larger than array
]
DTYPES = [np.float32, np.float64, np.complex64, np.complex128, np.int64]


def main():
    rng = np.random.RandomState(1234)
    for ci, (batch, N, B, S) in enumerate(CONFS):
        D = len(N)
        nb = nblks(N, B, S)
        oshape = list(batch) + list(N)
        bshape = list(batch) + nb + list(B)
        for dtype in DTYPES:
            tag = "c%d|%s" % (ci, np.dtype(dtype).name)
            # ---- scatter
            y = rand(rng, bshape, dtype)
            y0 = y.copy()
            put_exc(tag + "|b2a",
                    lambda: sp.blocks_to_array(y, oshape, list(B), list(S)))
            put_exc(tag + "|b2a-again",
                    lambda: sp.blocks_to_array(y, oshape, list(B), list(S)))
            put(tag + "|b2a-input-after", y)
            assert np.array_equal(y, y0)
            if min(nb) > 0:
                A = linop.BlocksToArray(oshape, list(B), list(S))
                put_exc(tag + "|B2A", lambda: A(y))
                put_exc(tag + "|B2A.H", lambda: A.H(A(y)))
                put_exc(tag + "|B2A.N", lambda: A.N(y))
            # non-contiguous caller array (a reversed / strided view)
            ybig = rand(rng, [2] + bshape, dtype)
            yv = ybig[1][..., ::-1]
            put_exc(tag + "|b2a-view",
                    lambda: sp.blocks_to_array(yv, oshape, list(B), list(S)))
            put(tag + "|b2a-view-input-after", ybig)
            # ---- gather
            x = rand(rng, oshape, dtype)
            put_exc(tag + "|a2b",
                    lambda: sp.array_to_blocks(x, list(B), list(S)))
            put(tag + "|a2b-input-after", x)
            # ---- scatter into an output larger / smaller than the blocks
            #      cover (num_blks comes from the block array, so the range
            #      tests nz/ny/nx < N* and >= 0 really decide)
            if min(nb) > 0:
                big = list(batch) + [n + 3 for n in N]
                small = list(batch) + [max(n - 2, 1) for n in N]
                put_exc(tag + "|b2a-big",
                        lambda: sp.blocks_to_array(y, big, list(B), list(S)))
                put_exc(tag + "|b2a-small",
                        lambda: sp.blocks_to_array(y, small, list(B), list(S)))

    # ---- invalid inputs
    y = np.ones([2, 2, 2, 2, 2, 2])
    put_exc("inv|len", lambda: sp.blocks_to_array(y, [4, 4, 4], [2, 2, 2], [2, 2]))
    put_exc("inv|ndim4", lambda: sp.blocks_to_array(
        np.ones([1] * 8), [1, 1, 1, 1], [1] * 4, [1] * 4))
    put_exc("inv|stride0", lambda: sp.blocks_to_array(
        y, [4, 4, 4], [2, 2, 2], [2, 0, 2]))
    put_exc("inv|stride0z", lambda: sp.blocks_to_array(
        y, [4, 4, 4], [2, 2, 2], [0, 2, 2]))
    put_exc("inv|oshape-size", lambda: sp.blocks_to_array(
        np.ones([3, 2, 2, 2, 2, 2, 2]), [2, 4, 4, 4], [2, 2, 2], [2, 2, 2]))
    put_exc("inv|neg-oshape", lambda: sp.blocks_to_array(
        y, [4, -4, 4], [2, 2, 2], [2, 2, 2]))
    put_exc("inv|empty", lambda: sp.blocks_to_array(
        np.ones([0, 2, 2, 2, 2, 2]), [1, 4, 4], [2, 2, 2], [2, 2, 2]))
    put_exc("inv|linop-shape", lambda: linop.BlocksToArray(
        [4, 4, 4], [2, 2, 2], [2, 2, 2])(np.ones([2, 2, 2, 2, 2, 3])))

    print("digest   ", H.hexdigest())
    print("bitdigest", HB.hexdigest())
    return 0


if __name__ == "__main__":
    sys.exit(main())
