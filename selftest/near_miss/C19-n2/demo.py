"""C19 / near-miss n2: equivalence digest for sim.abrm and sim.abrm_nd.

Prints a SHA256 digest over all results (10 significant digits), dtypes,
shapes, exception types, and the state of the caller's input arrays after
each call.  Must be identical on the pristine and on the changed tree.
"""
import hashlib
import warnings

import numpy as np

from sigpy.mri.rf import sim, slr

warnings.simplefilter("ignore")
H = hashlib.sha256()


def put(tag, obj):
    H.update(tag.encode())
    if isinstance(obj, BaseException):
        H.update(("EXC:" + type(obj).__name__).encode())
        return
    if isinstance(obj, (tuple, list)):
        H.update(("SEQ%d" % len(obj)).encode())
        for i, o in enumerate(obj):
            put("%s[%d]" % (tag, i), o)
        return
    if obj is None:
        H.update(b"None")
        return
    arr = np.asarray(obj)
    H.update(("%s|%s|%s|" % (type(obj).__name__, arr.dtype, arr.shape))
             .encode())
    flat = arr.ravel()
    if np.iscomplexobj(flat):
        vals = np.concatenate([flat.real, flat.imag])
    else:
        vals = flat
    for v in vals:
        try:
            H.update(("%.9e," % v).encode())
        except TypeError:
            H.update((repr(v) + ",").encode())


def call(tag, fn, *args):
    try:
        out = fn(*args)
    except Exception as e:  # noqa
        out = e
    put(tag + ":out", out)
    for i, a in enumerate(args):
        if isinstance(a, np.ndarray):
            put(tag + ":arg%d" % i, a)
    return out


def main():
    rng = np.random.default_rng(5102026)
    n = 0
    for rdt in (np.complex128, np.complex64, np.float64, np.float32,
                np.int64):
        for nt in (1, 2, 7, 64, 256):
            for scale in (0.0, 0.03, 1.0, 4.0):
                for ndim in (1, 2, 3):
                    for xdt in (np.float64, np.float32):
                        if (nt > 7 and (scale in (0.0, 1.0) or
                                        xdt is np.float32)):
                            continue
                        rf = scale * (rng.normal(size=nt)
                                      + 1j * rng.normal(size=nt))
                        if np.dtype(rdt).kind == "c":
                            rf = rf.astype(rdt)
                        elif np.dtype(rdt).kind == "f":
                            rf = rf.real.astype(rdt)
                        else:
                            rf = np.round(rf.real * 2).astype(rdt)
                        ns = int(rng.integers(1, 9))
                        x = rng.uniform(-3, 3, (ns, ndim)).astype(xdt)
                        x[0] = 0  # zero-field position when rf == 0
                        g = rng.normal(size=(nt, ndim))
                        if n % 3 == 0:
                            g = g.astype(np.float32)
                        tag = "nd%d" % n
                        n += 1
                        call(tag, sim.abrm_nd, rf, x, g)
                        call(tag + "r", sim.abrm_nd, rf, x, g)  # repeat
                        call(tag + "a", sim.abrm, rf, x[:, 0], False)
                        call(tag + "ab", sim.abrm, rf, x[:, 0], True)
    # a designed pulse, as the tests use it
    pulse = slr.dzrf(64, 8, "ex", "ls", 0.01, 0.01)
    call("dz", sim.abrm, pulse, np.arange(-16, 16, 0.25), True)
    call("dz-nd", sim.abrm_nd, pulse, np.arange(-16, 16, 0.5)[:, None],
         np.ones((64, 1)) * 2 * np.pi / 64)
    rf = np.array([0.3 + 0.1j, -0.2j, 1.5, 0.0, -3.3])
    # unusual-but-accepted inputs
    call("x-1d-single", sim.abrm_nd, rf, np.ones(1), np.ones((5, 1)))
    call("x-1d-vec", sim.abrm_nd, rf, np.ones(3), np.ones((5, 3)))
    call("x-int", sim.abrm_nd, rf, np.arange(6).reshape(3, 2),
         np.arange(10).reshape(5, 2))
    call("x-cplx", sim.abrm_nd, rf, np.ones((3, 1)) * (1 + 0.2j),
         np.ones((5, 1)))
    call("g-longer", sim.abrm_nd, rf[:3], np.ones((2, 1)), np.ones((5, 1)))
    call("nan", sim.abrm_nd, np.array([np.nan, 1.0]), np.ones((2, 1)),
         np.ones((2, 1)))
    call("empty", sim.abrm_nd, np.zeros(0), np.ones((2, 1)), np.ones((0, 1)))
    call("rf2d", sim.abrm_nd, np.ones((2, 2)) * 0.3, np.ones((3, 1)),
         np.ones((4, 1)))
    call("a-scalar-x", sim.abrm, rf, 0.7, True)
    call("a-scalar-x0", sim.abrm, rf, 0.0, False)
    call("a-int-x", sim.abrm, rf, np.arange(-3, 4), True)
    call("a-x2d", sim.abrm, rf, np.ones((2, 3)), False)
    call("a-xlist", sim.abrm, rf, [0.0, 0.5, 1.0], True)
    call("a-cplx-x", sim.abrm, rf, np.linspace(-1, 1, 3) * (1 + 0.1j), True)
    call("a-empty", sim.abrm, np.zeros(0), np.ones(3), True)
    call("a-size1", sim.abrm, np.array([2.0j]), np.array([0.3]), True)
    call("a-nan", sim.abrm, np.array([np.nan, 1.0]), np.ones(2), False)
    call("a-balint", sim.abrm, rf, np.linspace(-2, 2, 5), 1)
    call("a-rf2d", sim.abrm, np.ones((2, 2)) * 0.3, np.ones(3), False)
    # aliasing between arguments
    v = np.linspace(-1.5, 1.5, 5)
    call("alias-a", sim.abrm, v, v, True)
    m = np.linspace(-1, 1, 25).reshape(5, 5)
    call("alias-nd", sim.abrm_nd, v, m, m)
    call("alias-nd2", sim.abrm_nd, m[:, 0], m, m)
    w = np.linspace(-1, 1, 10)
    call("overlap", sim.abrm, w[:6], w[3:], False)
    # invalid inputs
    call("bad-short-g", sim.abrm_nd, rf, np.ones((3, 1)), np.ones((4, 1)))
    call("bad-dims", sim.abrm_nd, rf, np.ones((3, 2)), np.ones((5, 3)))
    call("bad-g1d", sim.abrm_nd, rf, np.ones((3, 1)), np.ones(5))
    call("bad-glist", sim.abrm_nd, rf, np.ones((3, 1)), [[1]] * 5)
    call("bad-x0d", sim.abrm_nd, rf, np.float64(1.0), np.ones((5, 1)))
    call("bad-x3d", sim.abrm_nd, rf, np.ones((2, 3, 2)), np.ones((5, 2)))
    call("bad-none", sim.abrm_nd, None, np.ones((3, 1)), np.ones((5, 1)))
    call("bad-rfscalar", sim.abrm_nd, np.float64(1.0), np.ones((3, 1)),
         np.ones((5, 1)))
    call("a-bad-none", sim.abrm, None, np.ones(3), False)
    call("a-bad-rfscalar", sim.abrm, np.float64(1.0), np.ones(3), False)
    call("a-bad-xstr", sim.abrm, rf, "abc", False)
    call("a-rflist", sim.abrm, [0.1, 0.2], np.ones(3), False)
    print("calls:", n)
    print("DIGEST", H.hexdigest())


if __name__ == "__main__":
    main()
