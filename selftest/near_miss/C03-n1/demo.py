"""C03 / round 3 / near-miss n1: equivalence digest for Hstack._apply.

Exercises Hstack (directly, nested, inside the algebra, and as the adjoint of
Vstack / inside Diag.H) on a spread of dtypes, shapes, axes, block counts,
memory layouts, repeated calls and invalid inputs, and prints one SHA256
digest of everything observable: values (10 significant digits), dtypes,
shapes, aliasing with the caller's array, exception types, and the caller's
input arrays after the call.
"""
import hashlib
import itertools
import warnings

import numpy as np

from sigpy import linop

warnings.simplefilter("ignore")
H = hashlib.sha256()
COUNT = {"cases": 0, "results": 0, "exceptions": 0}


def put(*items):
    for it in items:
        H.update(repr(it).encode())
        H.update(b"|")


def put_array(a):
    a = np.asarray(a)
    put(str(a.dtype), tuple(a.shape))
    flat = a.ravel()
    if np.iscomplexobj(flat):
        vals = ["%.9e%+.9ej" % (v.real, v.imag) for v in flat]
    else:
        vals = ["%.9e" % float(v) for v in flat]
    put(",".join(vals))


def exc_chain(e):
    names = []
    while e is not None:
        names.append(type(e).__name__)
        e = e.__cause__
    return names[:1]  # outermost type is what callers can catch


def run(tag, op, x):
    """Apply op to x twice, record everything."""
    put("CASE", tag, list(op.oshape), list(op.ishape))
    COUNT["cases"] += 1
    x_before = x.copy()
    for rep in range(2):
        try:
            y = op(x)
        except Exception as e:  # noqa
            put("EXC", exc_chain(e))
            COUNT["exceptions"] += 1
            continue
        COUNT["results"] += 1
        put_array(y)
        put("alias", bool(np.shares_memory(y, x)), y.flags.writeable)
    put("input-after")
    put_array(x)
    put("input-unchanged", bool(np.array_equal(x, x_before, equal_nan=True)))


def rand(rng, shape, dtype):
    dtype = np.dtype(dtype)
    shape = tuple(int(s) for s in shape)
    if dtype.kind == "c":
        a = rng.standard_normal(shape) + 1j * rng.standard_normal(shape)
        return np.asarray(a).astype(dtype)
    if dtype.kind in "iu":
        return np.asarray(rng.randint(-9, 9, size=shape)).astype(dtype)
    return np.asarray(rng.standard_normal(shape)).astype(dtype)


def blocks_along(rng, base, axis, sizes, oshape_kind):
    """Linops with ishape = base but size sizes[k] along axis, common oshape."""
    ops = []
    ndim = len(base)
    ax = axis % ndim
    for k, s in enumerate(sizes):
        ishape = list(base)
        ishape[ax] = s
        oshape = list(base)
        oshape[ax] = max(sizes)
        R = linop.Resize(oshape, ishape)
        if oshape_kind == "plain":
            ops.append(R)
        elif oshape_kind == "scaled":
            ops.append((0.5 - 1j * k) * R)
        elif oshape_kind == "mult":
            m = rng.randn(*oshape) + (1j * rng.randn(*oshape) if k % 2 else 0)
            ops.append(linop.Multiply(oshape, m) * R)
        elif oshape_kind == "shift":
            ops.append(linop.Circshift(oshape, [k + 1], axes=[ax]) * R * 2.0)
    return ops


def main():
    rng = np.random.RandomState(77)
    dtypes = [np.float32, np.float64, np.complex64, np.complex128, np.int32]

    # ---- axis stacking: all axes in [-ndim, ndim), 1..4 blocks -------------
    bases = [[5], [4, 3], [3, 3], [2, 1, 3], [1, 1], [3, 2, 2, 2]]
    size_sets = [[3], [2, 2], [1, 4], [3, 1, 2], [2, 2, 1, 3]]
    kinds = ["plain", "scaled", "mult", "shift"]
    count = 0
    for base in bases:
        ndim = len(base)
        for axis in range(-ndim, ndim):
            for sizes in size_sets:
                kind = kinds[count % len(kinds)]
                dtype = dtypes[count % len(dtypes)]
                count += 1
                ops = blocks_along(rng, base, axis, sizes, kind)
                A = linop.Hstack(ops, axis=axis)
                x = rand(rng, A.ishape, dtype)
                run(("axis", base, axis, sizes, kind), A, x)

                if count % 3 == 0:
                    # non-contiguous / strided caller arrays
                    xf = np.asfortranarray(rand(rng, A.ishape, dtype))
                    run(("axis-F", base, axis, sizes), A, xf)
                    big = rand(rng, [2 * s for s in A.ishape], dtype)
                    xs = big[tuple(slice(None, None, 2) for _ in A.ishape)]
                    run(("axis-strided", base, axis, sizes), A, xs)
                    ro = rand(rng, A.ishape, dtype)
                    ro.flags.writeable = False
                    run(("axis-readonly", base, axis, sizes), A, ro)

    # ---- flattened stacking (axis=None), blocks of different rank ----------
    ishapes_sets = [
        [[4]],
        [[2, 3], [5]],
        [[3], [1, 2], [2, 2, 1]],
        [[1], [1], [1], [1]],
        [[2, 2], [2, 2]],
    ]
    for k, ishapes in enumerate(ishapes_sets):
        for dtype in dtypes:
            ops = []
            for j, ishape in enumerate(ishapes):
                n = int(np.prod(ishape))
                mat = rng.randn(3, n) + 1j * rng.randn(3, n) * (j % 2)
                ops.append(
                    linop.Reshape([3], [3, 1])
                    * linop.MatMul([n, 1], mat)
                    * linop.Reshape([n, 1], ishape)
                )
            A = linop.Hstack(ops)
            x = rand(rng, A.ishape, dtype)
            run(("flat", ishapes, str(np.dtype(dtype))), A, x)
            run(("flat-strided", ishapes), A, rand(rng, [2 * A.ishape[0]],
                                                  dtype)[::2])
            run(("flat-reversed", ishapes), A, rand(rng, A.ishape,
                                                   dtype)[::-1])

    # ---- identities: outputs derived directly from the caller's array ------
    for shape, axis in [([5], None), ([5], 0), ([5, 3], 1), ([5, 3], -2),
                        ([2, 2], None), ([1, 4], -1)]:
        Id = linop.Identity(shape)
        for nblocks in [1, 2, 3]:
            A = linop.Hstack([Id] * nblocks, axis=axis)
            for dtype in [np.float64, np.complex64]:
                x = rand(rng, A.ishape, dtype)
                run(("identity", shape, axis, nblocks), A, x)
                # result fed back in, and same array used for two operators
                B = linop.Hstack([Id, -1 * Id] * nblocks, axis=axis)
                xb = rand(rng, B.ishape, dtype)
                run(("identity-b", shape, axis, nblocks), B, xb)
                run(("identity-b-again", shape, axis, nblocks), B, xb)

    # ---- Hstack inside the algebra, nested, and as an adjoint --------------
    Id = linop.Identity([3, 2])
    F = linop.FFT([3, 2], axes=[0])
    T = linop.Transpose([2, 3])
    H1 = linop.Hstack([Id, F, 2j * Id], axis=-1)
    H2 = linop.Hstack([F, Id - F, Id], axis=1)
    for dtype in dtypes:
        x = rand(rng, H1.ishape, dtype)
        run("algebra-sum", H1 + H2, x)
        run("algebra-diff-scaled", (3 * H1 - H2 * (1 - 1j)), x)
        run("algebra-compose", F * H1, x)
        nested = linop.Hstack([H1, H2, H1 - H2], axis=0)
        run("nested", nested, rand(rng, nested.ishape, dtype))
        nested2 = linop.Hstack([H1, H2])
        run("nested-flat", nested2, rand(rng, nested2.ishape, dtype))
        V = linop.Vstack([Id, F, T * linop.Transpose([3, 2])], axis=0)
        run("vstack-adjoint", V.H, rand(rng, V.oshape, dtype))
        Vn = linop.Vstack([Id, T.H, F])
        run("vstack-flat-adjoint", Vn.H, rand(rng, Vn.oshape, dtype))
        D = linop.Diag([Id, F, Id], oaxis=0, iaxis=1)
        run("diag-adjoint", D.H, rand(rng, D.oshape, dtype))
        run("normal", H1.N, rand(rng, H1.ishape, dtype))
        run("adjoint-of-adjoint", H2.H.H, rand(rng, H2.ishape, dtype))

    # ---- invalid inputs -----------------------------------------------------
    A = linop.Hstack([linop.Identity([4, 3]), linop.Identity([4, 3])], axis=1)
    B = linop.Hstack([linop.Identity([4, 3]), linop.Identity([4, 3])])
    C = linop.Hstack([linop.Identity([4, 3])], axis=-1)
    for op in [A, B, C]:
        for shape in [[4, 6], [4, 5], [4, 7], [4], [6], [24], [23], [12],
                      [4, 6, 2], [24, 2], [4, 3], [4, 3, 1], [3, 6], [],
                      [1], [4, 1], [1, 6]]:
            for dtype in [np.float64, np.complex64]:
                x = rand(rng, shape, dtype)
                run(("invalid?", op.axis, len(op.linops), shape), op, x)

    print(H.hexdigest())
    print(COUNT)


if __name__ == "__main__":
    main()
