"""Equivalence demonstration for near-miss n2 (GradientMethod._update computes
the step x - x_old once and accumulates the momentum point in z).

Exercises sigpy.alg.GradientMethod directly (accelerated or not, with and
without a prox, scalar / array step sizes, real / complex / single / half
precision, odd shapes incl. 0-d and size-1 axes, strided x, tol-based early
stopping, invalid dtypes) and through app.LinearLeastSquares, recording after
EVERY iteration x, the momentum point z, t, resid, and finally the caller's
arrays.  Prints one SHA256 digest.
"""
import hashlib
import itertools
import warnings

import numpy as np

from sigpy import alg, app, linop, prox

warnings.filterwarnings("ignore")
H = hashlib.sha256()
NREC = [0]


def num(v):
    v = complex(v)
    out = []
    for p in (v.real, v.imag):
        if p != p:
            out.append("nan")
        elif p in (np.inf, -np.inf):
            out.append("inf" if p > 0 else "-inf")
        elif p == 0:
            out.append("0")
        else:
            out.append("%.9e" % p)
    return out[0] + "," + out[1]


def desc(a):
    if a is None or isinstance(a, (str, bool)):
        return repr(a)
    if isinstance(a, (int, float, complex, np.generic)):
        return type(a).__name__ + ":" + num(a)
    a = np.asarray(a)
    return "%s%s[%s]" % (a.dtype, a.shape, ";".join(num(v) for v in a.ravel()))


def rec(*items):
    for it in items:
        H.update(desc(it).encode())
        H.update(b"|")
    H.update(b"\n")
    NREC[0] += 1


def rnd(rng, shape, dtype):
    a = rng.randn(*shape) if len(shape) else np.array(rng.randn())
    if np.issubdtype(dtype, np.complexfloating):
        a = a + 1j * (rng.randn(*shape) if len(shape) else rng.randn())
    return np.asarray(a).astype(dtype)


def drive(tag, gm, watch):
    """Run the Alg by hand, recording the full state after every update."""
    try:
        while not gm.done():
            gm.update()
            rec(tag, gm.iter, gm.x, getattr(gm, "z", None),
                getattr(gm, "t", None), gm.resid)
        rec(tag, "done", gm.iter)
    except Exception as e:  # noqa
        rec(tag, "exc", type(e).__name__,
            type(e.__cause__).__name__ if e.__cause__ else None)
    rec(tag, "inputs", *watch)


case = 0
# ---- direct use of the Alg --------------------------------------------------
shapes = [[6], [3, 2], [1, 4, 1], [1], []]
dtypes = [np.float64, np.complex128, np.float32, np.complex64, np.float16]
for shape, dtype, accelerate, pkind, akind in itertools.product(
        shapes, dtypes, [True, False], [None, "func", "l1", "box"],
        ["scalar", "array"]):
    if pkind == "box" and np.issubdtype(dtype, np.complexfloating):
        continue
    case += 1
    rng = np.random.RandomState(case)
    n = int(np.prod(shape)) if len(shape) else 1
    Q = rnd(rng, [n, n], dtype)
    Hm = (Q.conj().T @ Q / n + 0.5 * np.eye(n)).astype(dtype)
    b = rnd(rng, shape, dtype)
    x = rnd(rng, shape, dtype)
    x_in = x

    def gradf(v, Hm=Hm, b=b, shape=shape):
        return (Hm @ np.reshape(v, [-1])).reshape(shape) - b

    L = float(np.linalg.norm(Hm.astype(np.complex128), 2))
    if akind == "scalar":
        alpha = 0.9 / L
    else:
        rdt = np.float64 if dtype in (np.float64, np.complex128) else np.float32
        alpha = np.asarray((0.5 + 0.4 * rng.rand(*shape)) / L).astype(rdt)
    if pkind is None:
        proxg = None
    elif pkind == "func":
        proxg = lambda a, v: v / (1 + 0.3 * a)  # noqa
    elif pkind == "l1":
        proxg = prox.L1Reg(shape, 0.2)
    else:
        proxg = prox.BoxConstraint(shape, -0.3, 0.2)
    tag = "alg-%s-%s-%s-%s-%s" % (shape, np.dtype(dtype).name, accelerate,
                                   pkind, akind)
    # An array-valued alpha makes resid an array, so _done() raises once the
    # residual is compared with tol: recorded as an exception type either way.
    gm = alg.GradientMethod(gradf, x, alpha, proxg=proxg,
                            accelerate=accelerate, max_iter=9)
    drive(tag, gm, [x_in, b, alpha if akind == "array" else None])

# ---- x is a strided view into a bigger caller array -------------------------
for accelerate, dtype in itertools.product([True, False],
                                           [np.float64, np.complex128]):
    rng = np.random.RandomState(77)
    big = rnd(rng, [4, 10], dtype)
    x = big[1:3, ::2]          # non-contiguous view; updated in place
    Hd = (0.5 + rng.rand(2, 5))
    b = rnd(rng, [2, 5], dtype)
    gm = alg.GradientMethod(lambda v: Hd * v - b, x, 0.6,
                            proxg=prox.L1Reg([2, 5], 0.1),
                            accelerate=accelerate, max_iter=8)
    drive("view-%s-%s" % (accelerate, np.dtype(dtype).name), gm, [big, b])

# ---- gradf that returns (an alias of) its argument; tol early exit ----------
for accelerate in [True, False]:
    x = np.linspace(-1, 1, 7)
    gm = alg.GradientMethod(lambda v: v, x, 0.5, accelerate=accelerate,
                            max_iter=200, tol=1e-3)
    drive("alias-tol-%s" % accelerate, gm, [x])
    x = np.zeros(5)
    gm = alg.GradientMethod(lambda v: v, x, 0.5, accelerate=accelerate,
                            max_iter=50, tol=0)
    drive("fixedpoint-%s" % accelerate, gm, [x])
    x = np.array([1.0, np.inf, -2.0, np.nan])
    gm = alg.GradientMethod(lambda v: 0.5 * v, x, 0.5, accelerate=accelerate,
                            max_iter=3)
    drive("nonfinite-%s" % accelerate, gm, [x])

# ---- invalid dtypes ---------------------------------------------------------
for accelerate, step in itertools.product([True, False], [1, 0.5]):
    x = np.arange(6)                      # integer x
    gm = alg.GradientMethod(lambda v: v // 2, x, step, accelerate=accelerate,
                            max_iter=4)
    drive("int-x-%s-%s" % (accelerate, step), gm, [x])
    x = np.arange(6) > 2                  # boolean x
    try:
        gm = alg.GradientMethod(lambda v: v, x, step, accelerate=accelerate,
                                max_iter=4)
        drive("bool-x-%s-%s" % (accelerate, step), gm, [x])
    except Exception as e:  # noqa
        rec("bool-x-ctor", type(e).__name__)
    x = np.zeros(4)                       # real x, complex gradient
    gm = alg.GradientMethod(lambda v: v + 1j, x, step, accelerate=accelerate,
                            max_iter=4)
    drive("cplx-grad-%s-%s" % (accelerate, step), gm, [x])
    x = np.zeros(4)                       # prox of the wrong shape
    gm = alg.GradientMethod(lambda v: v - 1, x, step, accelerate=accelerate,
                            proxg=lambda a, v: v[:3], max_iter=4)
    drive("bad-prox-%s-%s" % (accelerate, step), gm, [x])

# ---- through LinearLeastSquares ---------------------------------------------
for dtype, lamda, zkind, pkind, accelerate, akind, use_x0 in itertools.product(
        [np.float64, np.complex128, np.complex64], [0, 0.4],
        [None, "arr", "scal"], [None, "l1", "l2"], [True, False],
        [None, "given"], [False, True]):
    case += 1
    rng = np.random.RandomState(case)
    n, m = 5, 7
    M = rnd(rng, [m, n], dtype)
    A = linop.MatMul([n, 1], M)
    y = rnd(rng, [m, 1], dtype)
    z = rnd(rng, [n, 1], dtype)
    x0 = rnd(rng, [n, 1], dtype) if use_x0 else None
    z_in = {None: None, "arr": z, "scal": 0.5}[zkind]
    proxg = {None: None, "l1": prox.L1Reg([n, 1], 0.3),
             "l2": prox.L2Reg([n, 1], 0.6)}[pkind]
    alpha = None
    if akind == "given":
        alpha = 0.8 / (np.linalg.norm(M.astype(np.complex128), 2) ** 2 + lamda)
    np.random.seed(case)
    tag = "lls-%d" % case
    try:
        a = app.LinearLeastSquares(
            A, y, x=x0, proxg=proxg, lamda=lamda, z=z_in,
            solver="GradientMethod" if case % 4 else None, alpha=alpha,
            accelerate=accelerate, max_iter=25, show_pbar=False)
        x = a.run()
        rec(tag, "ok", a.solver, x, a.alpha, a.alg.resid,
            getattr(a.alg, "z", None), x is x0)
    except Exception as e:  # noqa
        rec(tag, "exc", type(e).__name__)
    rec(tag, "inputs", y, z, x0)

print("records:", NREC[0])
print("DIGEST", H.hexdigest())
