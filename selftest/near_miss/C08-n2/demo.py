"""Equivalence digest for the C08 near-miss changes (n1 and n2 share it).

Exercises convolve / convolve_data_adjoint / convolve_filter_adjoint, the
parameter helper and the four Convolve* linops on a spread of shapes, modes,
strides, dtypes, batch/channel layouts, aliasing arguments, repeated calls and
invalid inputs, and prints one SHA256 over all results (values rounded to 10
significant digits, dtypes, shapes, exception types, and the caller's input
arrays after each call).
"""
import hashlib
import itertools
import pickle
import sys
import warnings

import numpy as np

import sigpy as sp
from sigpy import conv

warnings.simplefilter("ignore")
H = hashlib.sha256()
NREC = [0]


def rnd10(x):
    x = np.asarray(x)
    if x.dtype.kind in "fc":
        with np.errstate(all="ignore"):
            if x.dtype.kind == "c":
                return rnd10(x.real) + 1j * rnd10(x.imag)
            x64 = x.astype(np.float64)
            out = np.zeros_like(x64)
            nz = np.isfinite(x64) & (x64 != 0)
            e = np.floor(np.log10(np.abs(x64[nz])))
            sc = 10.0 ** (9 - e)
            out[nz] = np.round(x64[nz] * sc) / sc
            out[~np.isfinite(x64)] = x64[~np.isfinite(x64)]
            return out + 0.0  # normalise -0.0
    return x


def rec(tag, val):
    NREC[0] += 1
    H.update(tag.encode())
    if isinstance(val, np.ndarray):
        H.update(str(val.dtype).encode())
        H.update(str(val.shape).encode())
        H.update(np.ascontiguousarray(rnd10(val)).tobytes())
    else:
        H.update(repr(val).encode())


def call(tag, fn, inputs):
    """Run fn(), record result or exception type, then the inputs."""
    try:
        with warnings.catch_warnings():
            warnings.simplefilter("ignore")
            out = fn()
        if isinstance(out, tuple):
            rec(tag, repr(out))
        else:
            rec(tag, out)
    except Exception as e:
        out = None
        rec(tag, "EXC:" + type(e).__name__)
    for k, a in enumerate(inputs):
        rec(tag + ":in%d" % k, a)
    return out


def mk(rng, shape, dtype):
    dtype = np.dtype(dtype)
    if dtype.kind == "c":
        x = rng.standard_normal(shape) + 1j * rng.standard_normal(shape)
    elif dtype.kind == "f":
        x = rng.standard_normal(shape)
    else:
        x = rng.integers(-4, 5, size=shape)
    return x.astype(dtype)


def main():
    rng = np.random.default_rng(2024)
    layouts = [
        # multi_channel, batch, c_i, c_o
        (False, (), 1, 1),
        (False, (2,), 1, 1),
        (False, (2, 1, 2), 1, 1),
        (True, (), 2, 3),
        (True, (), 1, 1),
        (True, (3,), 2, 1),
        (True, (2, 2), 1, 2),
    ]
    sizes = {
        1: [((5,), (3,)), ((4,), (4,)), ((3,), (5,)), ((6,), (1,)),
            ((1,), (1,))],
        2: [((4, 3), (2, 3)), ((3, 3), (3, 3)), ((2, 3), (4, 3)),
            ((4, 3), (3, 4)), ((5, 1), (2, 1))],
        3: [((3, 2, 3), (2, 2, 1)), ((2, 2, 2), (2, 3, 2))],
    }
    stride_sets = {
        1: [None, (1,), (2,), (3,), [2]],
        2: [None, (1, 1), (2, 2), (2, 3), (3, 1), [1, 2]],
        3: [None, (2, 1, 3)],
    }
    dtypes = [
        (np.float64, np.float64),
        (np.complex128, np.complex128),
        (np.float32, np.float32),
        (np.complex64, np.complex64),
    ]
    mixed = [
        (np.complex128, np.float64),
        (np.float64, np.complex128),
        (np.float32, np.float64),
        (np.int64, np.float64),
        (np.complex64, np.complex128),
    ]

    # ---- parameter helper: every combination incl. invalid ones ----------
    for D in [1, 2, 3]:
        for (m, n) in sizes[D]:
            for mode in ["full", "valid", "same", None]:
                for s in stride_sets[D] + [(1,) * (D + 1), ()]:
                    for mc, b, ci, co in layouts:
                        ds = b + ((ci,) if mc else ()) + m
                        fs = ((co, ci) if mc else ()) + n
                        for dshape, fshape in [(ds, fs), (list(ds), list(fs))]:
                            call(
                                "params",
                                lambda: conv._get_convolve_params(
                                    dshape, fshape, mode, s, mc
                                ),
                                [],
                            )
    # channel mismatch
    call("params-mis", lambda: conv._get_convolve_params(
        (3, 5), (2, 2, 3), "full", None, True), [])

    # ---- functional API -------------------------------------------------
    for D in [1, 2, 3]:
        for (m, n) in sizes[D]:
            for mode in ["full", "valid"]:
                for s in stride_sets[D]:
                    for li, (mc, b, ci, co) in enumerate(layouts):
                        if D == 3 and li in (2, 6):
                            continue
                        dts = list(dtypes)
                        if D == 1 or (D == 2 and s in [None, (2, 3)]):
                            dts = dts + mixed
                        for (dt_d, dt_f) in dts:
                            ds = b + ((ci,) if mc else ()) + m
                            fs = ((co, ci) if mc else ()) + n
                            data = mk(rng, ds, dt_d)
                            filt = mk(rng, fs, dt_f)
                            tag = "D%d%s%s%s%s%d%s%s" % (
                                D, m, n, mode, s, li,
                                np.dtype(dt_d).name, np.dtype(dt_f).name)
                            kw = dict(mode=mode, strides=s, multi_channel=mc)
                            out = call(
                                tag + "conv",
                                lambda: conv.convolve(data, filt, **kw),
                                [data, filt],
                            )
                            if out is None:
                                # still exercise adjoints with a guessed y
                                try:
                                    pr = conv._get_convolve_params(
                                        ds, fs, mode, s, mc)
                                    osh = pr[1] + ((pr[7],) if mc else ()) \
                                        + pr[8]
                                    y = mk(rng, osh, dt_d)
                                except Exception:
                                    continue
                            else:
                                y = mk(rng, out.shape, dt_d)
                            y2 = y.astype(dt_f) if np.dtype(dt_f).kind \
                                != "i" else y
                            for yy, nm in [(y, "y"), (y2, "y2")]:
                                call(
                                    tag + "dadj" + nm,
                                    lambda: conv.convolve_data_adjoint(
                                        yy, filt, ds, **kw),
                                    [yy, filt],
                                )
                                call(
                                    tag + "dadjL" + nm,
                                    lambda: conv.convolve_data_adjoint(
                                        yy, filt, list(ds), **kw),
                                    [yy, filt],
                                )
                                call(
                                    tag + "fadj" + nm,
                                    lambda: conv.convolve_filter_adjoint(
                                        yy, data, fs, **kw),
                                    [yy, data],
                                )
                                # repeated call: no state kept between calls
                                call(
                                    tag + "fadj2" + nm,
                                    lambda: conv.convolve_filter_adjoint(
                                        yy, data, list(fs), **kw),
                                    [yy, data],
                                )

    # ---- aliasing arguments, non-contiguous and read-only inputs ---------
    for dt in [np.float64, np.complex128]:
        x = mk(rng, (4, 4), dt)
        call("alias-conv", lambda: conv.convolve(x, x, mode="full"), [x])
        call("alias-conv-v", lambda: conv.convolve(x, x, mode="valid"), [x])
        call("alias-dadj", lambda: conv.convolve_data_adjoint(
            x, x, (4, 4), mode="valid"), [x])
        call("alias-fadj", lambda: conv.convolve_filter_adjoint(
            x, x, (4, 4), mode="valid"), [x])
        call("alias-fadj-full", lambda: conv.convolve_filter_adjoint(
            mk(rng, (7, 7), dt), x, (4, 4), mode="full"), [x])
        big = mk(rng, (2, 3, 8, 6), dt)
        view = big[:, :, ::2, ::-1]  # non-contiguous, negative stride
        f = mk(rng, (2, 3, 2, 2), dt)
        fT = np.asfortranarray(f)
        kw = dict(mode="full", strides=(2, 1), multi_channel=True)
        o = call("nc-conv", lambda: conv.convolve(view, fT, **kw),
                 [big, fT])
        call("nc-dadj", lambda: conv.convolve_data_adjoint(
            o[..., ::1], fT, view.shape, **kw), [o, fT])
        call("nc-fadj", lambda: conv.convolve_filter_adjoint(
            o, view, f.shape, **kw), [o, big])
        ro = mk(rng, (5, 4), dt)
        ro.setflags(write=False)
        fr = mk(rng, (2, 2), dt)
        fr.setflags(write=False)
        o = call("ro-conv", lambda: conv.convolve(ro, fr, mode="valid",
                                                  strides=(2, 2)), [ro, fr])
        o.setflags(write=False)
        call("ro-dadj", lambda: conv.convolve_data_adjoint(
            o, fr, ro.shape, mode="valid", strides=(2, 2)), [o, fr])
        call("ro-fadj", lambda: conv.convolve_filter_adjoint(
            o, ro, fr.shape, mode="valid", strides=(2, 2)), [o, ro])

    # ---- invalid inputs ---------------------------------------------------
    d = mk(rng, (2, 5, 4), np.float64)
    f = mk(rng, (3, 2, 2, 2), np.float64)
    bad = [
        ("mode", dict(mode="same", multi_channel=True)),
        ("strlen", dict(mode="full", strides=(2,), multi_channel=True)),
        ("str0", dict(mode="full", strides=(0, 1), multi_channel=True)),
        ("mixed", dict(mode="valid", multi_channel=False)),
    ]
    for nm, kw in bad:
        call("bad-conv-" + nm, lambda: conv.convolve(d, f, **kw), [d, f])
        call("bad-dadj-" + nm, lambda: conv.convolve_data_adjoint(
            d, f, d.shape, **kw), [d, f])
        call("bad-fadj-" + nm, lambda: conv.convolve_filter_adjoint(
            d, d, f.shape, **kw), [d])
    call("bad-chan", lambda: conv.convolve(
        mk(rng, (3, 5, 4), np.float64), f, multi_channel=True), [f])
    call("bad-mixed-valid", lambda: conv.convolve(
        mk(rng, (5, 2), np.float64), mk(rng, (3, 3), np.float64),
        mode="valid"), [])
    call("bad-yshape", lambda: conv.convolve_data_adjoint(
        mk(rng, (7,), np.float64), mk(rng, (3,), np.float64), (6,)), [])
    call("bad-yshape-f", lambda: conv.convolve_filter_adjoint(
        mk(rng, (7,), np.float64), mk(rng, (6,), np.float64), (3,)), [])

    # ---- zero channels / empty batch ----------------------------------------
    for mode in ["full", "valid"]:
        for (m, n) in [((5,), (3,)), ((3,), (5,))]:
            for s in [None, (2,)]:
                for (bb, ci, co) in [((2,), 0, 2), ((2,), 2, 0), ((0,), 2, 2)]:
                    d0 = mk(rng, bb + (ci,) + m, np.float64)
                    f0 = mk(rng, (co, ci) + n, np.float64)
                    kw = dict(mode=mode, strides=s, multi_channel=True)
                    o0 = call("z-conv", lambda: conv.convolve(d0, f0, **kw),
                              [d0, f0])
                    for psz in [1, 2, 3, 4, 7]:
                        y0 = mk(rng, bb + (co, psz), np.float64)
                        call("z-dadj", lambda: conv.convolve_data_adjoint(
                            y0, f0, d0.shape, **kw), [y0, f0])
                        call("z-fadj", lambda: conv.convolve_filter_adjoint(
                            y0, d0, f0.shape, **kw), [y0, d0])

    # ---- linops ------------------------------------------------------------
    for dt in [np.float64, np.complex64]:
        for mode in ["full", "valid"]:
            for s in [None, (2, 1), [1, 3]]:
                for mc, b, ci, co in [(False, (2,), 1, 1), (True, (), 2, 3),
                                      (True, (2,), 2, 2)]:
                    ds = b + ((ci,) if mc else ()) + (5, 4)
                    fs = ((co, ci) if mc else ()) + (2, 3)
                    data = mk(rng, ds, dt)
                    filt = mk(rng, fs, dt)
                    tag = "L%s%s%s%s" % (np.dtype(dt).name, mode, s, ds)
                    A = sp.linop.ConvolveData(ds, filt, mode=mode, strides=s,
                                              multi_channel=mc)
                    Bf = sp.linop.ConvolveFilter(fs, data, mode=mode,
                                                 strides=s, multi_channel=mc)
                    rec(tag + "shapes", repr((A.oshape, A.ishape, Bf.oshape,
                                               Bf.ishape)))
                    y = mk(rng, A.oshape, dt)
                    for rep in range(2):
                        call(tag + "A", lambda: A(data), [data, filt])
                        call(tag + "AH", lambda: A.H(y), [y, filt])
                        call(tag + "AHH", lambda: A.H.H(data), [data])
                        call(tag + "AN", lambda: A.N(data), [data])
                        call(tag + "B", lambda: Bf(filt), [data, filt])
                        call(tag + "BH", lambda: Bf.H(y), [y, data])
                        call(tag + "BHH", lambda: Bf.H.H(filt), [filt])
                    A2 = pickle.loads(pickle.dumps(A))
                    call(tag + "pick", lambda: A2.H(y), [y])
                    AD = sp.linop.ConvolveDataAdjoint(
                        ds, filt, mode=mode, strides=s, multi_channel=mc)
                    FD = sp.linop.ConvolveFilterAdjoint(
                        fs, data, mode=mode, strides=s, multi_channel=mc)
                    call(tag + "AD", lambda: AD(y), [y])
                    call(tag + "FD", lambda: FD(y), [y])

    print("records:", NREC[0])
    print("DIGEST", H.hexdigest())
    return 0


if __name__ == "__main__":
    sys.exit(main())
