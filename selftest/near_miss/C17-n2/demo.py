"""Equivalence demo for the C17 near-miss rewrites (EspiritCalib.__init__ /
EspiritCalib._output and the helpers they rely on).

Prints one SHA256 digest over: all results (values rounded to 10 significant
digits, dtypes, shapes), exception types for invalid inputs, and digests of
the caller's input arrays after each call.  The digest must be identical on
the pristine and on the rewritten tree.
"""
import hashlib
import sys
import warnings

import numpy as np

import sigpy as sp
import sigpy.mri as mr

warnings.simplefilter("ignore")
H = hashlib.sha256()
VERBOSE = len(sys.argv) > 1  # any argument: list what goes into the digest


def _round10(x):
    x = np.asarray(x, dtype=np.float64)
    m, e = np.frexp(x)
    y = np.ldexp(np.round(m, 10), e)
    y = np.where(np.isnan(x), 1.2345e300, y)
    y = np.where(np.isposinf(x), 1e301, y)
    y = np.where(np.isneginf(x), -1e301, y)
    return y + 0.0  # -0.0 -> 0.0


def put(tag, obj):
    H.update(tag.encode())
    if isinstance(obj, (tuple, list)):
        H.update(("seq%d" % len(obj)).encode())
        for i, o in enumerate(obj):
            put("%s[%d]" % (tag, i), o)
        return
    if isinstance(obj, BaseException):
        H.update(("EXC:" + type(obj).__name__).encode())
        if VERBOSE:
            print(tag, "EXC", type(obj).__name__)
        return
    a = np.asarray(obj)
    if VERBOSE:
        print(tag, a.dtype, a.shape)
    H.update(str(a.dtype).encode())
    H.update(str(a.shape).encode())
    if np.iscomplexobj(a):
        H.update(np.ascontiguousarray(_round10(a.real)).tobytes())
        H.update(np.ascontiguousarray(_round10(a.imag)).tobytes())
    elif a.dtype == bool:
        H.update(np.ascontiguousarray(a).tobytes())
    else:
        H.update(np.ascontiguousarray(_round10(a)).tobytes())


def attempt(tag, fn):
    try:
        out = fn()
    except Exception as e:  # noqa
        out = e
    put(tag, out)
    return out


def cfft(x, axes):
    return np.fft.fftshift(
        np.fft.fftn(np.fft.ifftshift(x, axes=axes), axes=axes, norm="ortho"),
        axes=axes,
    )


def smooth_ksp(nc, shape, rng, radius=0.6, noise=0.0):
    grids = np.meshgrid(*[np.linspace(-1, 1, n) for n in shape], indexing="ij")
    maps = []
    for c in range(nc):
        ctr = rng.uniform(-1.2, 1.2, size=len(shape))
        r2 = sum((g - ci) ** 2 for g, ci in zip(grids, ctr))
        ph = sum(rng.uniform(-1.0, 1.0) * g for g in grids)
        maps.append(np.exp(-r2 / 1.5) * np.exp(1j * ph))
    obj = (sum(g**2 for g in grids) < radius**2) * (1.0 + 0.3 * grids[0])
    ksp = cfft(np.array(maps) * obj, axes=tuple(range(-len(shape), 0)))
    ksp = ksp + noise * np.abs(ksp).max() * (
        rng.standard_normal(ksp.shape) + 1j * rng.standard_normal(ksp.shape)
    )
    return ksp


def run_espirit(tag, ksp, twice=False, **kw):
    ksp0 = ksp.copy()

    def go():
        app = mr.app.EspiritCalib(ksp, show_pbar=False, **kw)
        out = app.run()
        res = [out]
        if twice:  # a second run() on the finished app, and the stored state
            res.append(app.run())
        res.append(app.mps)
        res.append(app.alg.max_eig)
        res.append(np.asarray(app.alg.iter))
        return res

    attempt(tag, go)
    put(tag + ":input-after", ksp)
    put(tag + ":input-unchanged", np.asarray(np.array_equal(ksp, ksp0, equal_nan=True)))


def main():
    rng = np.random.default_rng(20260517)

    # --- EspiritCalib over shapes / dtypes / parameters -------------------
    cases = [
        # (nc, shape, dtype, kwargs)
        (4, (20, 26), np.complex64, dict(calib_width=16, kernel_width=5, thresh=0.02, crop=0.9)),
        (4, (20, 26), np.complex128, dict(calib_width=16, kernel_width=5, thresh=0.02, crop=0.9, output_eigenvalue=True)),
        (2, (12, 12), np.complex64, dict(calib_width=10, kernel_width=3, thresh=0.3, crop=0.2, output_eigenvalue=True)),
        (3, (9, 10, 12), np.complex64, dict(calib_width=8, kernel_width=3, thresh=0.05, crop=0.4, output_eigenvalue=True)),
        (3, (7, 11, 5), np.complex128, dict(calib_width=7, kernel_width=2, thresh=0.1, crop=0.0)),
        (8, (16, 16), np.complex64, dict()),  # all defaults: calib 24 > 16
        (5, (15, 1), np.complex64, dict(calib_width=9, kernel_width=1, thresh=0.0, crop=0.5, output_eigenvalue=True)),
        (3, (13,), np.complex64, dict(calib_width=9, kernel_width=4, crop=0.6, output_eigenvalue=True)),  # 1-D image
        (1, (10, 14), np.complex64, dict(calib_width=8, kernel_width=3, crop=0.5, output_eigenvalue=True)),  # one coil
        (4, (8, 8), np.complex64, dict(calib_width=8, kernel_width=8, crop=0.5, output_eigenvalue=True)),  # kernel == image == calib
        (4, (6, 10), np.complex64, dict(calib_width=12, kernel_width=8, crop=0.5, output_eigenvalue=True)),  # kernel wider than an image axis
        (3, (12, 10), np.complex64, dict(calib_width=8, kernel_width=3, thresh=1.0, crop=0.5, output_eigenvalue=True)),  # no kernel kept
        (3, (12, 10), np.complex64, dict(calib_width=8, kernel_width=3, max_iter=1, crop=0.1, output_eigenvalue=True)),
        (3, (12, 10), np.complex64, dict(calib_width=8, kernel_width=3, max_iter=7, crop=1.5)),
    ]
    for i, (nc, shape, dtype, kw) in enumerate(cases):
        for noise in (0.0, 0.05):
            ksp = smooth_ksp(nc, shape, rng, noise=noise).astype(dtype)
            run_espirit("esp%d/%g" % (i, noise), ksp, twice=(i % 2 == 0), **kw)

    # random k-space, first coil zero (0/0 in the phase reference), fortran-
    # ordered and non-contiguous inputs, read-only input
    ksp = (rng.standard_normal((3, 12, 14)) + 1j * rng.standard_normal((3, 12, 14))).astype(np.complex64)
    run_espirit("rand", ksp, calib_width=10, kernel_width=4, crop=0.3, output_eigenvalue=True)
    z = ksp.copy()
    z[0] = 0
    run_espirit("zero-coil0", z, calib_width=10, kernel_width=4, crop=0.3, output_eigenvalue=True)
    run_espirit("all-zero", np.zeros((2, 8, 8), np.complex64), calib_width=6, kernel_width=3, output_eigenvalue=True)
    run_espirit("fortran", np.asfortranarray(ksp), calib_width=10, kernel_width=4, crop=0.3)
    big = (rng.standard_normal((3, 24, 28)) + 1j * rng.standard_normal((3, 24, 28))).astype(np.complex64)
    run_espirit("strided", big[:, ::2, ::2], calib_width=10, kernel_width=4, crop=0.3, output_eigenvalue=True)
    ro = ksp.copy()
    ro.setflags(write=False)
    run_espirit("readonly", ro, calib_width=12, kernel_width=4, crop=0.3)
    # the same array given twice in a row (no state kept between apps)
    run_espirit("repeat1", ksp, calib_width=10, kernel_width=4, crop=0.3, output_eigenvalue=True)
    run_espirit("repeat2", ksp, calib_width=10, kernel_width=4, crop=0.3, output_eigenvalue=True)

    # --- invalid / unusual inputs -> exception types ------------------------
    run_espirit("real-f32", rng.standard_normal((3, 12, 12)).astype(np.float32), calib_width=8, kernel_width=3)
    run_espirit("real-f64", rng.standard_normal((3, 12, 12)), calib_width=8, kernel_width=3)
    run_espirit("int", rng.integers(0, 9, (3, 12, 12)), calib_width=8, kernel_width=3)
    run_espirit("kw>calib", ksp, calib_width=4, kernel_width=6)
    run_espirit("kw=0", ksp, calib_width=8, kernel_width=0)
    run_espirit("calib=0", ksp, calib_width=0, kernel_width=3)
    run_espirit("4-D-image", (rng.standard_normal((2, 5, 5, 5, 5)) + 0j).astype(np.complex64), calib_width=4, kernel_width=2)
    run_espirit("no-image-axes", np.ones(4, np.complex64), calib_width=4, kernel_width=2)
    run_espirit("max_iter=0", ksp, calib_width=8, kernel_width=3, max_iter=0)
    run_espirit("float-kw", ksp, calib_width=8, kernel_width=3.0)
    run_espirit("crop-none", ksp, calib_width=8, kernel_width=3, crop=None)

    # --- helpers the calibration relies on ---------------------------------
    for dtype in (np.float32, np.complex64, np.complex128):
        x = (rng.standard_normal((2, 9, 8, 7)) + 1j * rng.standard_normal((2, 9, 8, 7))).astype(dtype)
        for nd, b, s in [(1, [3], [1]), (2, [3, 2], [1, 1]), (3, [2, 3, 2], [1, 1, 1]), (2, [4, 4], [2, 3])]:
            attempt("blk-%s-%d" % (np.dtype(dtype).name, nd), lambda: sp.array_to_blocks(x, b, s))
        put("blk-input", x)

    A = rng.standard_normal((6, 6))
    A = A @ A.T
    for dtype in (np.float32, np.float64, np.complex64):
        x = np.ones(6, dtype)
        alg = sp.alg.PowerMethod(lambda v: A.astype(dtype) @ v, x, max_iter=25)
        while not alg.done():
            alg.update()
        put("pm-%s" % np.dtype(dtype).name, [np.asarray(alg.max_eig), x])

    print("DIGEST", H.hexdigest())


if __name__ == "__main__":
    main()
