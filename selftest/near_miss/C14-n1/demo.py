"""Equivalence demonstration for near-miss n1 (restructured set-up of the
primal / dual proxes in LinearLeastSquares._get_PrimalDualHybridGradient).

Runs LinearLeastSquares with the primal-dual solver (explicitly and via
solver=None) over a spread of G / lamda / z / proxg / step-size / initial-x /
dtype combinations, plus the other solvers and some invalid inputs, and prints
one SHA256 digest of everything observable: returned x (values to 10
significant digits, dtype, shape), final tau / sigma, residual, exception
types, and the caller's arrays after the call.
"""
import hashlib
import itertools
import warnings

import numpy as np

from sigpy import app, linop, prox

warnings.filterwarnings("ignore")
H = hashlib.sha256()
NREC = [0]


def rec(*items):
    for it in items:
        H.update(desc(it).encode())
        H.update(b"|")
    H.update(b"\n")
    NREC[0] += 1


def num(v):
    v = complex(v)
    out = []
    for p in (v.real, v.imag):
        if p != p:
            out.append("nan")
        elif p in (np.inf, -np.inf):
            out.append("inf" if p > 0 else "-inf")
        elif p == 0:
            out.append("0")
        else:
            out.append("%.9e" % p)
    return out[0] + "," + out[1]


def desc(a):
    if a is None or isinstance(a, (str, bool)):
        return repr(a)
    if isinstance(a, (int, float, complex, np.generic)):
        return type(a).__name__ + ":" + num(a)
    a = np.asarray(a)
    return "%s%s[%s]" % (a.dtype, a.shape, ";".join(num(v) for v in a.ravel()))


def cplx(rng, shape, dtype):
    a = rng.randn(*shape)
    if np.issubdtype(dtype, np.complexfloating):
        a = a + 1j * rng.randn(*shape)
    return a.astype(dtype)


def make_problem(family, dtype, with_G, seed):
    rng = np.random.RandomState(seed)
    if family == "vec":
        n, m, k = 5, 7, 4
        ishape = [n, 1]
        A = linop.MatMul(ishape, cplx(rng, [m, n], dtype))
        G = linop.MatMul(ishape, cplx(rng, [k, n], dtype)) if with_G else None
    elif family == "img":
        ishape = [4, 3]
        W = linop.Multiply(ishape, (rng.rand(*ishape) + 0.2).astype(
            np.float32 if dtype in (np.float32, np.complex64) else np.float64))
        if np.issubdtype(dtype, np.complexfloating):
            A = W * linop.FFT(ishape)
        else:
            A = W * linop.Circshift(ishape, [1], axes=[-1])
        G = linop.FiniteDifference(ishape) if with_G else None
    else:  # size-1 axes, negative axis for the differences
        ishape = [1, 5, 1]
        A = linop.Multiply(ishape, (rng.rand(*ishape) + 0.5).astype(
            np.float32 if dtype in (np.float32, np.complex64) else np.float64))
        G = linop.FiniteDifference(ishape, axes=[-2]) if with_G else None
    y = cplx(rng, A.oshape, dtype)
    z = cplx(rng, ishape, dtype)
    x0 = cplx(rng, ishape, dtype)
    return A, G, y, z, x0, ishape, rng


def make_prox(kind, shape, dtype):
    if kind is None:
        return None
    if kind == "l1":
        return prox.L1Reg(shape, 0.3)
    if kind == "l2":
        return prox.L2Reg(shape, 0.7)
    if kind == "box":
        return prox.BoxConstraint(shape, -0.2, 0.4)
    if kind == "func":  # plain callable without a .shape
        return lambda alpha, v: v / (1 + 0.7 * alpha)


def run_case(tag, family, dtype, with_G, lamda, zkind, pkind, step, use_x0,
             solver, seed, max_iter=12, **extra):
    A, G, y, z, x0, ishape, rng = make_problem(family, dtype, with_G, seed)
    y_in = y
    z_in = {None: None, "arr": z, "scal": 0.5}[zkind]
    x_in = x0 if use_x0 else None
    pshape = G.oshape if G is not None else ishape
    proxg = make_prox(pkind, pshape, dtype)
    rdt = np.float32 if dtype in (np.float32, np.complex64) else np.float64
    osize = int(np.prod(A.oshape)) + (int(np.prod(G.oshape)) if with_G else 0)
    kw = {}
    tau_arr = sig_arr = None
    if step in ("tau", "both"):
        kw["tau"] = 0.05
    if step in ("sigma", "both"):
        kw["sigma"] = 0.5
    if step == "tau_arr":
        tau_arr = (0.02 + 0.05 * rng.rand(*ishape)).astype(rdt)
        kw["tau"] = tau_arr
    if step == "sigma_arr":
        sshape = [osize] if with_G else list(A.oshape)
        sig_arr = (0.3 + 0.5 * rng.rand(*sshape)).astype(rdt)
        kw["sigma"] = sig_arr
    kw.update(extra)
    np.random.seed(seed)  # the power iteration draws from the global RNG
    try:
        a = app.LinearLeastSquares(
            A, y_in, x=x_in, proxg=proxg, lamda=lamda, G=G, z=z_in,
            solver=solver, max_iter=max_iter, show_pbar=False, **kw)
        x = a.run()
        rec(tag, "ok", x, a.solver, getattr(a, "tau", None),
            getattr(a, "sigma", None), getattr(a.alg, "resid", None),
            x is x_in)
    except Exception as e:  # noqa
        rec(tag, "exc", type(e).__name__,
            type(e.__cause__).__name__ if e.__cause__ else None)
    rec(tag, "inputs", y_in, z_in if zkind != "scal" else None, x_in,
        tau_arr, sig_arr)


case = 0
# ---- main sweep: the primal-dual set-up ------------------------------------
for family, dtype in itertools.product(
        ["vec", "img", "thin"], [np.float64, np.complex128]):
    for with_G, lamda, zkind, pkind, step, use_x0 in itertools.product(
            [False, True], [0, 0.4], [None, "arr", "scal"],
            [None, "l1", "l2", "box"],
            [None, "tau", "sigma", "both", "tau_arr", "sigma_arr"],
            [False, True]):
        if pkind == "box" and dtype == np.complex128:
            continue
        case += 1
        solver = "PrimalDualHybridGradient" if case % 3 else None
        tag = "main-%s-%s-%s-%s-%s-%s-%s-%s-%s" % (
            family, np.dtype(dtype).name, with_G, lamda, zkind, pkind, step,
            use_x0, solver)
        run_case(tag, family, dtype, with_G, lamda, zkind, pkind, step,
                 use_x0, solver, seed=case)

# ---- single precision -------------------------------------------------------
for family, dtype, with_G, lamda, zkind, pkind, step in itertools.product(
        ["vec", "img"], [np.float32, np.complex64], [False, True], [0, 0.4],
        [None, "arr"], [None, "l1", "l2"], [None, "sigma", "tau_arr"]):
    case += 1
    run_case("sp-%d" % case, family, dtype, with_G, lamda, zkind, pkind, step,
             False, "PrimalDualHybridGradient", seed=case)

# ---- other solvers, solver=None dispatch, longer runs -----------------------
for solver, with_G, lamda, zkind, pkind in itertools.product(
        [None, "ConjugateGradient", "GradientMethod", "ADMM",
         "PrimalDualHybridGradient"],
        [False, True], [0, 0.4], [None, "arr"], [None, "l1", "l2"]):
    case += 1
    run_case("solv-%s-%s-%s-%s-%s" % (solver, with_G, lamda, zkind, pkind),
             "vec", np.complex128, with_G, lamda, zkind, pkind, None, False,
             solver, seed=case, max_iter=40)

# ---- repeated use of the same step-size arrays / aliasing z is x0 -----------
A, G, y, z, x0, ishape, rng = make_problem("vec", np.float64, True, 999)
sig = 0.3 + 0.5 * rng.rand(int(np.prod(A.oshape)) + int(np.prod(G.oshape)))
tau = 0.02 + 0.05 * rng.rand(*ishape)
for rep in range(3):
    np.random.seed(5)
    a = app.LinearLeastSquares(A, y, x=x0, z=x0, lamda=0.3, G=G,
                               proxg=prox.L1Reg(G.oshape, 0.2), tau=tau,
                               sigma=sig, max_iter=7, show_pbar=False)
    x = a.run()
    rec("rep", rep, x, x is x0, tau, sig, y, a.tau is tau, a.sigma is sig)

# ---- invalid / unusual configurations ---------------------------------------
for tag, kwargs in [
    ("cg+proxg", dict(solver="ConjugateGradient", pkind="l1")),
    ("gm+G", dict(solver="GradientMethod", with_G=True, pkind="l1")),
    ("badsolver", dict(solver="Newton")),
    ("neg-lamda", dict(solver="PrimalDualHybridGradient", lamda=-0.3,
                       with_G=True, pkind="l2")),
    ("neg-lamda-noG", dict(solver="PrimalDualHybridGradient", lamda=-0.3,
                           pkind="l2")),
    ("func-prox-noG", dict(solver="PrimalDualHybridGradient", lamda=0.2,
                           pkind="func")),
    ("func-prox-G", dict(solver="PrimalDualHybridGradient", lamda=0.2,
                         with_G=True, pkind="func")),
    ("func-prox-G-lam0", dict(solver="PrimalDualHybridGradient", lamda=0,
                              with_G=True, pkind="func")),
]:
    base = dict(family="vec", dtype=np.float64, with_G=False, lamda=0.2,
                zkind="arr", pkind=None, step=None, use_x0=True, solver=None)
    base.update(kwargs)
    case += 1
    run_case("inv-" + tag, seed=case, **base)

# proxg of the wrong shape, G of the wrong input shape, y of the wrong shape
A, G, y, z, x0, ishape, rng = make_problem("vec", np.float64, True, 31)
for tag, kw in [
    ("wrong-prox-shape-G", dict(G=G, proxg=prox.L1Reg(ishape, 0.1))),
    ("wrong-prox-shape", dict(proxg=prox.L1Reg([3, 1], 0.1))),
    ("wrong-G-ishape", dict(G=linop.Identity([4, 1]),
                            proxg=prox.L1Reg([4, 1], 0.1))),
    ("wrong-y-shape", dict(G=G, proxg=prox.L1Reg(G.oshape, 0.1), y=y[:-1])),
    ("list-x", dict(G=G, proxg=prox.L1Reg(G.oshape, 0.1), x=[0.0] * 5)),
    ("lamda-array", dict(G=G, lamda=np.array([0.1, 0.2]))),
]:
    kw = dict(kw)
    yy = kw.pop("y", y)
    for lamda in [0, 0.3]:
        np.random.seed(3)
        try:
            kk = dict(lamda=lamda)
            kk.update(kw)
            x = app.LinearLeastSquares(
                A, yy, solver="PrimalDualHybridGradient", max_iter=5,
                show_pbar=False, **kk).run()
            rec("inv2-" + tag, lamda, "ok", x)
        except Exception as e:  # noqa
            rec("inv2-" + tag, lamda, "exc", type(e).__name__,
                type(e.__cause__).__name__ if e.__cause__ else None)

print("records:", NREC[0])
print("DIGEST", H.hexdigest())
