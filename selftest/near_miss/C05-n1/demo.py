"""Equivalence demo (near-miss): prints one SHA256 digest over the results of
util.resize, fft / ifft and the FFT / IFFT / Resize linear operators for a
spread of inputs.  The digest covers values (10 significant digits), dtypes,
shapes, exception types for invalid inputs, whether the result shares memory
with the caller's array, and the caller's input arrays after each call.
The digest must be identical on the pristine and on the changed tree.
"""
import hashlib
import itertools
import warnings

import numpy as np

import sigpy as sp
from sigpy import util

warnings.simplefilter("ignore")

H = hashlib.sha256()
NREC = [0]


def fmt_array(a):
    a = np.asarray(a)
    flat = a.ravel()
    if np.iscomplexobj(flat):
        items = ["%.9e,%.9e" % (v.real, v.imag) for v in flat]
    else:
        items = ["%.9e" % float(v) for v in flat]
    return "{}|{}|{}".format(a.dtype.str, a.shape, ";".join(items))


def record(tag, fn, *arrays, **kw):
    """Call fn(), hash its result (or exception type) and the input arrays."""
    befores = [a.copy() for a in arrays]
    try:
        out = fn()
        if isinstance(out, np.ndarray):
            res = fmt_array(out) + "|alias=" + ",".join(
                str(bool(np.shares_memory(out, a))) for a in arrays)
        else:
            res = repr(out)
    except Exception as e:  # noqa
        res = "EXC:" + type(e).__name__
    after = "|".join(fmt_array(a) for a in arrays)
    unchanged = all(
        np.array_equal(a, b, equal_nan=True) for a, b in zip(arrays, befores))
    H.update("{} => {} || inputs_after={} unchanged={}\n".format(
        tag, res, after, unchanged).encode())
    NREC[0] += 1


def make(rng, shape, dtype):
    dtype = np.dtype(dtype)
    if dtype.kind == "c":
        return (rng.randn(*shape) + 1j * rng.randn(*shape)).astype(dtype)
    if dtype.kind in "iu":
        return rng.randint(-5, 6, size=shape).astype(dtype)
    if dtype.kind == "b":
        return rng.randn(*shape) > 0
    return rng.randn(*shape).astype(dtype)


def main():
    rng = np.random.RandomState(1234)
    dtypes = [np.complex64, np.complex128, np.float32, np.float64, np.int32,
              np.bool_]

    # ---------------------------------------------------------------- resize
    resize_cases = [
        ((3,), (5,)), ((3,), (4,)), ((2,), (5,)), ((2,), (4,)),
        ((5,), (3,)), ((4,), (3,)), ((5,), (2,)), ((4,), (2,)),
        ((4,), (5,)), ((5,), (4,)), ((1,), (6,)), ((6,), (1,)), ((1,), (1,)),
        ((4, 7), (6, 9)), ((6, 9), (4, 7)), ((4, 7), (6, 3)), ((7, 4), (3, 6)),
        ((4, 6), (6, 4)), ((3, 8), (9, 4)), ((3, 6, 5), (4, 3, 5)),
        ((2, 5, 6), (2, 8, 3)), ((1, 9), (4, 2)), ((2, 3, 1, 4), (3, 2, 2, 5)),
        ((4, 5), (4, 5)), ((5,), (1, 7)), ((1, 5), (3,)), ((2, 3), (6,)),
        ((6,), (2, 3)), ((3,), [5]), ((3, 4), [np.int64(5), np.int32(2)]),
    ]
    for (ishape, oshape), dt in itertools.product(resize_cases, dtypes):
        x = make(rng, ishape, dt)
        tag = "resize {} {} {}".format(ishape, oshape, np.dtype(dt).str)
        record(tag, lambda: util.resize(x, oshape), x)
        record(tag + " again", lambda: util.resize(x, oshape), x)

    # explicit shifts (one or both), incl. unusual / invalid ones
    shift_cases = [
        ((3,), (5,), None, [0]), ((3,), (5,), None, [2]), ((3,), (5,), [0], None),
        ((5,), (3,), [0], None), ((5,), (3,), [2], None), ((5,), (3,), None, [0]),
        ((5,), (3,), [1], [1]), ((4, 7), (6, 3), [0, 1], None),
        ((4, 7), (6, 3), None, [1, 0]), ((4, 7), (6, 3), [0, 2], [2, 0]),
        ((4, 7), (6, 3), (0, 4), (1, 0)), ((4, 7), (6, 3), [0], None),
        ((4, 7), (6, 3), None, [1]), ((5,), (3,), [4], None),
        ((5,), (3,), ["a"], None), ((5,), (3,), None, [None]),
        ((3,), (5,), iter([0]), None), ((3,), (5,), None, iter([1])),
    ]
    for ishape, oshape, ishift, oshift in shift_cases:
        for dt in [np.complex64, np.float64]:
            x = make(rng, ishape, dt)
            tag = "resize-shift {} {} {} {} {}".format(
                ishape, oshape,
                "iter" if hasattr(ishift, "__next__") else ishift,
                "iter" if hasattr(oshift, "__next__") else oshift,
                np.dtype(dt).str)
            record(tag, lambda: util.resize(x, oshape, ishift=ishift,
                                            oshift=oshift), x)

    # invalid shapes
    x = make(rng, (4, 5), np.complex64)
    for bad in [(-1, 5), (4.0, 6), (None, 5), "ab", (0, 5), 7]:
        record("resize bad oshape {!r}".format(bad),
               lambda: util.resize(x, bad), x)
    # non-contiguous / strided / read-only input
    base = make(rng, (6, 8), np.complex128)
    for name, view in [("T", base.T), ("step", base[::2, ::-1]),
                       ("f", np.asfortranarray(base))]:
        record("resize view " + name, lambda: util.resize(view, (5, 5)), base)
    ro = make(rng, (5, 4), np.float32)
    ro.setflags(write=False)
    record("resize readonly", lambda: util.resize(ro, (3, 7)), ro)
    record("resize readonly same", lambda: util.resize(ro, (5, 4)), ro)

    # Resize linop and its adjoint
    for ishape, oshape in [((4, 7), (6, 3)), ((5,), (8,)), ((3, 6, 5),
                                                             (4, 3, 5))]:
        x = make(rng, ishape, np.complex64)
        y = make(rng, oshape, np.complex64)
        R = sp.linop.Resize(list(oshape), list(ishape))
        record("Resize linop {} {}".format(ishape, oshape), lambda: R(x), x)
        record("Resize linop H {} {}".format(ishape, oshape),
               lambda: R.H(y), y)

    # ------------------------------------------------------------- fft / ifft
    fft_cases = [
        ((1,), [None]), ((5,), [None, (0,), (-1,), ()]),
        ((6,), [None, [0]]),
        ((4, 5), [None, (0,), (1,), (-1,), (-2,), (0, 1), (-1, -2), (1, 0),
                  (0, -1), range(-2, 0)]),
        ((3, 4, 5), [None, (0, 2), (-2, -1), (1,), (-3,)]),
        ((2, 3, 1, 4), [None, (2,), (-3, -1), (0, 1, 2, 3)]),
    ]
    for shape, axes_list in fft_cases:
        for dt in dtypes:
            x = make(rng, shape, dt)
            for axes, center, norm in itertools.product(
                    axes_list, [True, False], ["ortho", None]):
                for name, fn in [("fft", sp.fft), ("ifft", sp.ifft)]:
                    tag = "{} {} {} axes={} c={} n={}".format(
                        name, shape, np.dtype(dt).str,
                        list(axes) if axes is not None else None, center, norm)
                    record(tag, lambda: fn(x, axes=axes, center=center,
                                           norm=norm), x)
            # repeated calls and round trip
            record("roundtrip {} {}".format(shape, np.dtype(dt).str),
                   lambda: sp.ifft(sp.fft(x)), x)
            record("roundtrip2 {} {}".format(shape, np.dtype(dt).str),
                   lambda: sp.fft(sp.ifft(x, center=False), center=False), x)

    # output shapes (centred and non-centred)
    oshape_cases = [
        ((5,), (8,), None), ((8,), (5,), None), ((4,), (5,), None),
        ((5,), (5,), None), ((5,), [5], None),
        ((4, 7), (6, 9), None), ((6, 9), (4, 7), (0,)),
        ((4, 7), (6, 3), None), ((7, 4), (3, 6), (-1,)),
        ((4, 6), (6, 4), (0,)), ((3, 8), (9, 4), None),
        ((3, 6, 5), (4, 3, 5), (0, 1)), ((2, 5, 6), (2, 8, 3), (-2, -1)),
        ((1, 9), (4, 2), None), ((5,), (1, 7), None), ((2, 3), (6,), None),
        ((4, 5), (4,), None), ((4, 5), (-1, 5), None), ((4, 5), (4.5, 5), None),
    ]
    for ishape, oshape, axes in oshape_cases:
        for dt in [np.complex64, np.complex128, np.float64, np.int32]:
            x = make(rng, ishape, dt)
            for center, norm in itertools.product([True, False],
                                                  ["ortho", None]):
                for name, fn in [("fft", sp.fft), ("ifft", sp.ifft)]:
                    tag = "{} {}->{} {} axes={} c={} n={}".format(
                        name, ishape, oshape, np.dtype(dt).str, axes, center,
                        norm)
                    record(tag, lambda: fn(x, oshape=oshape, axes=axes,
                                           center=center, norm=norm), x)

    # invalid axes / odd inputs
    x = make(rng, (4, 5), np.complex64)
    for axes in [(2,), (-3,), (0, 0), (0.5,), "a", 1, (None,)]:
        for center in [True, False]:
            record("fft bad axes {!r} c={}".format(axes, center),
                   lambda: sp.fft(x, axes=axes, center=center), x)
            record("ifft bad axes {!r} c={}".format(axes, center),
                   lambda: sp.ifft(x, axes=axes, center=center), x)
    for norm in ["forward", "backward", "bogus"]:
        record("fft norm " + norm, lambda: sp.fft(x, norm=norm), x)
        record("ifft norm " + norm, lambda: sp.ifft(x, norm=norm), x)
    record("fft list input", lambda: sp.fft([1.0, 2.0, 3.0]))
    record("fft 0-d", lambda: sp.fft(np.array(1.0 + 2.0j)))
    record("ifft 0-d nc", lambda: sp.ifft(np.array(2.0), center=False))
    z = np.zeros((0, 3), dtype=np.complex64)
    record("fft empty", lambda: sp.fft(z), z)
    record("fft empty ax", lambda: sp.fft(z, axes=(1,)), z)
    # non-contiguous / read-only / big-endian inputs
    base = make(rng, (6, 8), np.complex128)
    for name, view in [("T", base.T), ("step", base[::2, ::-1]),
                       ("real-view", base.real), ("f", np.asfortranarray(base))]:
        for center in [True, False]:
            record("fft view {} c={}".format(name, center),
                   lambda: sp.fft(view, axes=(-1,), center=center), base)
            record("ifft view {} c={}".format(name, center),
                   lambda: sp.ifft(view, oshape=(5, 5) if center else None,
                                   center=center), base)
    be = make(rng, (3, 4), np.complex64).astype(">c8")
    record("fft big-endian", lambda: sp.fft(be), be)
    record("ifft big-endian", lambda: sp.ifft(be, axes=(0,)), be)
    ro = make(rng, (5, 4), np.complex64)
    ro.setflags(write=False)
    record("fft readonly", lambda: sp.fft(ro), ro)
    record("ifft readonly", lambda: sp.ifft(ro, oshape=(5, 4)), ro)

    # --------------------------------------------------------- FFT/IFFT linop
    for shape, axes, center in [((4, 5), None, True), ((4, 5), (-1,), True),
                                ((3, 4, 5), (0, 2), False),
                                ((2, 3, 1, 4), range(-2, 0), True),
                                ((5,), None, False)]:
        for dt in [np.complex64, np.complex128, np.float64]:
            x = make(rng, shape, dt)
            for cls in [sp.linop.FFT, sp.linop.IFFT]:
                A = cls(list(shape), axes=axes, center=center)
                tag = "{} {} {} {} {}".format(cls.__name__, shape,
                                              np.dtype(dt).str, axes, center)
                record(tag, lambda: A(x), x)
                record(tag + " H", lambda: A.H(x), x)
                record(tag + " HH", lambda: A.H.H(x), x)
                record(tag + " N", lambda: A.N(x), x)
                record(tag + " H*A", lambda: (A.H * A)(x), x)

    print("records:", NREC[0])
    print("DIGEST", H.hexdigest())


if __name__ == "__main__":
    main()
