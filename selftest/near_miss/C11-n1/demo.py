"""C11 / round 3 / near-miss n1 - equivalence digest for prox.L2Reg._prox.

Runs L2Reg (alone, with scalar / array / aliasing bias, with nested proxh,
inside Conj / Stack / UnitaryTransform) on many dtypes, shapes, step sizes
(python float, numpy scalar, 0-d array, array), repeated calls and invalid
inputs, and prints a SHA256 over: result values (10 significant digits),
dtypes, shapes, exception types (outer and cause), identity/aliasing of the
result with the input, and the caller's arrays after each call.
"""
import hashlib

import warnings

import numpy as np

from sigpy import linop, prox

H = hashlib.sha256()
NREC = [0]
COUNT = {"ok": 0, "exc": 0}


def fmt(a):
    a = np.asarray(a)
    if a.dtype.kind == "c":
        flat = np.stack([a.real.ravel(), a.imag.ravel()], -1).ravel()
    elif a.dtype.kind in "fiub":
        flat = a.ravel().astype(np.float64)
    else:
        return repr(a.tolist())
    return ",".join("%.9e" % v for v in flat)


def rec(*items):
    NREC[0] += 1
    for it in items:
        if isinstance(it, np.ndarray) or isinstance(it, np.generic):
            a = np.asarray(it)
            s = "arr|%s|%s|%s" % (a.dtype, a.shape, fmt(a))
        else:
            s = repr(it)
        H.update(s.encode())
        H.update(b"\n")


def call(tag, P, alpha, x, watch=()):
    """Call P(alpha, x); record result or exception and all watched arrays."""
    before = [w.copy() if isinstance(w, np.ndarray) else w for w in watch]
    try:
        out = P(alpha, x)
        COUNT["ok"] += 1
        rec(
            tag,
            "ok",
            out,
            "same_object=%s" % (out is x),
            "shares_memory=%s"
            % (
                isinstance(x, np.ndarray)
                and isinstance(out, np.ndarray)
                and np.shares_memory(out, x)
            ),
        )
    except Exception as e:  # noqa
        cause = e.__cause__
        COUNT["exc"] += 1
        rec(tag, "exc", type(e).__name__, type(cause).__name__)
        out = None
    for w, b in zip(watch, before):
        if isinstance(w, np.ndarray):
            rec(tag, "after", w, "unchanged=%s" % np.array_equal(w, b))
    return out


def rand(rng, shape, dtype):
    dtype = np.dtype(dtype)
    x = rng.standard_normal(shape) * 3
    if dtype.kind == "c":
        x = x + 1j * rng.standard_normal(shape)
    if dtype.kind in "iu":
        return np.round(x).astype(dtype)
    return x.astype(dtype)


def main():
    warnings.simplefilter("ignore")
    np.seterr(all="ignore")
    rng = np.random.default_rng(7)
    shapes = [(5,), (1,), (3, 4), (2, 1, 3), (0,), (4, 0)]
    dtypes = [np.float64, np.float32, np.complex128, np.complex64, np.int64]
    lamdas = [0.0, 0.35, 1.0, 12.5, np.float32(0.5), -0.25]

    for shape in shapes:
        for dt in dtypes:
            x = rand(rng, shape, dt)
            alphas = [
                1.0,
                0.1,
                3,
                np.float32(0.7),
                np.float64(2.5),
                np.array(0.3),
                np.abs(rand(rng, shape, np.float64)) + 0.1,
                np.abs(rand(rng, shape, np.float32)) + 0.1,
                None,
                -1.0,
            ]
            for lamda in lamdas:
                for ia, alpha in enumerate(alphas):
                    tag = "L2Reg|%s|%s|%r|a%d" % (
                        shape,
                        np.dtype(dt),
                        lamda,
                        ia,
                    )
                    wa = (x, alpha) if isinstance(alpha, np.ndarray) else (x,)
                    # no bias
                    call(tag + "|nobias", prox.L2Reg(shape, lamda), alpha, x, wa)
                    # scalar bias
                    call(
                        tag + "|sbias",
                        prox.L2Reg(shape, lamda, y=1.5),
                        alpha,
                        x,
                        wa,
                    )
                    # array bias of same / other dtype
                    for bdt in [dt, np.float64, np.complex64]:
                        b = rand(rng, shape, bdt)
                        call(
                            tag + "|abias%s" % np.dtype(bdt),
                            prox.L2Reg(shape, lamda, y=b),
                            alpha,
                            x,
                            wa + (b,),
                        )
                    # bias aliasing the input itself
                    call(
                        tag + "|alias",
                        prox.L2Reg(shape, lamda, y=x),
                        alpha,
                        x,
                        wa,
                    )
                    # alpha aliasing the input (real dtypes)
                    if np.dtype(dt).kind == "f":
                        call(
                            tag + "|alpha_is_x",
                            prox.L2Reg(shape, lamda, y=0.5),
                            x,
                            x,
                            (x,),
                        )

    # nested proxh
    for shape in [(6,), (2, 3), (2, 2, 2)]:
        n = int(np.prod(shape))
        for dt in [np.float64, np.complex128, np.float32, np.complex64]:
            x = rand(rng, shape, dt)
            z = rand(rng, shape, dt)
            aarr = np.abs(rand(rng, shape, np.float64)) + 0.05
            inner = [
                prox.L1Reg(shape, 0.4),
                prox.L2Reg(shape, 0.9, y=z),
                prox.L2Reg(shape, 0.9, y=z, proxh=prox.L1Reg(shape, 0.2)),
                prox.L1Proj(shape, 1.3),
                prox.L2Proj(shape, 1.1, y=z),
                prox.LInfProj(shape, 0.8),
                prox.BoxConstraint(shape, -0.5, 0.7),
                prox.NoOp(shape),
                prox.Conj(prox.L1Reg(shape, 0.6)),
                prox.Conj(prox.L2Reg(shape, 0.6, y=z)),
                prox.UnitaryTransform(
                    prox.L2Reg(shape, 0.3, proxh=prox.L1Reg(shape, 0.1)),
                    linop.FFT(shape),
                ),
            ]
            for ip, ph in enumerate(inner):
                for ia, alpha in enumerate([1.0, 0.2, 4.0, np.float32(0.5), aarr]):
                    for lamda in [0.0, 0.5, 3.0]:
                        for bias in [None, z, 0.25]:
                            tag = "nest|%s|%s|p%d|a%d|%r|%s" % (
                                shape,
                                np.dtype(dt),
                                ip,
                                ia,
                                lamda,
                                "arr" if isinstance(bias, np.ndarray) else bias,
                            )
                            P = prox.L2Reg(shape, lamda, y=bias, proxh=ph)
                            o1 = call(tag, P, alpha, x, (x, z, aarr))
                            # repeated call: no state may be kept
                            o2 = call(tag + "|again", P, alpha, x, (x, z, aarr))
                            rec(
                                tag,
                                "repeat_equal=%s"
                                % (
                                    o1 is not None
                                    and o2 is not None
                                    and np.array_equal(o1, o2, equal_nan=True)
                                ),
                            )
                            # as a block of a Stack with array step sizes
                            S = prox.Stack([P, prox.Conj(P)])
                            xs = np.concatenate([x.ravel(), z.ravel()])
                            call(tag + "|stack", S, alpha if np.isscalar(alpha) else np.concatenate([aarr.ravel(), aarr.ravel() * 2]), xs, (xs,))

    # invalid inputs
    P = prox.L2Reg([4], 0.5, y=np.ones(4))
    call("bad|shape", P, 1.0, np.ones(5))
    call("bad|list", P, 1.0, [1.0, 2.0, 3.0, 4.0])
    call("bad|list_none", P, None, [1.0, 2.0, 3.0, 4.0])
    call("bad|str_alpha", P, "a", np.ones(4))
    call("bad|alpha_shape", P, np.ones(3), np.ones(4))
    call("bad|bias_shape", prox.L2Reg([4], 0.5, y=np.ones(3)), 1.0, np.ones(4))
    call("bad|complex_bias_real_in", prox.L2Reg([4], 0.5, y=1j * np.ones(4)), 1.0, np.ones(4))
    call("bad|complex_alpha", P, 1j, np.ones(4))
    call("bad|int_in", P, 1.0, np.arange(4))
    call("bad|proxh_shape", prox.L2Reg([4], 0.5, proxh=prox.L1Reg([5], 1.0)), 1.0, np.ones(4))
    call("bad|lamda_none", prox.L2Reg([4], None), 1.0, np.ones(4))
    call("bad|lamda_arr", prox.L2Reg([4], np.array([1.0, 2.0, 3.0, 4.0]), y=np.ones(4), proxh=prox.L1Reg([4], 0.3)), np.array([0.5, 1.0, 2.0, 4.0]), np.arange(4.0))

    print("records:", NREC[0], "calls ok/exc:", COUNT["ok"], COUNT["exc"])
    print("digest:", H.hexdigest())


if __name__ == "__main__":
    main()
