"""C02 / round 3 / near-miss n2: equivalence demonstration.

Exercises linop.Hstack / Vstack / Diag (and FiniteDifference, adjoints,
normal operators and compositions built on them) on a spread of block lists,
axes (None, positive, negative, out-of-range-but-wrapping), block sizes
(incl. size-1 and unequal blocks), dtypes (real / complex / mixed between the
blocks) and inputs (contiguous, strided views, repeated application), and
prints one SHA256 digest of
  * all results (values rounded to 10 significant digits, dtype, shape),
  * the operators' shapes,
  * exception type chains for invalid constructions / inputs,
  * the caller's input arrays and the arrays the blocks were built from,
    after every call.
The digest must be identical on the pristine and on the changed tree.
"""
import hashlib
import pickle
import warnings

import numpy as np

from sigpy import linop

warnings.simplefilter("ignore")

H = hashlib.sha256()


def _fmt(v):
    return "%.9e" % (float(v) + 0.0)


def put(tag, obj):
    if isinstance(obj, np.ndarray):
        a = np.ascontiguousarray(obj)
        H.update(("%s|%s|%s|" % (tag, a.dtype, a.shape)).encode())
        if np.iscomplexobj(a):
            s = ",".join(_fmt(z.real) + "/" + _fmt(z.imag) for z in a.ravel())
        else:
            s = ",".join(_fmt(z) for z in a.ravel())
        H.update(s.encode())
    else:
        H.update(("%s|%r" % (tag, obj)).encode())
    H.update(b"\n")


def exc_chain(e):
    names = [type(e).__name__]
    c = e.__cause__
    while c is not None:
        names.append(type(c).__name__)
        c = c.__cause__
    return ">".join(names)


def call(tag, f, *args):
    try:
        out = f(*args)
        put(tag + ":out", out)
    except Exception as e:  # noqa
        put(tag + ":exc", exc_chain(e))
        out = None
    for k, a in enumerate(args):
        if isinstance(a, np.ndarray):
            put(tag + ":arg%d" % k, a)
    return out


def build(tag, f):
    try:
        A = f()
        put(tag + ":shapes", (list(A.oshape), list(A.ishape), repr(A)))
        return A
    except Exception as e:  # noqa
        put(tag + ":exc", exc_chain(e))
        return None


def rand(rng, shape, dtype):
    if np.issubdtype(dtype, np.complexfloating):
        return (rng.randn(*shape) + 1j * rng.randn(*shape)).astype(dtype)
    return rng.randn(*shape).astype(dtype)


def exercise(tag, A, rng, captured):
    if A is None:
        return
    for dt in [np.float64, np.complex128, np.complex64, np.float32]:
        x = rand(rng, A.ishape, dt)
        t = "%s/%s" % (tag, np.dtype(dt))
        y = call(t + "/A", A, x)
        call(t + "/A_again", A, x)
        # strided (non-contiguous) view with the same values
        big = np.zeros([2 * s for s in A.ishape], dtype=dt)
        view = big[tuple(slice(None, None, 2) for _ in A.ishape)]
        view[...] = x
        call(t + "/A_view", A, view)
        if y is not None:
            z = rand(rng, A.oshape, dt)
            call(t + "/AH", A.H, z)
            call(t + "/AHH", A.H.H, x)
            call(t + "/N", A.N, x)
        a = -0.6 + 0.9j
        x2 = rand(rng, A.ishape, dt)
        call(t + "/lin", lambda u, v: A(a * u + v) - (a * A(u) + A(v)), x, x2)
    # wrong input shapes
    call(tag + "/bad_in", A, rand(rng, [s + 1 for s in A.ishape], np.float64))
    call(tag + "/bad_ndim", A, rand(rng, list(A.ishape) + [2], np.float64))
    put(tag + "/pickle", repr(pickle.loads(pickle.dumps(A))))
    for k, c in enumerate(captured):
        put(tag + "/captured%d" % k, c)


def main():
    rng = np.random.RandomState(5)

    mc = rand(rng, [4], np.complex128)
    mr = rand(rng, [4], np.float64)
    m32 = rand(rng, [4], np.complex64)
    cap = [mc, mr, m32]

    def blocks1():
        return [
            linop.Identity([4]),
            linop.Multiply([4], mc),
            linop.Multiply([4], mr),
            linop.Multiply([4], m32),
            linop.FFT([4]),
            linop.Multiply([4], 2.5),
        ]

    B = blocks1()
    # ---- same ishape and oshape: Vstack / Hstack / Diag with axis None / 0 / -1
    combos = [
        [0],
        [0, 1],
        [2, 1],
        [1, 0, 2],
        [0, 4, 3, 1],
        [5, 0, 5],
    ]
    for ci, idxs in enumerate(combos):
        for ax in [None, 0, -1, 3, -2]:
            ls = [B[i] for i in idxs]
            exercise(
                "V%d/ax%s" % (ci, ax),
                build("V%d/ax%s" % (ci, ax), lambda: linop.Vstack(ls, axis=ax)),
                rng,
                cap,
            )
            exercise(
                "H%d/ax%s" % (ci, ax),
                build("H%d/ax%s" % (ci, ax), lambda: linop.Hstack(ls, axis=ax)),
                rng,
                cap,
            )
            for oax in [None, 0, -1]:
                exercise(
                    "D%d/i%s/o%s" % (ci, ax, oax),
                    build(
                        "D%d/i%s/o%s" % (ci, ax, oax),
                        lambda: linop.Diag(ls, iaxis=ax, oaxis=oax),
                    ),
                    rng,
                    cap,
                )

    # ---- 2-D / 3-D blocks of unequal size along the stacking axis,
    #      size-1 axes, negative axes
    m2 = rand(rng, [3, 1], np.complex128)
    cap2 = [m2]
    R1 = linop.Resize([3, 5], [3, 2])  # oshape [3,5], ishape [3,2]
    R2 = linop.Resize([3, 1], [3, 2])
    R3 = linop.Multiply([3, 2], m2)  # [3,2] -> [3,2]
    S1 = linop.Slice([3, 2], (slice(None), slice(0, 1)))  # -> [3,1]
    for ax in [1, -1, None, 0, -2, 5]:
        exercise(
            "V2d/ax%s" % ax,
            build("V2d/ax%s" % ax, lambda: linop.Vstack([R1, R2, R3, S1], axis=ax)),
            rng,
            cap2,
        )
        exercise(
            "H2d/ax%s" % ax,
            build(
                "H2d/ax%s" % ax,
                lambda: linop.Hstack([R1.H, R2.H, R3.H, S1.H], axis=ax),
            ),
            rng,
            cap2,
        )
        for oax in [1, -1, None, 0]:
            exercise(
                "D2d/i%s/o%s" % (ax, oax),
                build(
                    "D2d/i%s/o%s" % (ax, oax),
                    lambda: linop.Diag([R1, R3, R2.H, S1], iaxis=ax, oaxis=oax),
                ),
                rng,
                cap2,
            )

    T1 = linop.Transpose([2, 1, 3], axes=(2, 0, 1))  # -> [3,2,1]
    T2 = linop.Reshape([3, 2, 1], [2, 1, 3])
    for ax in [0, 1, 2, -1, -3, None]:
        exercise(
            "V3d/ax%s" % ax,
            build("V3d/ax%s" % ax, lambda: linop.Vstack([T1, T2, T1], axis=ax)),
            rng,
            [],
        )
        exercise(
            "D3d/ax%s" % ax,
            build(
                "D3d/ax%s" % ax,
                lambda: linop.Diag([T1, T2], iaxis=ax, oaxis=ax),
            ),
            rng,
            [],
        )

    # ---- operators built on the stacks
    for shape, axes in [([5], None), ([3, 4], None), ([3, 4], [-1]), ([2, 1, 3], [0, 2])]:
        G = build("FD%s%s" % (shape, axes), lambda: linop.FiniteDifference(shape, axes=axes))
        exercise("FD%s%s" % (shape, axes), G, rng, [])
    nested = build(
        "nested",
        lambda: linop.Vstack(
            [linop.Hstack([B[0], B[1]]), linop.Hstack([B[2], B[4]]) * 2j],
            axis=0,
        )
        * linop.Diag([B[1], B[0]]),
    )
    exercise("nested", nested, rng, cap)

    # ---- invalid constructions
    build("bad/V_ishape", lambda: linop.Vstack([linop.Identity([4]), linop.Identity([5])]))
    build("bad/H_oshape", lambda: linop.Hstack([linop.Identity([4]), linop.Identity([5])]))
    build("bad/V_axis_mismatch", lambda: linop.Vstack([R1, R2], axis=0))
    build("bad/H_axis_mismatch", lambda: linop.Hstack([R1.H, R2.H], axis=0))
    build("bad/V_ndim", lambda: linop.Vstack([linop.Reshape([4, 1], [4]), B[0]], axis=0))
    build("bad/V_empty", lambda: linop.Vstack([]))
    build("bad/H_empty", lambda: linop.Hstack([], axis=0))
    build("bad/D_empty", lambda: linop.Diag([]))
    build("bad/D_mismatch", lambda: linop.Diag([R1, R2], iaxis=0, oaxis=1))

    print(H.hexdigest())


if __name__ == "__main__":
    main()
