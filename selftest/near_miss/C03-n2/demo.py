"""C03 / round 3 / near-miss n2: equivalence digest for the stacking
parameters (_hstack_params / _vstack_params) behind Hstack, Vstack and Diag.

Records, for a spread of block shapes / axes / block counts / shape
containers: advertised shapes and split indices (values AND Python types),
exception types for every incompatible combination, and the results of
applying the stacked operators (values to 10 significant digits, dtypes,
shapes, caller's array after the call).  Prints one SHA256 digest.
"""
import hashlib
import itertools
import warnings

import numpy as np

from sigpy import linop

warnings.simplefilter("ignore")
H = hashlib.sha256()
COUNT = {"records": 0, "exceptions": 0, "applies": 0}


def put(*items):
    for it in items:
        H.update(repr(it).encode())
        H.update(b"|")


def put_array(a):
    a = np.asarray(a)
    put(str(a.dtype), tuple(a.shape))
    flat = a.ravel()
    if np.iscomplexobj(flat):
        vals = ["%.9e%+.9ej" % (v.real, v.imag) for v in flat]
    else:
        vals = ["%.9e" % float(v) for v in flat]
    put(",".join(vals))


def typed(seq):
    return [(type(v).__name__, int(v)) for v in seq]


def record_params(tag, fn, shapes, axis):
    COUNT["records"] += 1
    put("PARAMS", tag, repr(shapes), axis)
    snapshot = repr(shapes)
    try:
        shape, indices = fn(shapes, axis)
    except Exception as e:  # noqa
        COUNT["exceptions"] += 1
        put("EXC", type(e).__name__, str(e))
    else:
        put(type(shape).__name__, typed(shape))
        put(type(indices).__name__, typed(indices))
    put("args-unchanged", snapshot == repr(shapes))


def rand(rng, shape, dtype):
    dtype = np.dtype(dtype)
    shape = tuple(int(s) for s in shape)
    if dtype.kind == "c":
        a = rng.standard_normal(shape) + 1j * rng.standard_normal(shape)
        return np.asarray(a).astype(dtype)
    return np.asarray(rng.standard_normal(shape)).astype(dtype)


def record_op(tag, build, rng, dtypes):
    COUNT["records"] += 1
    put("OP", tag)
    try:
        op = build()
    except Exception as e:  # noqa
        COUNT["exceptions"] += 1
        put("EXC-build", type(e).__name__, str(e))
        return
    put(typed(op.oshape), typed(op.ishape))
    for name in ["indices", "iindices", "oindices"]:
        if hasattr(op, name):
            put(name, typed(getattr(op, name)))
    for blk in op.linops:  # operands are left alone
        put(typed(blk.oshape), typed(blk.ishape))
    for dtype in dtypes:
        x = rand(rng, op.ishape, dtype)
        x0 = x.copy()
        for rep in range(2):
            try:
                y = op(x)
            except Exception as e:  # noqa
                COUNT["exceptions"] += 1
                put("EXC-apply", type(e).__name__)
                continue
            COUNT["applies"] += 1
            put_array(y)
        put_array(x)
        put(bool(np.array_equal(x, x0)))
        for adj in [op.H]:
            y = rand(rng, adj.ishape, dtype)
            try:
                put_array(adj(y))
                COUNT["applies"] += 1
            except Exception as e:  # noqa
                COUNT["exceptions"] += 1
                put("EXC-adjoint", type(e).__name__)


def main():
    rng = np.random.RandomState(99)
    dtypes = [np.float32, np.float64, np.complex64, np.complex128]

    # ---- the helpers themselves --------------------------------------------
    shape_lists = [
        [[5]],
        [[5], [5]],
        [[3], [4], [1]],
        [[5, 3], [5, 3]],
        [[5, 3], [2, 3], [1, 3]],
        [[5, 3], [5, 1], [5, 7], [5, 2]],
        [[2, 1, 3], [2, 4, 3]],
        [[1, 1, 1], [1, 1, 1], [1, 1, 1]],
        [[5, 3], [5, 4]],          # mismatch off axis 0
        [[5, 3], [4, 3]],          # mismatch off axis 1
        [[5, 3], [4, 4]],          # mismatch everywhere
        [[5, 3], [5]],             # rank mismatch
        [[5], [5, 3]],
        [[5, 3], [5, 3, 1]],
        [[5, 3], [5, 3], [5]],     # rank mismatch in third
        [[5, 3], [4, 4], [5]],     # dim mismatch first, then rank mismatch
        [[5, 3], [5], [4, 4]],     # rank mismatch first, then dim mismatch
        [[2, 2, 2], [2, 3, 2], [3, 2, 2]],
        [[]],
        [[], []],
        [],
    ]

    def variants(shapes):
        yield "list", [list(s) for s in shapes]
        yield "tuple", [tuple(s) for s in shapes]
        yield "npint", [[np.int64(v) for v in s] for s in shapes]
        yield "mixed", [
            [np.int64(v) if (k + j) % 2 else int(v) for j, v in enumerate(s)]
            for k, s in enumerate(shapes)
        ]
        yield "int32", [[np.int32(v) for v in s] for s in shapes]
        yield "array", [np.array(s, dtype=np.int64) for s in shapes]

    for shapes in shape_lists:
        for axis in [None, 0, 1, 2, -1, -2, -3, 3, 5, -7]:
            for vname, vshapes in variants(shapes):
                record_params(("h", vname), linop._hstack_params, vshapes,
                              axis)
                record_params(("v", vname), linop._vstack_params, vshapes,
                              axis)

    # ---- through the public constructors ------------------------------------
    def blocks(shapes_io):
        ops = []
        for k, (oshape, ishape) in enumerate(shapes_io):
            R = linop.Resize(oshape, ishape)
            ops.append(R if k % 2 == 0 else (1 - 0.5j * k) * R)
        return ops

    base_sets = [[4], [3, 2], [2, 3, 2], [1, 1]]
    size_sets = [[2], [2, 2], [3, 1], [1, 2, 3], [2, 1, 1, 4]]
    for base in base_sets:
        ndim = len(base)
        for axis in list(range(-ndim, ndim)) + [None]:
            for sizes in size_sets:
                def shp(s):
                    out = list(base)
                    if axis is not None:
                        out[axis % ndim] = s
                    else:
                        out[0] = s
                    return out

                common = list(base)
                varying = [shp(s) for s in sizes]
                record_op(
                    ("Hstack", base, axis, sizes),
                    lambda: linop.Hstack(
                        blocks([(common, v) for v in varying]), axis=axis),
                    rng, dtypes)
                record_op(
                    ("Vstack", base, axis, sizes),
                    lambda: linop.Vstack(
                        blocks([(v, common) for v in varying]), axis=axis),
                    rng, dtypes)
                record_op(
                    ("Diag", base, axis, sizes),
                    lambda: linop.Diag(
                        blocks([(v, v[::-1][::-1]) for v in varying]),
                        oaxis=axis, iaxis=axis),
                    rng, dtypes[1::2])
                if axis is not None:
                    record_op(
                        ("Diag-mixed", base, axis, sizes),
                        lambda: linop.Diag(
                            blocks([(v, v) for v in varying]),
                            oaxis=None, iaxis=axis),
                        rng, dtypes[:1])
                    record_op(
                        ("Diag-mixed2", base, axis, sizes),
                        lambda: linop.Diag(
                            blocks([(v, v) for v in varying]),
                            oaxis=-axis - 1 if axis < 0 else axis - ndim,
                            iaxis=None),
                        rng, dtypes[2:3])

    # ---- incompatible operands through the constructors ---------------------
    cands = [
        linop.Identity([4]), linop.Identity([4, 3]), linop.Identity([3, 4]),
        linop.Resize([4, 3], [4, 2]), linop.Resize([5, 3], [4, 3]),
        linop.Reshape([12], [4, 3]), linop.Reshape([4, 3, 1], [4, 3]),
        linop.Identity([4, 3, 1]), linop.Transpose([4, 3]),
    ]
    for A, B in itertools.product(cands, repeat=2):
        for axis in [None, 0, 1, -1, -2, 2]:
            tag = (repr(A), repr(B), axis)
            record_op(("H",) + tag, lambda: linop.Hstack([A, B], axis=axis),
                      rng, dtypes[1:2])
            record_op(("V",) + tag, lambda: linop.Vstack([A, B], axis=axis),
                      rng, dtypes[3:4])
            record_op(("D",) + tag,
                      lambda: linop.Diag([A, B], oaxis=axis, iaxis=axis),
                      rng, dtypes[1:2])
    for A, B, C in itertools.product(cands[:5], repeat=3):
        record_op(("H3", repr(A), repr(B), repr(C)),
                  lambda: linop.Hstack([A, B, C], axis=1), rng, dtypes[1:2])
        record_op(("V3", repr(A), repr(B), repr(C)),
                  lambda: linop.Vstack([A, B, C], axis=-2), rng, dtypes[2:3])

    # public wrapper that stacks along a new leading axis
    for ishape, axes in [([4], None), ([3, 2], None), ([3, 2], [-1]),
                         ([2, 2, 2], [0, 2])]:
        record_op(("FiniteDifference", ishape, axes),
                  lambda: linop.FiniteDifference(ishape, axes=axes),
                  rng, dtypes)

    print(H.hexdigest())
    print(COUNT)


if __name__ == "__main__":
    main()
