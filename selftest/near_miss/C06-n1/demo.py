"""C06 near-miss equivalence demo.

Exercises sigpy.interp.interpolate / gridding (both kernels, scalar and
per-axis width / param, 1-3 dims, batch axes, multi-dim coordinate arrays,
float32 / float64 coordinates, real and complex data, out-of-range and
on-grid / half-integer coordinates, repeated calls) and sigpy.fourier.nufft /
nufft_adjoint on top of them, and prints one SHA256 digest over all results
(values rounded to 10 significant digits, dtypes, shapes, exception types for
invalid inputs, and a digest of the caller's arrays after each call).
"""
import hashlib
import sys

import numpy as np

from sigpy import fourier, interp

H = hashlib.sha256()


def _fmt(a):
    a = np.asarray(a)
    if np.iscomplexobj(a):
        parts = np.stack([a.real, a.imag], axis=-1).ravel()
    else:
        parts = a.astype(np.float64).ravel()
    parts = parts + 0.0  # -0.0 -> 0.0
    return ",".join("%.9e" % v for v in parts)


def record(tag, a):
    a = np.asarray(a)
    H.update(("%s|%s|%s|" % (tag, a.dtype, a.shape)).encode())
    H.update(_fmt(a).encode())
    H.update(b"\n")


def record_exc(tag, fn):
    try:
        out = fn()
    except Exception as e:  # noqa
        H.update(("%s|EXC|%s\n" % (tag, type(e).__name__)).encode())
    else:
        record(tag + "|noexc", out)


def randc(rng, shape, dtype):
    if np.issubdtype(dtype, np.complexfloating):
        return (
            rng.standard_normal(shape) + 1j * rng.standard_normal(shape)
        ).astype(dtype)
    return rng.standard_normal(shape).astype(dtype)


def make_coords(rng, shape, cshape, cdtype, kind):
    ndim = len(shape)
    n = np.array(shape, dtype=float)
    full = tuple(cshape) + (ndim,)
    if kind == "random":
        c = rng.random(full) * n
    elif kind == "outside":
        c = (rng.random(full) - 0.5) * 5 * n
    elif kind == "ongrid":
        c = np.floor(rng.random(full) * 3 * n - n)
    elif kind == "half":
        c = np.floor(rng.random(full) * 3 * n - n) + 0.5
    elif kind == "clustered":
        c = n / 3 + 1e-3 * rng.standard_normal(full)
    return c.astype(cdtype)


def main():
    rng = np.random.default_rng(2024)
    kinds = ["random", "outside", "ongrid", "half", "clustered"]

    # ---- interp.interpolate / gridding
    cfgs = [
        # grid shape, batch shape, coord point shape
        ((7,), (), (9,)),
        ((8,), (3,), (4, 3)),
        ((1,), (2,), (5,)),
        ((6, 5), (), (11,)),
        ((5, 8), (2, 2), (3, 4)),
        ((3, 1), (2,), (6,)),
        ((4, 5, 6), (), (10,)),
        ((5, 3, 4), (2,), (2, 5)),
        ((2, 2, 2), (1,), (7,)),
    ]
    kparams = [
        ("spline", 2, 1),
        ("spline", 1, 0),
        ("spline", 3, 2),
        ("spline", 2.5, 1),
        ("kaiser_bessel", 4, 6.99),
        ("kaiser_bessel", 3, 4.2),
        ("kaiser_bessel", 5.5, 9.1),
    ]
    count = 0
    for shape, batch, cshape in cfgs:
        ndim = len(shape)
        for kernel, width, param in kparams:
            for variant in ["scalar", "tuple", "array"]:
                if variant == "scalar":
                    w, p = width, param
                elif variant == "tuple":
                    w = tuple(width + 0.5 * d for d in range(ndim))
                    p = [param] * ndim if kernel == "spline" else [
                        param + 0.3 * d for d in range(ndim)
                    ]
                else:
                    w = np.array([width + d for d in range(ndim)])
                    p = np.array([param] * ndim)
                for dtype in [np.complex128, np.complex64, np.float64,
                              np.float32]:
                    count += 1
                    # thin out the cross product deterministically
                    if count % 3 != 0 and variant != "scalar":
                        continue
                    kind = kinds[count % len(kinds)]
                    cdtype = np.float32 if count % 4 == 0 else np.float64
                    coord = make_coords(rng, shape, cshape, cdtype, kind)
                    x = randc(rng, batch + shape, dtype)
                    y = randc(rng, batch + cshape, dtype)
                    x0, y0, c0 = x.copy(), y.copy(), coord.copy()
                    tag = "I|%s|%s|%s|%s|%s|%s|%s" % (
                        shape, batch, cshape, kernel, variant,
                        np.dtype(dtype), kind)
                    out = interp.interpolate(
                        x, coord, kernel=kernel, width=w, param=p)
                    record(tag, out)
                    out2 = interp.interpolate(
                        x, coord, kernel=kernel, width=w, param=p)
                    record(tag + "|again", out2)
                    g = interp.gridding(
                        y, coord, batch + shape, kernel=kernel, width=w,
                        param=p)
                    record("G" + tag[1:], g)
                    # aliasing that is allowed: same array as data of both
                    g2 = interp.gridding(
                        out, coord, batch + shape, kernel=kernel, width=w,
                        param=p)
                    record("GI" + tag[1:], g2)
                    record(tag + "|x_after", x)
                    record(tag + "|y_after", y)
                    record(tag + "|c_after", coord)
                    assert np.array_equal(x, x0) and np.array_equal(y, y0)
                    assert np.array_equal(coord, c0)

    # non-contiguous inputs / coordinate views
    x = randc(rng, (2, 6, 7), np.complex128)
    coord = make_coords(rng, (6, 7), (9,), np.float64, "outside")
    xv = np.asfortranarray(x)
    cv = coord[:, ::-1][:, ::-1]
    record("noncontig", interp.interpolate(
        xv, cv, kernel="kaiser_bessel", width=4, param=7.0))
    record("noncontig_T", interp.interpolate(
        x.transpose(0, 2, 1), coord[:, ::-1], kernel="kaiser_bessel",
        width=(4, 3), param=(7.0, 5.0)))

    # zero points, zero batch
    record("nopts", interp.interpolate(
        x, np.zeros((0, 2)), kernel="kaiser_bessel", width=4, param=7.0))
    record("nopts_g", interp.gridding(
        np.zeros((2, 0), complex), np.zeros((0, 2)), (2, 6, 7),
        kernel="spline"))

    # invalid inputs
    c1 = make_coords(rng, (6,), (5,), np.float64, "random")
    x1 = randc(rng, (6,), np.complex128)
    record_exc("bad_kernel", lambda: interp.interpolate(
        x1, c1, kernel="gauss"))
    record_exc("bad_kernel_g", lambda: interp.gridding(
        x1[:5], c1, (6,), kernel="gauss"))
    record_exc("ndim4", lambda: interp.interpolate(
        randc(rng, (2, 2, 2, 2), np.float64), np.zeros((3, 4))))
    record_exc("ndim4_g", lambda: interp.gridding(
        randc(rng, (3,), np.float64), np.zeros((3, 4)), (2, 2, 2, 2)))
    record_exc("grid_bad_npts", lambda: interp.gridding(
        x1, c1, (6,)))
    record_exc("int_coord", lambda: interp.interpolate(
        x1, np.array([[1], [2], [7]]), kernel="spline", width=2, param=1))
    record_exc("width_str", lambda: interp.interpolate(
        x1, c1, width="a"))
    record_exc("param_none", lambda: interp.interpolate(
        x1, c1, param=None))
    record_exc("width_ragged", lambda: interp.interpolate(
        randc(rng, (4, 4), np.float64), np.zeros((3, 2)),
        width=[[2, 2], [3]]))
    record_exc("coord_ndim0", lambda: interp.interpolate(
        x1, np.zeros((3, 0))))
    record_exc("input_too_small", lambda: interp.interpolate(
        x1, np.zeros((3, 2))))
    record_exc("list_input", lambda: interp.interpolate(
        [1.0, 2.0, 3.0], c1))

    # ---- fourier.nufft / nufft_adjoint on top
    ncfgs = [
        ((16,), (), (20,)),
        ((9,), (2,), (4, 5)),
        ((10, 7), (), (25,)),
        ((6, 6), (3,), (5, 4)),
        ((5, 4, 3), (), (15,)),
        ((4, 4, 5), (2,), (12,)),
        ((3, 1), (), (3,)),
    ]
    for shape, batch, cshape in ncfgs:
        for oversamp, width in [(1.25, 4), (2, 4), (1.5, 3), (1.25, 5),
                                (2, 6), (1.3, 4.5)]:
            for dtype, cdtype in [(np.complex128, np.float64),
                                  (np.complex64, np.float32),
                                  (np.complex64, np.float64),
                                  (np.float64, np.float64)]:
                count += 1
                kind = kinds[count % len(kinds)]
                coord = make_coords(rng, shape, cshape, cdtype, kind)
                coord -= (np.array(shape) // 2).astype(cdtype)
                x = randc(rng, batch + shape, dtype)
                y = randc(rng, batch + cshape, dtype)
                x0, y0, c0 = x.copy(), y.copy(), coord.copy()
                tag = "N|%s|%s|%s|%s|%s|%s|%s|%s" % (
                    shape, batch, cshape, oversamp, width, np.dtype(dtype),
                    np.dtype(cdtype), kind)
                f = fourier.nufft(x, coord, oversamp=oversamp, width=width)
                record(tag, f)
                a = fourier.nufft_adjoint(
                    y, coord, oshape=batch + shape, oversamp=oversamp,
                    width=width)
                record("A" + tag[1:], a)
                n = fourier.nufft_adjoint(
                    f, coord, oshape=list(batch + shape), oversamp=oversamp,
                    width=width)
                record("AN" + tag[1:], n)
                record(tag + "|again", fourier.nufft(
                    x, coord, oversamp=oversamp, width=width))
                record(tag + "|x_after", x)
                record(tag + "|y_after", y)
                record(tag + "|c_after", coord)
                assert np.array_equal(x, x0) and np.array_equal(y, y0)
                assert np.array_equal(coord, c0)

    cc = make_coords(rng, (8, 8), (30,), np.float64, "random") - 4
    record("adj_noshape", fourier.nufft_adjoint(
        randc(rng, (30,), np.complex128), cc))
    record("psf", fourier.toeplitz_psf(cc, (8, 8)))
    record("psf2", fourier.toeplitz_psf(cc, (2, 8, 8), 2, 3))
    record_exc("nufft_int_coord", lambda: fourier.nufft(
        randc(rng, (8,), np.complex128), np.array([[1], [2]])))
    record_exc("nufft_int_input", lambda: fourier.nufft(
        np.arange(8), np.array([[1.0], [2.5]])))
    record_exc("nufft_ndim4", lambda: fourier.nufft(
        randc(rng, (2, 2, 2, 2), np.complex128), np.zeros((3, 4))))
    record_exc("adj_bad_shape", lambda: fourier.nufft_adjoint(
        randc(rng, (7,), np.complex128), np.zeros((3, 1)), oshape=(8,)))
    record_exc("nufft_short_shape", lambda: fourier.nufft(
        randc(rng, (8,), np.complex128), np.zeros((3, 2))))

    print("SHA256", H.hexdigest())
    return 0


if __name__ == "__main__":
    sys.exit(main())
