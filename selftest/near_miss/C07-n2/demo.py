"""C07 near-miss equivalence demo (used for n1 and n2).

Exercises sigpy.interpolate / sigpy.gridding / linop.Interpolate /
linop.Gridding on a spread of inputs and prints one SHA256 digest of
everything observable: values (10 significant digits), dtypes, shapes,
exception types for invalid inputs, and the caller's arrays after the call.
The digest must be identical on the pristine and on the changed tree.
"""
import hashlib
import sys

import numpy as np

import sigpy as sp

H = hashlib.sha256()
NREC = [0]
COUNT = {"ok": 0, "exc": 0}


def rec(tag, a=None):
    NREC[0] += 1
    H.update(("|" + tag + "|").encode())
    if a is None:
        return
    a = np.asarray(a)
    H.update(("%s%s" % (a.dtype, a.shape)).encode())
    flat = a.ravel()
    if np.iscomplexobj(flat):
        flat = np.stack([flat.real, flat.imag], -1).ravel()
    H.update(",".join("%.9e" % float(v) for v in flat).encode())


def call(tag, fn, *keep):
    """Run fn, record result or exception type, then the caller's arrays."""
    try:
        out = fn()
        rec(tag + ":ok", out)
        COUNT["ok"] += 1
    except Exception as e:  # noqa
        inner = e.__cause__ if e.__cause__ is not None else e
        rec(tag + ":exc:" + type(e).__name__ + "/" + type(inner).__name__)
        out = None
        COUNT["exc"] += 1
    for k, a in enumerate(keep):
        rec(tag + ":arg%d" % k, a)
    return out


def data(rng, shape, dtype):
    a = rng.standard_normal(shape)
    if np.issubdtype(dtype, np.complexfloating):
        a = a + 1j * rng.standard_normal(shape)
    return a.astype(dtype)


def coords(rng, pts_shape, grid, cdtype):
    ndim = len(grid)
    c = rng.uniform(-1.5, 1.5, tuple(pts_shape) + (ndim,)) * np.array(grid)
    flat = c.reshape(-1, ndim)
    # sprinkle special cases: integers, half-integers (ties), duplicates,
    # far outside the grid, negative
    n = len(flat)
    if n >= 6:
        flat[0] = np.round(flat[0])
        flat[1] = np.floor(flat[1]) + 0.5
        flat[2] = flat[0]
        flat[3] = flat[3] + 40 * np.array(grid)
        flat[4] = -np.abs(flat[4]) - 7 * np.array(grid)
        flat[5] = 0.0
    return c.astype(cdtype)


def main():
    rng = np.random.default_rng(20240607)
    grids = [(7,), (1,), (5, 6), (4, 1), (1, 1), (3, 4, 5), (2, 1, 3)]
    kernels = [
        ("spline", 0), ("spline", 1), ("spline", 2), ("kaiser_bessel", 1),
        ("kaiser_bessel", 2.34), ("kaiser_bessel", 9.5),
    ]
    widths = [2, 1, 3, 4.0, 2.5, 0.5]
    dtypes = [np.float32, np.float64, np.complex64, np.complex128]
    batches = [(), (2,), (2, 3), (1,)]
    case = 0
    for grid in grids:
        ndim = len(grid)
        for kernel, p in kernels:
            for w in widths:
                case += 1
                dtype = dtypes[case % 4]
                cdtype = np.float32 if case % 5 == 0 else np.float64
                batch = batches[(case // 3) % 4]
                pts = [(9,), (3, 4), (7, 1), (0,)][case % 7 % 4]
                c = coords(rng, pts, grid, cdtype)
                # scalar or per-axis parameters
                if case % 3 == 0 and ndim > 1:
                    wa = tuple(w + 0.5 * d for d in range(ndim))
                    pa = tuple(
                        (p + d) % 3 if kernel == "spline" else p + 0.75 * d
                        for d in range(ndim)
                    )
                    if case % 2:
                        wa, pa = list(wa), np.array(pa)
                else:
                    wa, pa = w, p
                if case % 11 == 0:
                    wa = np.float32(w)
                x = data(rng, batch + grid, dtype)
                y = data(rng, batch + pts, dtype)
                if case % 6 == 0 and x.ndim >= 2:  # non-contiguous views
                    x = np.asfortranarray(x)
                    c = np.asfortranarray(c)
                tag = "c%d" % case
                for rep in range(2):  # repeated calls
                    call(tag + "i%d" % rep,
                         lambda: sp.interpolate(x, c, kernel=kernel,
                                                width=wa, param=pa), x, c)
                    call(tag + "g%d" % rep,
                         lambda: sp.gridding(y, c, batch + grid,
                                             kernel=kernel, width=wa,
                                             param=pa), y, c)
                if case % 4 == 1 and 0 not in pts:
                    A = sp.linop.Interpolate(batch + grid, c, kernel=kernel,
                                             width=wa, param=pa)
                    G = sp.linop.Gridding(list(batch + grid), c,
                                          kernel=kernel, width=wa, param=pa)
                    call(tag + "A", lambda: A * x, x)
                    call(tag + "AH", lambda: A.H * y, y)
                    call(tag + "AN", lambda: A.N * x, x)
                    call(tag + "G", lambda: G * y, y)
                    call(tag + "GHG", lambda: G.H * G * y, y)
                    rec(tag + "repr" + repr(A) + repr(G.H))

    # default arguments, positional arguments
    x = data(rng, (2, 6, 5), np.complex128)
    c = coords(rng, (8,), (6, 5), np.float64)
    y = data(rng, (2, 8), np.complex128)
    call("def_i", lambda: sp.interpolate(x, c), x, c)
    call("def_g", lambda: sp.gridding(y, c, [2, 6, 5]), y, c)
    call("pos_i", lambda: sp.interpolate(x, c, "kaiser_bessel", 3, 4.5), x, c)
    call("pos_g", lambda: sp.gridding(y, c, (2, 6, 5), "spline", (3, 2), (2, 0)),
         y, c)
    # aliasing: the data array doubles as (a view of) the coordinates
    z = np.abs(data(rng, (6, 2), np.float64)) * 3
    call("alias_i", lambda: sp.interpolate(z, z, width=3), z)
    call("alias_g", lambda: sp.gridding(z[:, 0], z, (6, 2), width=(2, 3)), z)
    # integer / bool data, integer coordinates
    xi = np.arange(12).reshape(3, 4)
    ci = np.array([[0, 1], [2, 3], [5, -2]])
    call("int_i", lambda: sp.interpolate(xi, ci.astype(float)), xi)
    call("intc_i", lambda: sp.interpolate(xi.astype(float), ci, width=3), ci)
    call("intc_g", lambda: sp.gridding(np.ones(3), ci, (3, 4), width=2.5), ci)
    # nan / inf data and coordinates far away
    xn = data(rng, (5,), np.float64)
    xn[2] = np.nan
    xn[4] = np.inf
    cn = np.array([[0.0], [1.5], [3.2], [1e6 + 0.25], [-1e6 - 0.75]])
    call("nan_i", lambda: sp.interpolate(xn, cn, width=3, param=2), xn, cn)
    call("nan_g", lambda: sp.gridding(xn, cn, (5,), "kaiser_bessel", 4, 5.0),
         xn, cn)

    # invalid inputs -> exception types
    x1 = data(rng, (5,), np.float64)
    c1 = coords(rng, (6,), (5,), np.float64)
    c4 = coords(rng, (6,), (2, 2, 2, 2), np.float64)
    x4 = data(rng, (2, 2, 2, 2), np.float64)
    bad = [
        ("badkernel_i", lambda: sp.interpolate(x1, c1, kernel="cubic")),
        ("badkernel_g", lambda: sp.gridding(np.ones(6), c1, (5,), kernel=None)),
        ("ndim4_i", lambda: sp.interpolate(x4, c4)),
        ("ndim4_g", lambda: sp.gridding(np.ones(6), c4, (2, 2, 2, 2))),
        ("npts_g", lambda: sp.gridding(np.ones(5), c1, (5,))),
        ("strwidth_i", lambda: sp.interpolate(x1, c1, width="wide")),
        ("strparam_g", lambda: sp.gridding(np.ones(6), c1, (5,), param="a")),
        ("nonewidth_i", lambda: sp.interpolate(x1, c1, width=None)),
        ("nestwidth_g", lambda: sp.gridding(np.ones(6), c1, (5,),
                                            width=[[2]])),
        ("raggedparam_i", lambda: sp.interpolate(x1, c1, param=[1, [2]])),
        ("coordlist_i", lambda: sp.interpolate(x1, [[1.0]])),
        ("lowdim_i", lambda: sp.interpolate(
            x1, coords(rng, (6,), (5, 5), np.float64))),
        ("cplxwidth_i", lambda: sp.interpolate(x1, c1, width=2 + 1j)),
        ("linop_shape", lambda: sp.linop.Interpolate((5,), c1, width=3)
         * np.ones(4)),
        ("linop_badk", lambda: sp.linop.Gridding((5,), c1, kernel="x")
         * np.ones(6)),
    ]
    for tag, fn in bad:
        call(tag, fn, x1, c1)

    print("records:", NREC[0], "calls ok:", COUNT["ok"], "calls raising:", COUNT["exc"])
    print("DIGEST", H.hexdigest())
    return 0


if __name__ == "__main__":
    sys.exit(main())
