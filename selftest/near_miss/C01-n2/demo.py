"""C01 / round 3 / near-miss n2 - equivalence demonstration.

Exercises sigpy.interp.interpolate / gridding (and the Interpolate, Gridding,
NUFFT, NUFFTAdjoint linops built on them) over 1-D / 2-D / 3-D coordinates
inside and outside of the grid, both kernels, scalar and per-axis widths and
parameters (even, odd, fractional), several dtypes and batch shapes, repeated
calls and invalid inputs, and prints one SHA256 digest over everything
observable: values (10 significant digits), dtypes, shapes, exception types
and the caller's arrays after each call.
"""
import hashlib

import numpy as np

from sigpy import fourier, interp, linop

H = hashlib.sha256()
NREC = [0]


def rec(*items):
    for it in items:
        H.update(repr(it).encode())
        H.update(b"|")
    NREC[0] += 1


def rec_array(tag, a):
    if isinstance(a, np.ndarray):
        c = np.asarray(a).astype(np.complex128) + 0.0
        txt = ",".join(
            "%.9e%+.9ej" % (v.real + 0.0, v.imag + 0.0) for v in c.ravel()
        )
        rec(tag, str(a.dtype), tuple(a.shape), txt)
    else:
        rec(tag, type(a).__name__, repr(a))


def exc_chain(e):
    names = []
    while e is not None:
        names.append(type(e).__name__)
        e = e.__cause__
    return tuple(names)


def call(tag, f, arrays, reps=2):
    """Call f(), record its result and every caller array afterwards."""
    before = [a.copy() for a in arrays]
    for rep in range(reps):
        try:
            y = f()
            rec_array(tag + "/out%d" % rep, y)
        except Exception as e:  # noqa
            rec(tag + "/exc%d" % rep, exc_chain(e))
        for n, (a, b) in enumerate(zip(arrays, before)):
            rec_array(tag + "/arg%d-after" % n, a)
            rec(tag + "/arg%d-unchanged" % n, bool(np.array_equal(a, b)))


def randn(rng, shape, dtype):
    shape = list(shape)
    if np.issubdtype(dtype, np.complexfloating):
        return (rng.randn(*shape) + 1j * rng.randn(*shape)).astype(dtype)
    return rng.randn(*shape).astype(dtype)


def main():
    rng = np.random.RandomState(4321)
    dtypes = [np.float32, np.float64, np.complex64, np.complex128]
    grids = {1: [7], 2: [5, 6], 3: [3, 4, 5]}

    # width / param settings: scalar and per-axis, even / odd / fractional
    def settings(ndim):
        yield "spline", 2, 1
        yield "spline", 3, 2
        yield "spline", 2.5, 0
        yield "spline", 1, 1
        yield "kaiser_bessel", 4, 5.7
        yield "kaiser_bessel", 3, 2.1
        yield "kaiser_bessel", 0.5, 9.0
        if ndim > 1:
            widths = [2, 3.5, 5][:ndim]
            params = [1, 2, 0][:ndim]
            betas = [3.3, 7.9, 12.5][:ndim]
            yield "spline", widths, params
            yield "spline", widths[::-1], 1
            yield "kaiser_bessel", widths, betas
            yield "kaiser_bessel", 4, betas[::-1]
            yield "kaiser_bessel", tuple(widths), tuple(betas)

    for ndim in [1, 2, 3]:
        grid = grids[ndim]
        coords = {
            "inside": rng.uniform(0, min(grid) - 1, size=(6, ndim)),
            "outside": rng.uniform(-9.5, 14.5, size=(5, ndim)),
            "integer": rng.randint(-3, 9, size=(4, ndim)).astype(np.float64),
            "half": rng.randint(-3, 9, size=(4, ndim)) + 0.5,
            "ptsgrid": rng.uniform(-2, 8, size=(2, 3, ndim)),
            "single": rng.uniform(0, 2, size=(1, ndim)),
        }
        for cname, coord in coords.items():
            for kernel, width, param in settings(ndim):
                for batch in [[], [2], [1, 2]]:
                    for dtype in dtypes:
                        tag = "f/%d/%s/%s/%s/%s/%s/%s" % (
                            ndim,
                            cname,
                            kernel,
                            width,
                            param,
                            batch,
                            dtype.__name__,
                        )
                        x = randn(rng, batch + grid, dtype)
                        y = randn(rng, batch + list(coord.shape[:-1]), dtype)
                        call(
                            tag + "/interp",
                            lambda: interp.interpolate(
                                x, coord, kernel=kernel, width=width,
                                param=param
                            ),
                            [x, coord],
                        )
                        call(
                            tag + "/grid",
                            lambda: interp.gridding(
                                y, coord, batch + grid, kernel=kernel,
                                width=width, param=param
                            ),
                            [y, coord],
                        )

        # float32 coordinates (width / param arrays take the coord dtype)
        coord32 = rng.uniform(-2, 8, size=(5, ndim)).astype(np.float32)
        for kernel, width, param in settings(ndim):
            x = randn(rng, [2] + grid, np.complex64)
            y = randn(rng, [2, 5], np.complex64)
            tag = "c32/%d/%s/%s/%s" % (ndim, kernel, width, param)
            call(
                tag + "/interp",
                lambda: interp.interpolate(
                    x, coord32, kernel=kernel, width=width, param=param
                ),
                [x, coord32],
            )
            call(
                tag + "/grid",
                lambda: interp.gridding(
                    y, coord32, [2] + grid, kernel=kernel, width=width,
                    param=param
                ),
                [y, coord32],
            )

        # linops + nufft on top of the kernels
        coord = rng.uniform(-3, 3, size=(7, ndim))
        for width, oversamp in [(4, 1.25), (3, 1.5), (2.5, 2), (5, 1.1)]:
            for batch in [[], [2]]:
                A = linop.NUFFT(batch + grid, coord, oversamp=oversamp,
                                width=width)
                tag = "nufft/%d/%s/%s/%s" % (ndim, width, oversamp, batch)
                for dtype in [np.complex64, np.complex128]:
                    x = randn(rng, A.ishape, dtype)
                    y = randn(rng, A.oshape, dtype)
                    call(tag + "/A/" + dtype.__name__, lambda: A(x), [x])
                    call(tag + "/AH/" + dtype.__name__, lambda: A.H(y), [y])
                    call(tag + "/AHH/" + dtype.__name__, lambda: A.H.H(x), [x])
        for kernel, width, param in settings(ndim):
            A = linop.Interpolate([2] + grid, coord, kernel=kernel,
                                  width=width, param=param)
            tag = "linop/%d/%s/%s/%s" % (ndim, kernel, width, param)
            x = randn(rng, A.ishape, np.complex128)
            y = randn(rng, A.oshape, np.complex128)
            call(tag + "/A", lambda: A(x), [x])
            call(tag + "/AH", lambda: A.H(y), [y])
            call(tag + "/AHH", lambda: A.H.H(x), [x])
            call(tag + "/AN", lambda: A.N(x), [x])

    # toeplitz psf uses nufft + nufft_adjoint
    coord = rng.uniform(-2, 2, size=(9, 3))
    call(
        "psf3", lambda: fourier.toeplitz_psf(coord, [4, 3, 4], 1.25, 3),
        [coord],
    )

    # invalid inputs
    x = randn(rng, [3, 4, 5], np.float64)
    c3 = rng.uniform(0, 3, size=(4, 3))
    c4 = rng.uniform(0, 3, size=(4, 4))
    call("bad/kernel", lambda: interp.interpolate(x, c3, kernel="foo"), [x])
    call("bad/ndim4", lambda: interp.interpolate(
        randn(rng, [2, 2, 2, 2], np.float64), c4), [c4])
    call("bad/grid-shape", lambda: interp.gridding(
        randn(rng, [5], np.float64), c3, [3, 4, 5]), [c3])
    call("bad/int-input", lambda: interp.interpolate(
        np.arange(60).reshape(3, 4, 5), c3), [c3])

    print("records:", NREC[0])
    print("digest:", H.hexdigest())


if __name__ == "__main__":
    main()
