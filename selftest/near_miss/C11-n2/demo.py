"""C11 / round 3 / near-miss n2 - equivalence digest for prox.Stack._prox.

Runs Stack on many block combinations (all library Prox classes, nested
Stack / Conj / UnitaryTransform / L2Reg(proxh=...)), block results of
different dtypes (every pair and many triples of numpy dtypes through a small
user-defined Prox subclass that casts), non-contiguous / Fortran-ordered /
broadcast-view / empty / 0-d block results, block results that ARE the input
view (NoOp, feasible L1Proj), scalar / numpy-scalar / array step sizes,
repeated calls and invalid inputs. Prints a SHA256 over: result values (10
significant digits), dtypes, shapes, flags, exception types (outer and cause),
aliasing of the result with the input, and the caller's arrays after the call.
"""
import hashlib
import itertools
import warnings

import numpy as np

from sigpy import linop, prox

H = hashlib.sha256()
NREC = [0]
COUNT = {"ok": 0, "exc": 0}


def fmt(a):
    a = np.asarray(a)
    if a.dtype.kind == "c":
        flat = np.stack([a.real.ravel(), a.imag.ravel()], -1).ravel()
    elif a.dtype.kind in "fiub":
        flat = a.ravel().astype(np.float64)
    else:
        return repr(a.tolist())
    return ",".join("%.9e" % v for v in flat)


def rec(*items):
    NREC[0] += 1
    for it in items:
        if isinstance(it, (np.ndarray, np.generic)):
            a = np.asarray(it)
            s = "arr|%s|%s|%s" % (a.dtype, a.shape, fmt(a))
        else:
            s = repr(it)
        H.update(s.encode())
        H.update(b"\n")


def call(tag, P, alpha, x, watch=()):
    before = [w.copy() for w in watch]
    try:
        out = P(alpha, x)
        COUNT["ok"] += 1
        rec(
            tag,
            "ok",
            out,
            "type=%s" % type(out).__name__,
            "c_contig=%s" % out.flags["C_CONTIGUOUS"],
            "owndata=%s" % out.flags["OWNDATA"],
            "writeable=%s" % out.flags["WRITEABLE"],
            "same_object=%s" % (out is x),
            "shares_memory=%s"
            % (isinstance(x, np.ndarray) and np.shares_memory(out, x)),
        )
    except Exception as e:  # noqa
        COUNT["exc"] += 1
        rec(tag, "exc", type(e).__name__, type(e.__cause__).__name__)
        out = None
    for w, b in zip(watch, before):
        rec(tag, "after", w, "unchanged=%s" % np.array_equal(w, b, equal_nan=w.dtype.kind in "fc"))
    return out


class Cast(prox.Prox):
    """User-defined block: returns the input cast to a given dtype."""

    def __init__(self, shape, dtype):
        self.dtype = dtype
        super().__init__(shape)

    def _prox(self, alpha, input):
        with warnings.catch_warnings():
            warnings.simplefilter("ignore")
            return input.astype(self.dtype)


class Layout(prox.Prox):
    """User-defined block returning results with unusual memory layout."""

    def __init__(self, shape, kind):
        self.kind = kind
        super().__init__(shape)

    def _prox(self, alpha, input):
        if self.kind == "fortran":
            return np.asfortranarray(input * 2)
        if self.kind == "strided" and input.ndim == 0:
            return input + 1
        if self.kind == "strided":
            big = np.zeros(tuple(2 * s for s in input.shape), input.dtype)
            view = big[tuple(slice(None, None, 2) for _ in input.shape)]
            view[...] = input + 1
            return view
        if self.kind == "transposed":
            return np.ascontiguousarray((input * 3).T).T
        if self.kind == "broadcast":
            if input.size == 0:
                return input.copy()
            return np.broadcast_to(input.ravel()[0], input.shape)
        if self.kind == "readonly":
            out = input.copy()
            out.flags.writeable = False
            return out
        if self.kind == "input":
            return input
        if self.kind == "reversed":
            return input[::-1]
        raise ValueError(self.kind)


class Bad(prox.Prox):
    """Block that returns something invalid."""

    def __init__(self, shape, what):
        self.what = what
        super().__init__(shape)

    def _prox(self, alpha, input):
        if self.what == "list":
            return input.tolist()
        if self.what == "longer":
            return np.concatenate([input, input])
        if self.what == "raise":
            raise KeyError("boom")
        if self.what == "scalar":
            return float(input.sum())
        if self.what == "samefirst":  # passes the (zip-truncated) shape check
            return np.stack([input, input], -1)


def rand(rng, shape, dtype):
    dtype = np.dtype(dtype)
    x = rng.standard_normal(shape) * 3
    if dtype.kind == "c":
        x = x + 1j * rng.standard_normal(shape)
    if dtype.kind in "iu":
        return np.round(np.abs(x) if dtype.kind == "u" else x).astype(dtype)
    if dtype.kind == "b":
        return x > 0
    return x.astype(dtype)


ALL_DT = [
    np.bool_, np.int8, np.uint8, np.int16, np.uint16, np.int32, np.uint32,
    np.int64, np.uint64, np.float16, np.float32, np.float64,
    np.complex64, np.complex128,
]


def main():
    warnings.simplefilter("ignore")
    np.seterr(all="ignore")
    rng = np.random.default_rng(11)

    # 1. dtype promotion: every ordered pair, every triple of a subset,
    #    for several input dtypes
    for in_dt in [np.float64, np.complex64, np.int32, np.float32]:
        x = rand(rng, (7,), in_dt)
        for d1, d2 in itertools.product(ALL_DT, repeat=2):
            S = prox.Stack([Cast([3], d1), Cast([2, 2], d2)])
            call("pair|%s|%s|%s" % (np.dtype(in_dt), np.dtype(d1), np.dtype(d2)), S, 1.0, x, (x,))
        sub = [np.bool_, np.int8, np.uint8, np.int64, np.uint64, np.float16, np.float32, np.complex64]
        for d1, d2, d3 in itertools.product(sub, repeat=3):
            S = prox.Stack([Cast([3], d1), Cast([2], d2), Cast([2, 1], d3)])
            call("triple|%s|%s|%s|%s" % (np.dtype(in_dt), np.dtype(d1), np.dtype(d2), np.dtype(d3)), S, 0.5, x, (x,))
        for d1 in ALL_DT:
            call("single|%s|%s" % (np.dtype(in_dt), np.dtype(d1)), prox.Stack([Cast([7], d1)]), 2.0, x, (x,))

    # 2. layouts / aliasing / empty / 0-d blocks
    kinds = ["fortran", "strided", "transposed", "broadcast", "readonly", "input", "reversed"]
    for dt in [np.float64, np.complex128, np.float32]:
        for shape in [(2, 3), (3, 2, 2), (4,), (1,), (0,), (2, 0), ()]:
            n = int(np.prod(shape))
            for k1, k2 in itertools.product(kinds, repeat=2):
                if (k1 == "reversed" or k2 == "reversed") and len(shape) == 0:
                    continue
                x = rand(rng, (2 * n + 3,), dt)
                S = prox.Stack([Layout(shape, k1), prox.NoOp([3]), Layout(shape, k2)])
                tag = "layout|%s|%s|%s|%s" % (np.dtype(dt), shape, k1, k2)
                o1 = call(tag, S, 1.0, x, (x,))
                o2 = call(tag + "|again", S, 1.0, x, (x,))
                rec(tag, "repeat=%s" % (o1 is not None and o2 is not None and np.array_equal(o1, o2, equal_nan=True) and o1 is not o2))
                if o1 is not None and o1.size:
                    # result must be a private buffer: writing it leaves x alone
                    o1[...] = 0
                    rec(tag, "after_write", x)
                # non-contiguous / read-only input vector
                xs = rand(rng, (2 * (2 * n + 3),), dt)[::2]
                call(tag + "|strided_in", S, 1.0, xs, (xs,))
                xr = x.copy()
                xr.flags.writeable = False
                call(tag + "|readonly_in", S, 1.0, xr, (xr,))

    # 3. library blocks, nestings, step sizes
    for dt in [np.float64, np.complex128, np.float32, np.complex64, np.int64]:
        for shape in [(6,), (2, 3), (2, 1, 3)]:
            n = 6
            z = rand(rng, shape, np.complex128 if np.dtype(dt).kind == "c" else np.float64)
            A = linop.FFT(shape)
            blocks = [
                prox.L1Reg(shape, 0.7),
                prox.L2Reg(shape, 0.4),
                prox.L2Reg(shape, 0.4, y=z, proxh=prox.L1Reg(shape, 0.2)),
                prox.L1Proj(shape, 2.0),
                prox.L1Proj(shape, 1e6),
                prox.L2Proj(shape, 1.5, y=z),
                prox.L2Proj(shape, 1.5, axes=[-1]),
                prox.LInfProj(shape, 0.9, bias=z),
                prox.BoxConstraint(shape, -1, 1.5),
                prox.NoOp(shape),
                prox.Conj(prox.L1Reg(shape, 0.5)),
                prox.Conj(prox.L2Proj(shape, 0.8, y=z)),
                prox.UnitaryTransform(prox.L1Reg(shape, 0.3), A),
                prox.Stack([prox.L1Reg([2], 0.1), prox.L2Reg([4], 2.0)]),
                prox.Conj(prox.Stack([prox.L1Reg([4], 0.1), prox.NoOp([2])])),
            ]
            sq = prox.PsdProj([3, 3])
            aarr2 = np.abs(rand(rng, (2 * n,), np.float64)) + 0.1
            aarr3 = np.abs(rand(rng, (2 * n + 9,), np.float32)) + 0.1
            for i, j in itertools.product(range(len(blocks)), repeat=2):
                b1, b2 = blocks[i], blocks[j]
                # a Stack block has the flat shape [6]
                x = rand(rng, (2 * n,), dt)
                for ia, alpha in enumerate([1.0, 0.3, np.float32(2.0), np.float64(0.7), aarr2, np.array(0.5), None, 2]):
                    wa = (x, aarr2, z)
                    call("lib|%s|%s|%d|%d|a%d" % (np.dtype(dt), shape, i, j, ia), prox.Stack([b1, b2]), alpha, x, wa)
                x3 = rand(rng, (2 * n + 9,), dt)
                for ia, alpha in enumerate([1.0, 0.25, aarr3]):
                    call("lib3|%s|%s|%d|%d|a%d" % (np.dtype(dt), shape, i, j, ia), prox.Stack([b1, sq, b2]), alpha, x3, (x3, aarr3, z))

    # 4. invalid inputs / failing blocks
    x = rand(rng, (8,), np.float64)
    for what in ["list", "longer", "raise", "scalar", "samefirst"]:
        for pos in [0, 1]:
            bl = [prox.L1Reg([4], 0.5), prox.L1Reg([4], 0.5)]
            bl[pos] = Bad([4], what)
            call("bad|%s|%d" % (what, pos), prox.Stack(bl), 1.0, x, (x,))
    S = prox.Stack([prox.L1Reg([4], 0.5), prox.L2Reg([2, 2], 0.5)])
    call("bad|short", S, 1.0, x[:7], (x,))
    call("bad|long", S, 1.0, rand(rng, (9,), np.float64))
    call("bad|2d", S, 1.0, x.reshape(2, 4), (x,))
    call("bad|list_in", S, 1.0, x.tolist())
    call("bad|alpha_short", S, np.ones(5), x, (x,))
    call("bad|alpha_long", S, np.ones(11), x, (x,))
    call("bad|alpha_str", S, "a", x, (x,))
    call("bad|alpha_list", S, [1.0] * 8, x, (x,))
    call("bad|alpha_none", S, None, x, (x,))
    try:
        prox.Stack([])
        rec("bad|empty", "ok")
    except Exception as e:  # noqa
        rec("bad|empty", type(e).__name__)

    print("records:", NREC[0], "calls ok/exc:", COUNT["ok"], COUNT["exc"])
    print("digest:", H.hexdigest())


if __name__ == "__main__":
    main()
