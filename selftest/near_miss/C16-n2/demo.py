"""C16 / round 3 / near-miss n2: equivalence digest for sigpy.mri.linop.Sense.

Builds the Sense operator for a spread of configurations, applies forward and
adjoint (repeatedly), and hashes values (10 significant digits), dtypes,
shapes, operator shapes/repr, exception types for invalid input, and the
caller's arrays after the calls.
"""
import hashlib
import itertools
import warnings

import numpy as np

import sigpy as sp
from sigpy.mri import linop

warnings.simplefilter("ignore")
H = hashlib.sha256()


def put(*items):
    for it in items:
        H.update(repr(it).encode())
        H.update(b"|")


def put_arr(tag, a):
    a = np.asarray(a)
    put(tag, str(a.dtype), a.shape)
    if a.dtype.kind == "c":
        flat = np.stack([a.real.ravel(), a.imag.ravel()], -1).ravel()
    else:
        flat = a.ravel().astype(np.float64)
    # + 0.0 folds -0.0 into 0.0
    H.update(",".join("%.9e" % (v + 0.0) for v in flat).encode())
    H.update(b"|")


def rand(rng, shape, dtype):
    if np.dtype(dtype).kind == "c":
        return (rng.randn(*shape) + 1j * rng.randn(*shape)).astype(dtype)
    return rng.randn(*shape).astype(dtype)


def radial_coord(rng, shape, npts):
    return (rng.rand(npts, len(shape)) - 0.5) * np.array(shape, dtype=float)


def run_case(tag, mps, x, **kw):
    inputs = {k: v.copy() for k, v in kw.items() if isinstance(v, np.ndarray)}
    mps0, x0 = mps.copy(), x.copy()
    put("case", tag, sorted((k, type(v).__name__) for k, v in kw.items()))
    try:
        A = linop.Sense(mps, **kw)
        put(repr(A), list(A.ishape), list(A.oshape), type(A).__name__)
        put(type(A.H).__name__, repr(A.H), repr(A.N))
        y = A(x)
        put_arr("fwd", y)
        put_arr("fwd2", A * x)  # repeated call
        rng = np.random.RandomState(7)
        k = rand(rng, tuple(A.oshape), y.dtype)
        k0 = k.copy()
        put_arr("adj", A.H(k))
        put_arr("adj2", A.H * k)
        put_arr("normal", A.N(x))
        put_arr("k_after", k)
        put("k_unchanged", bool(np.array_equal(k, k0)))
    except Exception as e:  # noqa
        c = e
        chain = []
        while c is not None:
            chain.append(type(c).__name__)
            c = c.__cause__
        put("EXC", chain)
    put_arr("mps_after", mps)
    put_arr("x_after", x)
    put(bool(np.array_equal(mps, mps0)), bool(np.array_equal(x, x0)))
    for k_, v0 in inputs.items():
        put_arr(k_ + "_after", kw[k_])
        put(bool(np.array_equal(kw[k_], v0)))


rng = np.random.RandomState(160302)

shapes = [(6, 6), (5, 7), (1, 8), (4, 3, 5), (3, 1, 4), (9,)]
for shape, nc, dtype in itertools.product(
    shapes, [1, 3, 5], [np.complex128, np.complex64, np.float64]
):
    mps = rand(rng, (nc,) + shape, dtype)
    x = rand(rng, shape, np.complex64 if dtype == np.complex64 else np.complex128)
    w_cart = rng.rand(*shape).astype(np.float32 if dtype == np.complex64 else float)
    npts = 23
    coord = radial_coord(rng, shape, npts)
    w_nc = rng.rand(npts) + 0.1
    for cbs in [None, 1, 2, nc, nc + 2]:
        run_case(("cart", shape, nc, cbs), mps, x, coil_batch_size=cbs)
        run_case(("cartw", shape, nc, cbs), mps, x, weights=w_cart, coil_batch_size=cbs)
        if len(shape) >= 2:
            run_case(("nc", shape, nc, cbs), mps, x, coord=coord, coil_batch_size=cbs)
            run_case(
                ("ncw", shape, nc, cbs), mps, x, coord=coord, weights=w_nc,
                coil_batch_size=cbs,
            )
            run_case(
                ("nct", shape, nc, cbs), mps, x, coord=coord, weights=w_nc,
                coil_batch_size=cbs, transp_nufft=True,
            )
    # explicit ishape (same as default, as list, and as tuple)
    run_case(("ishape_list", shape, nc), mps, x, ishape=list(shape))
    run_case(("ishape_tuple", shape, nc), mps, x, ishape=tuple(shape), coil_batch_size=2)
    # complex weights, weights aliasing the maps' magnitude
    run_case(("cplx_w", shape, nc), mps, x, weights=(w_cart + 0j))
    wal = np.abs(mps[0])
    run_case(("alias_w", shape, nc), mps, x, weights=wal, coil_batch_size=1)

# broadcasting maps / explicit ishape that differs from mps.shape[1:]
mps_b = rand(rng, (4, 1, 6), np.complex128)
x_b = rand(rng, (5, 6), np.complex128)
run_case("bcast_ishape", mps_b, x_b, ishape=(5, 6))
run_case("bcast_ishape_batch", mps_b, x_b, ishape=[5, 6], coil_batch_size=3)
run_case("bcast_noishape", mps_b, x_b)  # invalid: x does not match

# time-segmented off-resonance model (lseg 1, 2, 3; transposed or not; batched)
shape = (8, 8)
yy, xx = np.mgrid[:8, :8]
coord = np.stack([np.ravel(yy - 4), np.ravel(xx - 4)], axis=1).astype(float)
b0 = 300 * np.exp(-((np.sqrt(xx * xx + yy * yy) - 0.25) ** 2) / 8.0)
mps = rand(rng, (3,) + shape, np.complex128)
x = rand(rng, shape, np.complex128)
w = rng.rand(64) + 0.2
for lseg, tr, wts, cbs in itertools.product([1, 2, 3], [False, True], [None, w], [None, 2]):
    tseg = {"b0": b0, "dt": 4e-6, "lseg": lseg, "n_bins": 10}
    run_case(("tseg", lseg, tr, wts is not None, cbs), mps, x, coord=coord,
             tseg=tseg, weights=wts, transp_nufft=tr, coil_batch_size=cbs)

# invalid inputs -> exception types
tseg = {"b0": b0, "dt": 4e-6, "lseg": 1, "n_bins": 10}
run_case("tseg_nocoord", mps, x, tseg=tseg)
run_case("tseg_nocoord_t", mps, x, tseg=tseg, transp_nufft=True)
run_case("transp_nocoord", mps, x, transp_nufft=True)
run_case("cbs0", mps, x, coil_batch_size=0)
run_case("cbs_neg", mps, x, coil_batch_size=-1)
run_case("cbs_float", mps, x, coil_batch_size=1.5)
run_case("bad_w", mps, x, weights=rng.rand(5, 3))
run_case("bad_w_batch", mps, x, weights=rng.rand(5, 3), coil_batch_size=2)
run_case("bad_ishape", mps, x, ishape=(7, 7))
run_case("int_ishape", mps, x, ishape=8)
run_case("bad_coord", mps, x, coord=np.zeros((10, 3)))
run_case("bad_x", mps, rand(rng, (8, 7), np.complex128))
try:
    linop.Sense([[1.0, 2.0], [3.0, 4.0]])
    put("list_mps_ok")
except Exception as e:  # noqa
    put("EXC_list", type(e).__name__)
try:
    linop.Sense(np.float64(3.0))
    put("scalar_mps_ok")
except Exception as e:  # noqa
    put("EXC_scalar", type(e).__name__)

print(H.hexdigest())
