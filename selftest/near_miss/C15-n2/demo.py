"""C15 / near-miss n2 equivalence demo (GradientMethod: step computed once).

Runs GradientMethod (directly and through LinearLeastSquares) over a spread of
configurations and prints a SHA256 digest of everything observable: x, z, t,
resid, iter, done() after every update (including updates past done()), the
caller-owned arrays after the run, identity of alg.x with the caller's array,
and exception types for invalid configurations.
"""
import hashlib
import sys
import warnings

import numpy as np

from sigpy import alg, app, linop, prox

warnings.simplefilter("ignore")

H = hashlib.sha256()


def rnd(a):
    a = np.asarray(a)
    out = ["%s%s" % (a.dtype, a.shape)]
    flat = a.ravel()
    if np.iscomplexobj(flat):
        flat = np.stack([flat.real, flat.imag], -1).ravel()
    for v in flat.astype(np.float64):
        out.append("%.9e" % v)
    return "|".join(out)


def put(tag, *vals):
    parts = [tag]
    for v in vals:
        if isinstance(v, (np.ndarray, np.generic, float, int, complex)):
            parts.append(type(v).__name__ + ":" + rnd(v))
        else:
            parts.append(repr(v))
    H.update((";".join(parts) + "\n").encode())


def soft(lam):
    def f(alpha, x):
        mag = np.abs(x)
        ph = np.where(mag > 0, x / np.where(mag > 0, mag, 1), 0)
        return ph * np.maximum(mag - np.max(alpha) * lam, 0)

    return f


def make_x(layout, shape, dtype):
    """Caller-owned solution array in different memory layouts."""
    if layout == "C":
        base = np.zeros(shape, dtype)
        return base, base
    if layout == "F":
        base = np.zeros(shape, dtype, order="F")
        return base, base
    if layout == "strided":  # every other element of a bigger caller buffer
        base = np.full(tuple(2 * s for s in shape), 7, dtype)
        view = base[tuple(slice(None, None, 2) for _ in shape)]
        view[...] = 0
        return base, view
    if layout == "T":
        base = np.zeros(shape[::-1], dtype)
        return base, base.T
    raise ValueError(layout)


def run_gm(tag, dtype, shape, layout, accelerate, proxname, alpha, max_iter,
           tol, extra, x0=None):
    rng = np.random.RandomState(sum(shape) * 13 + len(shape))
    n = int(np.prod(shape))
    m = n + 2
    A = rng.randn(m, n)
    if np.issubdtype(dtype, np.complexfloating):
        A = A + 1j * rng.randn(m, n)
    A = A.astype(dtype)
    y = (A @ rng.randn(n)).astype(dtype)
    base, x = make_x(layout, shape, dtype)
    if x0 is not None:
        x[...] = x0
    lips = np.linalg.norm(A.astype(np.complex128), 2) ** 2
    if alpha == "1/L":
        alpha = 1 / lips
    elif alpha == "np32":
        alpha = np.float32(1 / lips)
    elif alpha == "arr":
        alpha = np.full(shape, 1 / lips)
    proxg = {
        "none": None,
        "l1": soft(0.5),
        "l2": lambda a, v: v / (1 + 0.1 * a),
        "zero": lambda a, v: np.zeros_like(v),
    }[proxname]

    def gradf(v):
        g = A.conj().T @ (A @ v.reshape(-1) - y)
        return g.reshape(v.shape).astype(v.dtype)

    g = None
    try:
        g = alg.GradientMethod(gradf, x, alpha, proxg=proxg,
                               accelerate=accelerate, max_iter=max_iter,
                               tol=tol)
        n_upd = 0
        while True:
            d = g.done()
            put(tag + ".state", n_upd, d, g.iter, g.resid, g.x,
                getattr(g, "z", None), getattr(g, "t", None), g.x is x)
            if n_upd >= max_iter + extra or (d and n_upd >= g.iter + extra):
                break
            if d and extra == 0:
                break
            g.update()
            n_upd += 1
    except Exception as e:  # noqa
        put(tag + ".exc", type(e).__name__)
        if g is not None:  # state left behind by the failed update
            put(tag + ".after-exc", g.iter, g.resid, g.x,
                getattr(g, "z", None), getattr(g, "t", None))
    put(tag + ".caller", base, x, A, y,
        alpha if isinstance(alpha, np.ndarray) else 0)


def main():
    k = 0
    for dtype in [np.float64, np.float32, np.complex128, np.complex64]:
        for shape in [(5,), (3, 2), (1,), (2, 1, 3)]:
            for layout in ["C", "F", "strided", "T"]:
                for accelerate in [True, False]:
                    for proxname in ["none", "l1", "l2"]:
                        k += 1
                        tag = "gm-%s-%s-%s-%s-%s" % (
                            np.dtype(dtype).name, shape, layout, accelerate,
                            proxname)
                        run_gm(tag, dtype, shape, layout, accelerate,
                               proxname,
                               ["1/L", "np32", "1/L", "arr"][(k // 6) % 4],
                               max_iter=[0, 1, 2, 5, 8][k % 5], tol=0,
                               extra=(k // 2) % 3)

    # zero initialisation + strongly sparsifying prox (x never moves), x0 != 0,
    # tol > 0, and invalid configurations
    for acc in [True, False]:
        run_gm("stall-%s" % acc, np.float64, (4,), "C", acc, "zero", "1/L",
               6, 0, 2)
        run_gm("stall-x0-%s" % acc, np.complex128, (4,), "C", acc, "zero",
               "1/L", 6, 0, 2, x0=1 + 1j)
        run_gm("tol-%s" % acc, np.float64, (5,), "C", acc, "l2", "1/L",
               200, 1e-3, 1)
        run_gm("tol-c-%s" % acc, np.complex64, (5,), "strided", acc, "l1",
               "1/L", 200, 1e-2, 1)
        run_gm("int-x-%s" % acc, np.int64, (5,), "C", acc, "none", "1/L",
               3, 0, 0)
        run_gm("alpha0-%s" % acc, np.float64, (5,), "C", acc, "none", 0,
               3, 0, 0)
        run_gm("alpha0f-%s" % acc, np.float64, (5,), "C", acc, "l1", 0.0,
               3, 0, 0)
        run_gm("alpha-neg-%s" % acc, np.float64, (5,), "C", acc, "l1",
               -0.01, 3, 0, 1)
        run_gm("alpha-none-%s" % acc, np.float64, (5,), "C", acc, "l1",
               None, 3, 0, 0)
        run_gm("bool-x-%s" % acc, np.bool_, (5,), "C", acc, "none", "1/L",
               3, 0, 0)

    # Through LinearLeastSquares
    for dtype in [np.float64, np.complex128, np.float32]:
        for lamda in [0, 0.1]:
            for accelerate in [True, False]:
                for use_prox in [False, True]:
                    for alpha in [None, 0.2]:
                        for max_iter in [0, 3, 6]:
                            n = 5
                            rng = np.random.RandomState(5)
                            M = (np.eye(n) + 0.1 * rng.randn(n, n)).astype(dtype)
                            A = linop.MatMul([n, 1], M)
                            y = (M @ np.arange(n).reshape(n, 1)).astype(dtype)
                            z = np.ones((n, 1), dtype) if lamda else None
                            pg = prox.L1Reg([n, 1], 0.05) if use_prox else None
                            np.random.seed(21)
                            tag = "lls-%s-%s-%s-%s-%s-%s" % (
                                np.dtype(dtype).name, lamda, accelerate,
                                use_prox, alpha, max_iter)
                            try:
                                a = app.LinearLeastSquares(
                                    A, y, proxg=pg, lamda=lamda, z=z,
                                    solver="GradientMethod", alpha=alpha,
                                    accelerate=accelerate, max_iter=max_iter,
                                    max_power_iter=4, show_pbar=False)
                                out = a.run()
                                put(tag, out, out is a.alg.x, a.alg.iter,
                                    a.alg.resid, a.alg.alpha,
                                    getattr(a.alg, "z", None))
                            except Exception as e:  # noqa
                                put(tag + ".exc", type(e).__name__)
                            put(tag + ".caller", y, M,
                                z if z is not None else 0)

    print(H.hexdigest())
    return 0


if __name__ == "__main__":
    sys.exit(main())
