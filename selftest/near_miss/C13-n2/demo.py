"""Equivalence demo for the C13 near-miss rewrites (n1: GradientMethod._update,
n2: PrimalDualHybridGradient._update).

Runs both solvers over a spread of problems / dtypes / shapes / options,
records every iterate, the solver state, dtypes, shapes, exception types and a
digest of the caller-owned input arrays, and prints one SHA256 digest.  The
digest must be the same on the pristine tree and on the rewritten tree.
"""
import hashlib
import sys

import numpy as np

from sigpy import alg

LOG = []


def fmt_val(v):
    v = complex(v)
    if v.imag == 0 and not isinstance(v, bool):
        return "%.10g" % v.real
    return "%.10g%+.10gj" % (v.real, v.imag)


def rec(tag, obj):
    """Append a canonical text form of obj to the log."""
    if isinstance(obj, np.ndarray):
        flat = np.asarray(obj).ravel()
        LOG.append(
            "%s|nd|%s|%s|%s"
            % (
                tag,
                obj.dtype.str,
                obj.shape,
                ",".join(fmt_val(v) for v in flat),
            )
        )
    elif isinstance(obj, (bool, np.bool_)):
        LOG.append("%s|bool|%s" % (tag, bool(obj)))
    elif isinstance(obj, (int, float, complex, np.generic)):
        LOG.append("%s|%s|%s" % (tag, type(obj).__name__, fmt_val(obj)))
    else:
        LOG.append("%s|%s|%r" % (tag, type(obj).__name__, obj))


def soft(x, t):
    mag = np.abs(x)
    return (np.maximum(mag - t, 0) / np.where(mag == 0, 1, mag) * x).astype(
        x.dtype
    )


def box(x, lo, hi):
    if np.iscomplexobj(x):
        return (
            np.clip(x.real, lo, hi) + 1j * np.clip(x.imag, lo, hi)
        ).astype(x.dtype)
    return np.clip(x, lo, hi)


def rand(rng, shape, dtype):
    dtype = np.dtype(dtype)
    r = rng.randn(*shape)
    if dtype.kind == "c":
        r = r + 1j * rng.randn(*shape)
    return r.astype(dtype)


# ---------------------------------------------------------------------------
# GradientMethod
# ---------------------------------------------------------------------------
def gm_case(tag, dtype, shape, accelerate, gname, alpha_kind, tol, n_iter,
            view, seed):
    rng = np.random.RandomState(seed)
    n = int(np.prod(shape))
    m = n + 2
    A = rand(rng, (m, n), dtype)
    A /= np.linalg.norm(A, 2)
    y = rand(rng, (m,), dtype)
    lam = 0.2
    if view:
        big = rand(rng, (2 * n,), dtype)
        x = big[::2].reshape(shape) if len(shape) == 1 else None
        if x is None:
            big = rand(rng, tuple(shape) + (2,), dtype)
            x = big[..., 0]
    else:
        big = None
        x = rand(rng, shape, dtype)
    A0, y0 = A.copy(), y.copy()

    def gradf(v):
        return (A.conj().T @ (A @ v.ravel() - y)).reshape(v.shape)

    proxg = {
        "none": None,
        "l2sq": lambda a, v: v / (1 + lam * a),
        "l1": lambda a, v: soft(v, lam * a),
        "box": lambda a, v: box(v, -0.3, 0.3),
        "noop_same": lambda a, v: v,  # returns its input object
    }[gname]
    alpha = {
        "float": 0.9,
        "np32": np.float32(0.9),
        "np64": np.float64(1.0),
        "int": 1,
    }[alpha_kind]

    try:
        solver = alg.GradientMethod(
            gradf, x, alpha, proxg=proxg, accelerate=accelerate,
            max_iter=n_iter, tol=tol,
        )
        k = 0
        while not solver.done():
            solver.update()
            k += 1
            rec(tag + "/x%d" % k, x)
            rec(tag + "/resid%d" % k, solver.resid)
            if accelerate:
                rec(tag + "/z%d" % k, solver.z)
                rec(tag + "/t%d" % k, solver.t)
        rec(tag + "/iters", solver.iter)
        # one more update after done(): objects are allowed to keep going
        solver.update()
        rec(tag + "/x_extra", x)
        rec(tag + "/same_x", solver.x is x)
    except Exception as e:  # noqa
        rec(tag + "/exc", type(e).__name__)
    rec(tag + "/A_after", np.array_equal(A, A0))
    rec(tag + "/y_after", np.array_equal(y, y0))
    if big is not None:
        rec(tag + "/big_after", big)


def gm_invalid():
    # gradient of the wrong shape, prox returning complex for a real x,
    # prox of the wrong shape, integer x with float step.
    x = np.zeros(4)
    for tag, kw in [
        ("badgrad", dict(gradf=lambda v: np.ones(5))),
        ("cplxprox", dict(gradf=lambda v: v, proxg=lambda a, v: v * 1j)),
        ("badprox", dict(gradf=lambda v: v, proxg=lambda a, v: np.ones(3))),
    ]:
        for acc in [False, True]:
            xx = x.copy() + 1
            try:
                s = alg.GradientMethod(
                    kw["gradf"], xx, 0.5, proxg=kw.get("proxg"),
                    accelerate=acc, max_iter=3,
                )
                while not s.done():
                    s.update()
                rec("gm_inv/%s/%s" % (tag, acc), xx)
            except Exception as e:  # noqa
                rec("gm_inv/%s/%s/exc" % (tag, acc), type(e).__name__)
                rec("gm_inv/%s/%s/x" % (tag, acc), xx)
    xi = np.arange(4)
    try:
        s = alg.GradientMethod(lambda v: 0.5 * v, xi, 0.5, max_iter=2)
        while not s.done():
            s.update()
        rec("gm_inv/int", xi)
    except Exception as e:  # noqa
        rec("gm_inv/int/exc", type(e).__name__)
        rec("gm_inv/int/x", xi)


# ---------------------------------------------------------------------------
# PrimalDualHybridGradient
# ---------------------------------------------------------------------------
def pdhg_case(tag, dtype, xshape, gname, steps, gammas, theta, tol, n_iter,
              view, seed, ident=False):
    rng = np.random.RandomState(seed)
    n = int(np.prod(xshape))
    m = n if ident else n + 1
    A = np.eye(n, dtype=dtype) if ident else rand(rng, (m, n), dtype)
    A = A / np.linalg.norm(A, 2)
    A = A.astype(dtype)
    y = rand(rng, (m,), dtype)
    lam = 0.3
    if view:
        bigx = rand(rng, tuple(xshape) + (2,), dtype)
        x = bigx[..., 1]
        bigu = rand(rng, (3 * m,), dtype)
        u = bigu[1::3]
    else:
        bigx = bigu = None
        x = rand(rng, xshape, dtype)
        u = rand(rng, (m,), dtype)
    A0, y0 = A.copy(), y.copy()
    rdtype = np.zeros(1, dtype).real.dtype

    if ident:
        # A and AH hand back their argument object itself
        Aop = lambda v: v.reshape(m) if v.shape != (m,) else v
        AHop = lambda v: v.reshape(xshape) if v.shape != tuple(xshape) else v
    else:
        Aop = lambda v: A @ v.ravel()
        AHop = lambda v: (A.conj().T @ v).reshape(xshape)

    proxfc = lambda s, v: (v - s * y) / (1 + s)
    proxg = {
        "noop_same": lambda t, v: v,
        "l2sq": lambda t, v: v / (1 + lam * t),
        "l1": lambda t, v: soft(v, lam * t),
        "box": lambda t, v: box(v, -0.3, 0.3),
    }[gname]

    if steps == "float":
        tau, sigma = 0.8, 1.2
    elif steps == "int":
        tau, sigma = 1, 1
    elif steps == "np32":
        tau, sigma = np.float32(0.8), np.float32(1.2)
    elif steps == "arr":
        tau = rng.uniform(0.3, 0.8, xshape).astype(rdtype)
        sigma = rng.uniform(0.4, 1.2, (m,)).astype(rdtype)
    elif steps == "arr64":
        tau = rng.uniform(0.3, 0.8, xshape)
        sigma = rng.uniform(0.4, 1.2, (m,))
    elif steps == "tau_arr":
        tau = rng.uniform(0.3, 0.8, xshape).astype(rdtype)
        sigma = 1.2
    elif steps == "sigma_arr":
        tau = 0.8
        sigma = rng.uniform(0.4, 1.2, (m,)).astype(rdtype)
    gp, gd = gammas

    try:
        solver = alg.PrimalDualHybridGradient(
            proxfc, proxg, Aop, AHop, x, u, tau, sigma, theta=theta,
            gamma_primal=gp, gamma_dual=gd, max_iter=n_iter, tol=tol,
        )
        k = 0
        while not solver.done():
            solver.update()
            k += 1
            rec(tag + "/x%d" % k, x)
            rec(tag + "/u%d" % k, u)
            rec(tag + "/xext%d" % k, solver.x_ext)
            rec(tag + "/resid%d" % k, solver.resid)
            rec(tag + "/tau%d" % k, solver.tau)
            rec(tag + "/sigma%d" % k, solver.sigma)
        rec(tag + "/iters", solver.iter)
        solver.update()
        rec(tag + "/x_extra", x)
        rec(tag + "/u_extra", u)
        rec(tag + "/same", (solver.x is x, solver.u is u))
    except Exception as e:  # noqa
        rec(tag + "/exc", type(e).__name__)
    # caller-owned inputs after the run (step arrays are rescaled in place by
    # the library when accelerating: that effect is part of the digest)
    rec(tag + "/A_after", np.array_equal(A, A0))
    rec(tag + "/y_after", np.array_equal(y, y0))
    if isinstance(tau, np.ndarray):
        rec(tag + "/tau_after", tau)
    if isinstance(sigma, np.ndarray):
        rec(tag + "/sigma_after", sigma)
    if bigx is not None:
        rec(tag + "/bigx_after", bigx)
        rec(tag + "/bigu_after", bigu)


def pdhg_invalid():
    base = dict(
        proxfc=lambda s, v: v / (1 + s),
        proxg=lambda t, v: v,
        A=lambda v: v,
        AH=lambda v: v,
    )
    cases = [
        ("badA", dict(A=lambda v: np.ones(7))),
        ("badAH", dict(AH=lambda v: np.ones(7))),
        ("cplxprox", dict(proxg=lambda t, v: v * 1j)),
        ("cplxproxfc", dict(proxfc=lambda s, v: v * 1j)),
        ("badtheta", dict(theta=np.ones((2, 5)))),
        ("thetavec", dict(theta=np.linspace(0.5, 1, 5))),
    ]
    for tag, over in cases:
        kw = dict(base)
        theta = over.pop("theta", 1)
        kw.update(over)
        for gam in [(0, 0), (0.5, 0), (0, 0.5)]:
            x = np.linspace(-1, 1, 5)
            u = np.linspace(1, 2, 5)
            try:
                s = alg.PrimalDualHybridGradient(
                    kw["proxfc"], kw["proxg"], kw["A"], kw["AH"], x, u,
                    0.5, 0.5, theta=theta, gamma_primal=gam[0],
                    gamma_dual=gam[1], max_iter=3,
                )
                while not s.done():
                    s.update()
                rec("pd_inv/%s/%s" % (tag, gam), x)
                rec("pd_inv/%s/%s/u" % (tag, gam), u)
                rec("pd_inv/%s/%s/xext" % (tag, gam), s.x_ext)
            except Exception as e:  # noqa
                rec("pd_inv/%s/%s/exc" % (tag, gam), type(e).__name__)
                rec("pd_inv/%s/%s/x" % (tag, gam), x)
                rec("pd_inv/%s/%s/u" % (tag, gam), u)
    # integer arrays with float steps
    x = np.arange(5)
    u = np.arange(5)[::-1].copy()
    try:
        s = alg.PrimalDualHybridGradient(
            base["proxfc"], base["proxg"], base["A"], base["AH"], x, u,
            0.5, 0.5, max_iter=2,
        )
        while not s.done():
            s.update()
        rec("pd_inv/int", x)
    except Exception as e:  # noqa
        rec("pd_inv/int/exc", type(e).__name__)
        rec("pd_inv/int/x", x)
        rec("pd_inv/int/u", u)


def main():
    seed = 0
    for dtype in ["float32", "float64", "complex64", "complex128"]:
        for shape in [(5,), (5, 1), (2, 3), (1,), (2, 1, 3)]:
            for accelerate in [False, True]:
                for gname in ["none", "l2sq", "l1", "box", "noop_same"]:
                    seed += 1
                    alpha_kind = ["float", "np32", "np64", "int"][seed % 4]
                    tol = [0, 0, 1e-3][seed % 3]
                    view = (seed % 5 == 0)
                    tag = "gm/%s/%s/%s/%s/%s/%s/%s" % (
                        dtype, shape, accelerate, gname, alpha_kind, tol, view)
                    gm_case(tag, dtype, shape, accelerate, gname, alpha_kind,
                            tol, 7, view, seed)
    gm_invalid()

    for dtype in ["float32", "float64", "complex64", "complex128"]:
        for xshape in [(5,), (5, 1), (2, 3), (1,)]:
            for gname in ["noop_same", "l2sq", "l1", "box"]:
                for gammas in [(0, 0), (0.3, 0), (0, 1.0), (0.3, 1.0),
                               (np.float64(0.3), 0), (0, np.float32(1.0))]:
                    seed += 1
                    steps = ["float", "arr", "int", "tau_arr", "np32",
                             "sigma_arr", "arr64"][seed % 7]
                    theta = [1, 0.5, 1.0, np.float32(0.75)][seed % 4]
                    tol = [0, 0, 0, 1e-2][seed % 4]
                    view = (seed % 3 == 0)
                    ident = (seed % 11 == 0)
                    tag = "pd/%s/%s/%s/%s/%s/%s/%s/%s/%s" % (
                        dtype, xshape, gname, gammas, steps, theta, tol, view,
                        ident)
                    pdhg_case(tag, dtype, xshape, gname, steps, gammas, theta,
                              tol, 6, view, seed, ident=ident)
    pdhg_invalid()

    text = "\n".join(LOG).encode()
    n_exc = sum(1 for line in LOG if "/exc|" in line)
    print("records: %d (exception records: %d)" % (len(LOG), n_exc))
    print("SHA256:", hashlib.sha256(text).hexdigest())
    return 0


if __name__ == "__main__":
    sys.exit(main())
